package server

// C11_writefail: "If the WRITE or any required acknowledgement fails ... the requester gets an error
// instead, the hold is removed".  An ack-required lock is pending with one follower (mode all).  The
// leader's own write of its record FAILS: AofFile.Flush reports every pending acknowledgement request
// of a failed write with Aof.lockAcked(record, false) — the harness delivers exactly that report for the
// record waiting in the file buffer — before or after the follower's positive acknowledgement.  The
// requester gets exactly one reply, it is not SUCCED, and the hold is gone.

import (
	"github.com/snower/slock/protocol"
)

func init() { vfHarnesses["C11_writefail"] = vfH_C11_writefail }

func vfH_C11_writefail() {
	dir := vfFSDir()
	env := vfNewEnv(2)
	vfSetDBTime(env.db, vfBaseTime)
	vfOpenAof(env, dir)
	Config.AofAckMode = 0
	rm := env.slock.replicationManager
	rm.serverChannels = append(rm.serverChannels, nil)
	key := vfKey(1)
	a := env.newCmd(protocol.COMMAND_LOCK, key, vfLockId(1))
	a.TimeoutFlag = protocol.TIMEOUT_FLAG_REQUIRE_ACKED
	a.Timeout, a.Expried = 5, 100
	areq := a.RequestId
	env.lock(0, a)
	vfDrainAof(env.db)
	vfAssert(len(env.repliesFor(areq)) == 0, "C11: the ack-required lock was answered before any acknowledgement")
	ackdb := rm.GetAckDB(0)
	vfAssert(ackdb != nil, "C11: no ack DB after pushing an ack-required record")
	aofId, registered := ackdb.commandAofs[0][areq]
	vfAssert(registered, "C11: the ack-required record was not registered for acknowledgement")
	f := env.slock.aof.aofFile
	vfAssert(f.ackIndex == 1, "C11: harness: the record does not wait in the file buffer for its write")
	rec := append([]byte(nil), f.ackRequests[0]...)
	followerFirst := vfChoice("followerFirst", 2) == 1
	if followerFirst {
		_ = env.slock.aof.loadLockAck(vfAckFrame(a, aofId, protocol.RESULT_SUCCED))
		vfDrainAof(env.db)
		vfReach("follower-first")
	}
	_ = env.slock.aof.lockAcked(rec, false) // what AofFile.Flush does for each pending request when the write fails
	vfDrainAof(env.db)
	if !followerFirst {
		_ = env.slock.aof.loadLockAck(vfAckFrame(a, aofId, protocol.RESULT_SUCCED))
		vfDrainAof(env.db)
	}
	rs := env.repliesFor(areq)
	vfAssert(len(rs) == 1, "C11: after the leader's own write failed the requester did not get exactly one reply")
	vfAssert(rs[0].result != protocol.RESULT_SUCCED, "C11: a lock whose record could not be written to the leader's own log was reported SUCCED")
	vfAssert(vfHeldBy(env, key, vfLockId(1)) == 0, "C11: the hold of a lock whose record could not be written is still there")
	vfReach("end")
}
