package server

// C05_longpair / C06_longpair: SEVERAL entries in one bucket of the long-wait / long-expiry
// table (same key, same deadline second), one of which leaves early (granted, cancelled,
// unlocked) while the bucket holds it — leaving a hole in the bucket.  The entries that stay
// must still end exactly at their deadline tick; the one that left gets nothing further.

import (
	"github.com/snower/slock/protocol"
)

func init() {
	vfHarnesses["C05_longpair"] = vfH_C05_longpair
	vfHarnesses["C06_longpair"] = vfH_C06_longpair
}

func vfH_C05_longpair() {
	env := vfNewEnv(2)
	vfSetDBTime(env.db, vfBaseTime)
	key := vfKey(1)
	h := env.newCmd(protocol.COMMAND_LOCK, key, vfLockId(0))
	h.Expried, h.ExpriedFlag, h.Count = 0xffff, 0x4200, 0
	env.lock(0, h)
	const T = 60
	n := 2 + vfChoice("waiters", 2)
	reqs := make([][16]byte, n)
	for i := 0; i < n; i++ {
		c := env.newCmd(protocol.COMMAND_LOCK, key, vfLockId(uint8(10+i)))
		c.Timeout, c.Expried, c.ExpriedFlag, c.Count = T, 0xffff, 0x4200, 0
		env.lock(1, c)
		reqs[i] = c.RequestId
	}
	leaveAt := [3]int{45, 50, 59}[vfChoice("leaveAt", 3)] // after the second wheel's re-check rounds: all are in the long table
	who := vfChoice("who", n)                             // which one leaves (first, middle, last in the bucket)
	how := vfChoice("how", 2)
	if how == 0 {
		who = 0 // a grant goes to the head of the queue
	}
	now := 0
	for now < T+3 {
		vfTick(env, 1)
		now++
		if now == leaveAt {
			if how == 0 {
				u := env.newCmd(protocol.COMMAND_UNLOCK, key, vfLockId(0))
				env.unlock(0, u)
				vfAssert(vfCountResult(env.replies, reqs[0], protocol.RESULT_SUCCED) == 1, "C05: the head of the queue was not granted when the holder left")
			} else {
				u := env.newCmd(protocol.COMMAND_UNLOCK, key, vfLockId(uint8(10+who)))
				u.Flag = protocol.UNLOCK_FLAG_CANCEL_WAIT_LOCK_WHEN_UNLOCKED
				env.unlock(1, u)
			}
		}
		for i := 0; i < n; i++ {
			nto := vfCountResult(env.replies, reqs[i], protocol.RESULT_TIMEOUT)
			if i == who && now >= leaveAt {
				vfAssert(nto == 0, "C05: a request that was granted or cancelled got TIMEOUT")
			} else if now <= T {
				vfAssert(nto == 0, "C05: TIMEOUT before the timeout T has elapsed (long-wait table)")
			} else {
				vfAssert(nto == 1, "C05: no TIMEOUT within T+2 seconds for a request that shares its long-wait bucket with one that left early")
			}
		}
	}
	vfAssert(env.db.states[0].WaitCount == 0, "C05: WaitCount not zero after every queued request ended")
	vfReach("end")
}

func vfH_C06_longpair() {
	env := vfNewEnv(2)
	vfSetDBTime(env.db, vfBaseTime)
	const E = 60
	sameKey := vfChoice("sameKey", 2) == 1
	n := 2 + vfChoice("holds", 2)
	reqs := make([][16]byte, n)
	keys := make([][16]byte, n)
	for i := 0; i < n; i++ {
		keys[i] = vfKey(uint8(1 + i))
		if sameKey {
			keys[i] = vfKey(1)
		}
		c := env.newCmd(protocol.COMMAND_LOCK, keys[i], vfLockId(uint8(10+i)))
		c.Expried, c.ExpriedFlag, c.Count = E, 0x0200, 8
		env.lock(0, c)
		reqs[i] = c.RequestId
		vfAssert(vfCountResult(env.replies, reqs[i], protocol.RESULT_SUCCED) == 1, "C06: harness: hold not granted")
	}
	leaveAt := [3]int{45, 50, 59}[vfChoice("leaveAt", 3)]
	who := vfChoice("who", n)
	now := 0
	for now < E+3 {
		vfTick(env, 1)
		now++
		if now == leaveAt {
			u := env.newCmd(protocol.COMMAND_UNLOCK, keys[who], vfLockId(uint8(10+who)))
			env.unlock(0, u)
		}
		for i := 0; i < n; i++ {
			nex := vfCountResult(env.replies, reqs[i], protocol.RESULT_EXPRIED)
			if i == who && now >= leaveAt {
				vfAssert(nex == 0, "C06: a hold that was released got an EXPRIED notice")
			} else if now <= E {
				vfAssert(nex == 0, "C06: EXPRIED before E has elapsed (long-expiry table)")
			} else {
				vfAssert(nex == 1, "C06: no EXPRIED within E+2 seconds for a hold that shares its long-expiry bucket with one that was released early")
			}
		}
	}
	for i := 0; i < n; i++ {
		vfAssert(len(vfHolders(env.manager(keys[i]))) == 0, "C06: a hold is still there after its deadline")
	}
	vfAssert(env.db.states[0].LockedCount == 0, "C06: LockedCount not zero after every hold ended")
	vfReach("end")
}
