package server

// C05_sweepjump / C06_sweepjump: the sweeper loops after a LONG stall.  A wait (a hold) that has
// already moved to the long-wait (long-expiry) table — buckets keyed by the absolute second, not
// by a wheel slot — is pending when the server's clock moves on by J seconds at once, J larger
// than one turn of the 16-slot second wheel, across the deadline.  One real round of the loop
// (hook vfSingleRound) must visit every skipped second: sweeping the wheel once around is not
// enough, the long table's bucket of the deadline's second is reached only by its own second.

import (
	"github.com/snower/slock/protocol"
)

func init() {
	vfHarnesses["C05_sweepjump"] = vfH_C05_sweepjump
	vfHarnesses["C06_sweepjump"] = vfH_C06_sweepjump
}

func vfH_C05_sweepjump() {
	env := vfNewEnv(2)
	t0 := vfBaseTime
	vfSetDBTime(env.db, t0)
	key := vfKey(1)
	a := env.newCmd(protocol.COMMAND_LOCK, key, vfLockId(1))
	a.Expried, a.ExpriedFlag = 1000, 0x0200
	env.lock(0, a)
	T := vfU16("T")
	vfAssume(T >= 60 && T <= 75)
	b := env.newCmd(protocol.COMMAND_LOCK, key, vfLockId(2))
	b.Timeout, b.Expried, b.ExpriedFlag = T, 1000, 0x0200
	breq := b.RequestId
	env.lock(1, b)
	// second by second until the request sits in the long-wait table
	at := 46 + vfChoice("stallAt", 3)*4
	vfTick(env, int64(at))
	vfAssert(vfCountResult(env.replies, breq, protocol.RESULT_TIMEOUT) == 0, "C05: TIMEOUT before the timeout T has elapsed")
	// the stall: the clock moves on by J seconds at once, across the deadline t0 + T + 1
	J := int64(T) + 1 - int64(at) + int64(vfBeyond())
	env.db.currentTime += J
	vfRealRound(env, false)
	vfAssert(vfCountResult(env.replies, breq, protocol.RESULT_TIMEOUT) == 1, "C05: after a stall longer than one turn of the second wheel, a wait in the long-wait table whose deadline lay in the skipped seconds was not answered TIMEOUT by the sweeper's next round")
	vfAssert(env.db.states[0].WaitCount == 0, "C05: WaitCount not zero after the only queued request ended")
	// and from then on it can no longer be granted
	u := env.newCmd(protocol.COMMAND_UNLOCK, key, vfLockId(1))
	env.unlock(0, u)
	vfAssert(vfCountResult(env.replies, breq, protocol.RESULT_SUCCED) == 0, "C05: a request answered TIMEOUT was granted afterwards")
	vfReach("end")
}

func vfH_C06_sweepjump() {
	env := vfNewEnv(2)
	t0 := vfBaseTime
	vfSetDBTime(env.db, t0)
	key := vfKey(1)
	E := vfU16("E")
	vfAssume(E >= 60 && E <= 75)
	a := env.newCmd(protocol.COMMAND_LOCK, key, vfLockId(1))
	a.Expried, a.ExpriedFlag = E, 0x0200
	areq := a.RequestId
	env.lock(0, a)
	at := 46 + vfChoice("stallAt", 3)*4
	vfTick(env, int64(at))
	vfAssert(vfCountResult(env.replies, areq, protocol.RESULT_EXPRIED) == 0, "C06: a hold was ended before its expiry time")
	J := int64(E) + 1 - int64(at) + int64(vfBeyond())
	env.db.currentTime += J
	vfRealRound(env, true)
	vfAssert(vfCountResult(env.replies, areq, protocol.RESULT_EXPRIED) == 1, "C06: after a stall longer than one turn of the second wheel, a hold in the long-expiry table whose deadline lay in the skipped seconds was not ended by the sweeper's next round")
	vfAssert(vfHeldBy(env, key, vfLockId(1)) == 0, "C06: the hold is still there")
	vfReach("end")
}

func vfBeyond() uint16 {
	b := vfU16("beyond")
	vfAssume(b <= 40)
	return b
}
