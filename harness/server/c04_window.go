package server

import "github.com/snower/slock/protocol"

// C04_window: a request that arrives in the window of a hand-over.  UnLock releases the key's mutex,
// answers the unlock and only then runs the wake-up pass that serves the queue; the reply callback of the
// in-process protocol runs exactly in that window, so the harness sends a third client's LOCK from
// inside it (one concrete interleaving of two connections, no scheduler needed).  A holds; B is queued
// (symbolic priority flag / priority); A unlocks; C (symbolic priority flag / priority) asks in the window.
// A newcomer may pass a queued request only with strictly higher priority: C must not be granted ahead of B.

func init() { vfHarnesses["C04_window"] = vfH_C04_window }

func vfH_C04_window() {
	env := vfNewEnv(3)
	key := vfKey(1)
	a := env.newCmd(protocol.COMMAND_LOCK, key, vfLockId(1))
	a.Expried, a.ExpriedFlag = 1000, 0x0200
	env.lock(0, a)
	b := env.newCmd(protocol.COMMAND_LOCK, key, vfLockId(2))
	b.Timeout, b.Expried, b.ExpriedFlag = 60, 1000, 0x0200
	b.TimeoutFlag, b.Rcount = vfU16("btflag")&0x0010, vfU8("bprio")
	env.lock(1, b)
	vfAssert(len(env.repliesFor(b.RequestId)) == 0, "C04: harness: B is not queued")
	c := env.newCmd(protocol.COMMAND_LOCK, key, vfLockId(3))
	c.Timeout, c.Expried, c.ExpriedFlag = 60, 1000, 0x0200
	c.TimeoutFlag, c.Rcount = vfU16("ctflag")&0x0010, vfU8("cprio")
	u := env.newCmd(protocol.COMMAND_UNLOCK, key, vfLockId(1))
	ureq := u.RequestId
	fired := false
	p0 := env.protos[0]
	_ = p0.SetResultCallback(func(sp *MemWaiterServerProtocol, command *protocol.LockCommand, result uint8, lcount uint16, lrcount uint8, data []byte) error {
		env.replies = append(env.replies, vfReply{proto: 0, reqId: command.RequestId, lockId: command.LockId, lockKey: command.LockKey, ctype: command.CommandType, result: result, lcount: lcount, lrcount: lrcount, cmd: command})
		if command.RequestId == ureq && !fired {
			fired = true
			env.lock(2, c) // the third client's request, between A's release and the wake-up pass
		}
		return nil
	})
	env.unlock(0, u)
	vfAssert(fired, "C04: harness: the unlock was not answered")
	bp, cp := uint8(0), uint8(0)
	if b.TimeoutFlag&0x0010 != 0 {
		bp = b.Rcount
	}
	if c.TimeoutFlag&0x0010 != 0 {
		cp = c.Rcount
	}
	cGranted := vfCountResult(env.replies, c.RequestId, protocol.RESULT_SUCCED) == 1
	bGranted := vfCountResult(env.replies, b.RequestId, protocol.RESULT_SUCCED) == 1
	vfAssert(cGranted != bGranted, "C04: after the hold ended exactly one of the two requests holds the exclusive key")
	if cp <= bp {
		vfReach("no-bypass")
		vfAssert(bGranted && !cGranted, "C04: a request that arrived while a hand-over was under way was granted ahead of a queued request of equal or higher priority")
	}
	vfReach("end")
}
