package server

// C07_program: every program of 5 operations, persisted at once, then a restart.  The alphabet mixes
// holds on two keys with requests that come and go at once, so that Lock objects are returned to the
// shard's pool and taken again in every order: LOCK key1 by L1 (re-entrant, E = 1000 s), LOCK key2 by L2,
// a value-only LOCK on key1 by L3 (Expried 0 with a SET: it takes nothing and is gone at once),
// a LOCK on key1 by L3 that holds (Count 1), UNLOCK of L1 (all levels), UNLOCK of L2, UNLOCK of L3, UNLOCK of
// one level of L1 (Rcount 1), the same with the priority bit in the timeout flags.
// A fresh instance on the same directory must hold exactly what the first one held: per key the
// same LockIds and depths, and the same value.

import (
	"bytes"

	"github.com/snower/slock/protocol"
)

func init() { vfHarnesses["C07_program"] = vfH_C07_program }

func vfH_C07_program() {
	dir := vfFSDir()
	env := vfNewEnv(1)
	vfSetDBTime(env.db, vfBaseTime)
	vfOpenAof(env, dir)
	k1, k2 := vfKey(1), vfKey(2)
	lockCmd := func(key [16]byte, id uint8, e uint16) *protocol.LockCommand {
		c := env.newCmd(protocol.COMMAND_LOCK, key, vfLockId(id))
		c.Expried, c.ExpriedFlag, c.Count, c.Rcount = e, 0x0100, 1, 3
		return c
	}
	for s := 0; s < 5; s++ {
		switch vfChoice(vfName("op", s), 9) {
		case 0:
			env.lock(0, lockCmd(k1, 1, 1000))
		case 1:
			env.lock(0, lockCmd(k2, 2, 1000))
		case 2:
			c := lockCmd(k1, 3, 0)
			c.Flag |= protocol.LOCK_FLAG_CONTAINS_DATA
			c.Data = protocol.NewLockCommandDataSetString("v" + string(rune('0'+s)))
			env.lock(0, c)
		case 3:
			env.lock(0, lockCmd(k1, 3, 1000))
		case 4:
			u := env.newCmd(protocol.COMMAND_UNLOCK, k1, vfLockId(1))
			env.unlock(0, u)
		case 5:
			u := env.newCmd(protocol.COMMAND_UNLOCK, k2, vfLockId(2))
			env.unlock(0, u)
		case 6:
			u := env.newCmd(protocol.COMMAND_UNLOCK, k1, vfLockId(3))
			env.unlock(0, u)
		case 7:
			// one level of L1's re-entrant hold
			u := env.newCmd(protocol.COMMAND_UNLOCK, k1, vfLockId(1))
			u.Rcount = 1
			env.unlock(0, u)
		case 8:
			// the same request with the priority bit set in its timeout flags (Rcount then is a priority, not a level count)
			u := env.newCmd(protocol.COMMAND_UNLOCK, k1, vfLockId(1))
			u.Rcount, u.TimeoutFlag = 1, protocol.TIMEOUT_FLAG_RCOUNT_IS_PRIORITY
			env.unlock(0, u)
		}
		vfDrainAof(env.db)
	}
	env.slock.aof.aofFile.Flush()

	env2 := vfNewEnv(1)
	vfSetDBTime(env2.db, vfBaseTime+2)
	aof2 := env2.slock.aof
	aof2.dataDir = dir
	err, _ := aof2.LoadAofFiles([]string{"append.aof.1"}, vfBaseTime+2, func(filename string, aofFile *AofFile, lock *AofLock, firstLock bool) (bool, error) {
		return true, aof2.LoadLock(lock)
	})
	vfAssert(err == nil, "C07: loading the log fails")
	vfDrainAof(env2.db)
	for _, key := range [2][16]byte{k1, k2} {
		a, b := vfHolders(env.manager(key)), vfHolders(env2.manager(key))
		vfAssert(len(a) == len(b), "C07: a restart restored a hold that had been released, or lost one that was live and persisted")
		if len(a) != len(b) {
			return
		}
		for i := range a {
			vfAssert(a[i].command.LockId == b[i].command.LockId && a[i].locked == b[i].locked, "C07: a restored hold differs in LockId or re-entrant depth")
		}
		if len(a) > 0 {
			vfReach("held")
			va, vb := env.manager(key).GetLockData(), env2.manager(key).GetLockData()
			vfAssert(bytes.Equal(va, vb), "C07: the value recovered by a restart is not the value the key had")
		}
	}
	vfReach("end")
}
