package server

import "github.com/snower/slock/protocol"

// C06_race: "never ended before E has passed since its last successful re-lock or update" when the renewal
// and the deadline meet.  The sweep collects the holds that are due under the key's mutex, releases it, and
// ends each of them (doExpried) after taking the mutex again.  The harness is the scheduler: in the deadline
// tick, right before the k-th acquisition of the key's mutex (k = 1..4, vfLockHook), the holder's re-entrant
// re-lock (or an update with a changed Count) comes in and is answered as a success.  From that answer on the
// period has restarted: the hold must still be there after the tick and must not draw EXPRIED before E has
// passed again.  Executor only.

func init() { vfHarnesses["C06_race"] = vfH_C06_race }

func vfH_C06_race() {
	env := vfNewEnv(1)
	vfSetDBTime(env.db, vfBaseTime)
	key := vfKey(1)
	a := env.newCmd(protocol.COMMAND_LOCK, key, vfLockId(1))
	a.Expried, a.ExpriedFlag, a.Rcount, a.Count = 3, 0x0200, 2, 0
	env.lock(0, a)
	vfTick(env, 3) // the deadline tick is the next one
	m := env.manager(key)
	k := 1 + vfChoice("k", 4)
	update := vfChoice("update", 2) == 1
	seen := 0
	fired, renewed := false, false
	var rreq [16]byte
	var hook func()
	hook = func() {
		seen++
		if seen < k {
			vfLockHook(&m.glock.mutex, hook)
			return
		}
		fired = true
		r := env.newCmd(protocol.COMMAND_LOCK, key, vfLockId(1))
		r.Expried, r.ExpriedFlag, r.Rcount, r.Count = 3, 0x0200, 2, 0
		if update {
			r.Flag, r.Count = protocol.LOCK_FLAG_UPDATE_WHEN_LOCKED, 1
		}
		rreq = r.RequestId
		n := len(env.replies)
		env.lock(0, r)
		if len(env.replies) > n {
			res := env.replies[n].result
			renewed = (!update && res == protocol.RESULT_SUCCED) || (update && res == protocol.RESULT_LOCKED_ERROR)
		}
	}
	vfLockHook(&m.glock.mutex, hook)
	vfTick(env, 1)
	if !fired || !renewed {
		return // the renewal came too late (the hold had already ended and the request was treated as a new one) or not at all
	}
	vfReach("renewed-in-the-deadline-tick")
	vfAssert(vfHeldBy(env, key, vfLockId(1)) > 0, "C06: a hold whose re-lock / update was answered as a success in the very tick of its old deadline was ended at that old deadline")
	vfTick(env, 2)
	vfAssert(vfHeldBy(env, key, vfLockId(1)) > 0 && vfCountResult(env.replies, rreq, protocol.RESULT_EXPRIED) == 0, "C06: a renewed hold was ended before E had passed since the renewal")
	vfTick(env, 3)
	vfAssert(vfHeldBy(env, key, vfLockId(1)) == 0, "C06: a renewed hold did not end by E + 2 s after the renewal")
	vfReach("end")
}
