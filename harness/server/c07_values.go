package server

// C07_values: a restart recovers the VALUE of a persisted hold.  One holder applies two
// value operations (the second with the update flag on its own hold), or a second holder
// (Count 1) applies the second one; everything is persisted at once; a fresh instance on
// the same directory must hold the key with the value a sequential interpreter computes.

import (
	"github.com/snower/slock/protocol"
)

func init() { vfHarnesses["C07_values"] = vfH_C07_values }

func vfH_C07_values() {
	vfWithProps = false
	dir := vfFSDir()
	env := vfNewEnv(1)
	vfSetDBTime(env.db, vfBaseTime)
	vfOpenAof(env, dir)
	key := vfKey(1)
	cur := vfValue{kind: vfVNone}
	d0, v0 := vfNextOp(0, cur)
	a := env.newCmd(protocol.COMMAND_LOCK, key, vfLockId(1))
	a.Flag, a.Expried, a.ExpriedFlag, a.Count = protocol.LOCK_FLAG_CONTAINS_DATA, 100, 0x0100, 1
	a.Data = d0
	n := len(env.replies)
	env.lock(0, a)
	vfAssume(len(env.replies) == n+1 && env.replies[n].result == protocol.RESULT_SUCCED)
	cur = v0
	second := vfChoice("second", 3)
	if second > 0 {
		d1, v1 := vfNextOp(1, cur)
		b := env.newCmd(protocol.COMMAND_LOCK, key, vfLockId(1))
		b.Flag, b.Expried, b.ExpriedFlag, b.Count = protocol.LOCK_FLAG_CONTAINS_DATA|protocol.LOCK_FLAG_UPDATE_WHEN_LOCKED, 100, 0x0100, 1
		if second == 2 {
			// another holder shares the key (Count 1 admits two) and changes the value
			b.LockId = vfLockId(2)
			b.Flag = protocol.LOCK_FLAG_CONTAINS_DATA
		}
		b.Data = d1
		n = len(env.replies)
		env.lock(0, b)
		vfAssume(len(env.replies) == n+1)
		if env.replies[n].result == protocol.RESULT_SUCCED || env.replies[n].result == protocol.RESULT_LOCKED_ERROR {
			cur = v1
			vfReach("second-op")
		}
	}
	m := env.manager(key)
	vfAssert(m != nil && vfDecodeMatches(m.GetLockData(), cur), "C07: harness: the live value is not the interpreter's")
	vfDrainAof(env.db)
	env.slock.aof.Flush()
	holders := len(vfHolders(m))

	env2 := vfNewEnv(1)
	vfSetDBTime(env2.db, vfBaseTime+1)
	aof2 := env2.slock.aof
	aof2.dataDir = dir
	err, _ := aof2.LoadAofFiles([]string{"append.aof.1"}, vfBaseTime+1, func(filename string, aofFile *AofFile, lock *AofLock, firstLock bool) (bool, error) {
		return true, aof2.LoadLock(lock)
	})
	vfAssert(err == nil, "C07: loading the log fails")
	vfDrainAof(env2.db)
	m2 := env2.manager(key)
	vfAssert(m2 != nil && len(vfHolders(m2)) == holders, "C07: the persisted holds of a key with a value were not all recovered")
	vfAssert(vfDecodeMatches(m2.GetLockData(), cur), "C07: the value recovered by a restart is not the value the key had")
	vfReach("end")
}
