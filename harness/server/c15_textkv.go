package server

// C15_textkv: the Redis-style text commands answer like a plain key-value store.  A real
// TextServerProtocol (waiting disabled with TIMEOUT SET 0, as a non-blocking client would) gets
// every program of 3 commands over a string key and a counter key; each reply is compared with
// what a map-based store answers.  C15_textkv4: 4 commands.

import (
	"fmt"
)

func init() {
	vfHarnesses["C15_textkv"] = vfH_C15_textkv
	vfHarnesses["C15_textkv4"] = vfH_C15_textkv4
}

type vfKV struct {
	has map[string]bool
	val map[string]string
	num map[string]int64 // counter keys hold numbers
	nx  bool             // key s was created by SETNX and not deleted since
}

func vfBulk(s string) string { return fmt.Sprintf("$%d\r\n%s\r\n", len(s), s) }

func vfH_C15_textkv()  { vfTextKV(3) }
func vfH_C15_textkv4() { vfTextKV(4) }

func vfTextKV(n int) {
	env := vfNewEnv(0)
	tp, conn := vfNewText(env)
	_ = vfTextRun(tp, []string{"TIMEOUT", "SET", "0"})
	kv := &vfKV{map[string]bool{}, map[string]string{}, map[string]int64{}, false}
	for i := 0; i < n; i++ {
		form := vfChoice("c"+string(rune('0'+i)), 16)
		var args []string
		want, alt := "", ""
		switch form {
		case 0:
			// two arbitrary bytes (binary-safe values): the replies that echo them are compared symbolically
			v := vfString("v"+string(rune('0'+i)), 2)
			args, want = []string{"SET", "s", v}, "+OK\r\n"
			kv.has["s"], kv.val["s"] = true, v
		case 1:
			args, want = []string{"SET", "s", ""}, "+OK\r\n"
			kv.has["s"], kv.val["s"] = true, ""
		case 2:
			args = []string{"GET", "s"}
			if kv.has["s"] {
				want = vfBulk(kv.val["s"])
			} else {
				want = "$-1\r\n"
			}
		case 3:
			args = []string{"DEL", "s"}
			if kv.has["s"] {
				want = ":1\r\n"
			} else {
				want = ":0\r\n"
			}
			kv.has["s"], kv.nx = false, false
		case 4:
			args = []string{"SETNX", "s", "nx"}
			if kv.has["s"] {
				want = ":0\r\n"
			} else {
				want = ":1\r\n"
				kv.has["s"], kv.val["s"], kv.nx = true, "nx", true
			}
		case 5:
			args = []string{"GETSET", "s", "gs"}
			if kv.has["s"] {
				want = vfBulk(kv.val["s"])
			} else {
				want = "$-1\r\n"
			}
			kv.has["s"], kv.val["s"] = true, "gs"
		case 6:
			args = []string{"APPEND", "s", "xy"}
			if !kv.has["s"] {
				kv.has["s"], kv.val["s"] = true, ""
			}
			kv.val["s"] += "xy"
			want = fmt.Sprintf(":%d\r\n", len(kv.val["s"]))
		case 7:
			args = []string{"EXISTS", "s"}
			if kv.has["s"] {
				want = ":1\r\n"
			} else {
				want = ":0\r\n"
			}
		case 8:
			args = []string{"STRLEN", "s"}
			if kv.has["s"] {
				want = fmt.Sprintf(":%d\r\n", len(kv.val["s"]))
			} else {
				want = ":0\r\n"
			}
		case 9:
			args = []string{"INCR", "n"}
			kv.has["n"] = true
			kv.num["n"]++
			want = fmt.Sprintf(":%d\r\n", kv.num["n"])
		case 10:
			args = []string{"DECRBY", "n", "3"}
			kv.has["n"] = true
			kv.num["n"] -= 3
			want = fmt.Sprintf(":%d\r\n", kv.num["n"])
		case 11:
			args = []string{"GET", "n"}
			if kv.has["n"] {
				// a store of strings answers the decimal string; an integer reply with the same number is accepted too
				want, alt = vfBulk(fmt.Sprintf("%d", kv.num["n"])), fmt.Sprintf(":%d\r\n", kv.num["n"])
			} else {
				want = "$-1\r\n"
			}
		case 12:
			args = []string{"DEL", "n"}
			if kv.has["n"] {
				want = ":1\r\n"
			} else {
				want = ":0\r\n"
			}
			kv.has["n"], kv.num["n"] = false, 0
		case 13:
			args = []string{"EXPIRE", "s", "100"}
			if kv.has["s"] {
				want = ":1\r\n"
			} else {
				want = ":0\r\n"
			}
		case 14:
			args = []string{"PERSIST", "s"}
			if kv.has["s"] {
				want, alt = ":1\r\n", ":0\r\n"
			} else {
				want = ":0\r\n"
			}
		default:
			args = []string{"EXISTS", "n"}
			if kv.has["n"] {
				want = ":1\r\n"
			} else {
				want = ":0\r\n"
			}
		}
		o0 := len(conn.out)
		_ = vfTextRun(tp, args)
		got := string(conn.out[o0:])
		vfObserve("form", uint64(form))
		ok := got == want || (alt != "" && got == alt)
		switch {
		case (form == 13 || form == 14) && !kv.has["s"]:
			vfAssert(ok, "C15: "+args[0]+" on an absent key answered as if the key existed")
		case kv.nx && (form == 0 || form == 1 || form == 5 || form == 6 || form == 13 || form == 14):
			vfAssert(ok, "C15: "+args[0]+" on a key created by SETNX did not take effect")
		default:
			vfAssert(ok, "C15: "+args[0]+" did not answer like a plain key-value store")
		}
	}
	vfReach("end")
}
