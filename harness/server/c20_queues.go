package server

// C20: the segmented deques refine a plain deque.  A program of N operations
// is chosen by the solver-visible vfChoice (the executor forks over every
// opcode at every step, so all programs of that length are covered); elements
// are distinct tokens; the model is a Go slice.

func init() {
	vfHarnesses["C20_lockqueue"] = vfH_C20_lockqueue
	vfHarnesses["C20_lockqueue7"] = vfH_C20_lockqueue7
}

func vfH_C20_lockqueue()  { vfC20LockQueue(6) }
func vfH_C20_lockqueue7() { vfC20LockQueue(7) }

func vfC20LockQueue(nops int) {
	base := int32(vfRange("base", 1, 2))
	nodes := int32(vfRange("nodes", 1, 3))
	size := int32(vfRange("size", 1, 2))
	vfAssume(base <= nodes)
	q := NewLockQueue(base, nodes, size)
	toks := make([]*Lock, 16)
	for i := range toks {
		toks[i] = &Lock{}
	}
	var model []*Lock
	next := 0
	for step := 0; step < nops; step++ {
		op := vfChoice(vfName("op", step), 8)
		switch op {
		case 0: // Push
			err := q.Push(toks[next])
			vfAssert(err == nil, "Push failed")
			model = append(model, toks[next])
			next++
		case 1: // Pop
			r := q.Pop()
			if len(model) == 0 {
				vfAssert(r == nil, "Pop on empty returned an element")
			} else {
				vfAssert(r == model[0], "Pop returned the wrong element")
				model = model[1:]
			}
		case 2: // PopRight
			r := q.PopRight()
			if len(model) == 0 {
				vfAssert(r == nil, "PopRight on empty returned an element")
			} else {
				vfAssert(r == model[len(model)-1], "PopRight returned the wrong element")
				model = model[:len(model)-1]
			}
		case 3: // PushLeft (may refuse with "full": then nothing changes)
			err := q.PushLeft(toks[next])
			if err == nil {
				model = append([]*Lock{toks[next]}, model...)
			}
			next++
		case 4: // Head
			r := q.Head()
			if len(model) == 0 {
				vfAssert(r == nil, "Head on empty returned an element")
			} else {
				vfAssert(r == model[0], "Head returned the wrong element")
			}
		case 5: // Tail
			r := q.Tail()
			if len(model) == 0 {
				vfAssert(r == nil, "Tail on empty returned an element")
			} else {
				vfAssert(r == model[len(model)-1], "Tail returned the wrong element")
			}
		case 6: // Resize
			_ = q.Resize()
		case 7: // Restructuring
			_ = q.Restructuring()
		}
		vfAssert(q.Len() == int32(len(model)), "Len disagrees with the model")
	}
	// drain and compare
	for len(model) > 0 {
		r := q.Pop()
		vfAssert(r == model[0], "drain: Pop returned the wrong element")
		model = model[1:]
	}
	vfAssert(q.Pop() == nil, "drain: queue not empty at the end")
	vfReach("end")
}

func vfName(s string, i int) string {
	return s + string(rune('0'+i/10)) + string(rune('0'+i%10))
}
