package server

// C05_mslate: the millisecond wheel when a slot's sweeper is late.  Each slot of the wheel (deadline mod
// 3000 ms) has one sleeping goroutine per armed deadline; a sweeper that wakes a few milliseconds late (it
// waits for the shard's mutex, or is simply scheduled late) still finds its queue in the slot.  Request W1
// waits T1 = 300 ms; its sweeper is d ms late (d = 0 / 1 / 5); in that window request W2 arrives with a
// wait of T2 = 3000 - d ms (or 2500, or 2995 whatever d), so that for the matching d its deadline falls
// into W1's slot.  W2 must not be answered TIMEOUT before T2 has passed (and W1 not before T1).
// Executor only.

import (
	"github.com/snower/slock/protocol"
)

func init() { vfHarnesses["C05_mslate"] = vfH_C05_mslate }

func vfH_C05_mslate() {
	env := vfNewEnv(3)
	t0 := vfBaseTime
	vfSetDBTime(env.db, t0)
	vfSetClock(t0, 0)
	vfDropSpawned()
	key := vfKey(1)
	h := env.newCmd(protocol.COMMAND_LOCK, key, vfLockId(1))
	h.Expried, h.ExpriedFlag = 1000, 0x0200
	env.lock(0, h)
	w1 := env.newCmd(protocol.COMMAND_LOCK, key, vfLockId(2))
	w1.Timeout, w1.TimeoutFlag, w1.Expried, w1.ExpriedFlag = 300, protocol.TIMEOUT_FLAG_MILLISECOND_TIME, 1000, 0x0200
	env.lock(1, w1)
	vfAssert(vfSpawnCount() == 1, "C05: harness: no millisecond sweeper was started")
	d := [3]int64{0, 1, 5}[vfChoice("late", 3)]
	// the clock reaches W1's deadline + d; W1's sweeper has not run yet
	now := int64(300) + d
	vfSetClock(t0+now/1000, (now%1000)*1000000)
	t2c := vfChoice("t2", 3)
	if t2c == 2 && d == 0 {
		return // 3000 ms is the seconds wheel's business (C05_ms)
	}
	T2 := [3]uint16{2500, 2995, uint16(3000 - d)}[t2c]
	w2 := env.newCmd(protocol.COMMAND_LOCK, key, vfLockId(3))
	w2.Timeout, w2.TimeoutFlag, w2.Expried, w2.ExpriedFlag = T2, protocol.TIMEOUT_FLAG_MILLISECOND_TIME, 1000, 0x0200
	env.lock(2, w2)
	vfAssert(len(env.repliesFor(w2.RequestId)) == 0, "C05: a request that has to wait was answered at once")
	// now the late sweeper of W1's deadline runs
	vfRunSpawned(0)
	r1 := env.repliesFor(w1.RequestId)
	vfAssert(len(r1) == 1 && r1[0].result == protocol.RESULT_TIMEOUT, "C05: the first request was not answered TIMEOUT when its (late) sweeper ran")
	vfAssert(len(env.repliesFor(w2.RequestId)) == 0, "C05: a request was answered TIMEOUT right after it was queued, long before its wait had passed (it shared the wheel slot of a late sweeper)")
	vfReach("late-sweep")
	// W2's own deadline
	now += int64(T2)
	vfSetClock(t0+now/1000, (now%1000)*1000000)
	n := vfSpawnCount()
	for i := 1; i < n; i++ {
		vfRunSpawned(i)
	}
	for s := int64(1); s <= 3; s++ {
		vfTick(env, 1)
	}
	r2 := env.repliesFor(w2.RequestId)
	vfAssert(len(r2) == 1 && r2[0].result == protocol.RESULT_TIMEOUT, "C05: the second request was not answered TIMEOUT exactly once by T + 2 s")
	vfReach("end")
}
