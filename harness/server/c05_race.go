package server

import "github.com/snower/slock/protocol"

// C05_race: "... unless it is granted or cancelled first, and from then on can no longer be granted" —
// and, the other way round, a request that WAS granted can no longer time out.  The sweep collects the
// requests that are due under the key's mutex, releases it, and answers each of them (doTimeOut) after
// taking the mutex again.  The harness is the scheduler: right before the k-th acquisition of the key's
// mutex during the deadline tick (k = 1..4, vfLockHook) the holder's UNLOCK comes in and hands the key to
// the queued request.  Whatever k: the request draws exactly one terminal reply; if it was granted it
// holds the key afterwards (no TIMEOUT after SUCCED, no silent release), if it timed out it holds nothing.
// Executor only.

func init() { vfHarnesses["C05_race"] = vfH_C05_race }

func vfH_C05_race() {
	env := vfNewEnv(2)
	vfSetDBTime(env.db, vfBaseTime)
	key := vfKey(1)
	h := env.newCmd(protocol.COMMAND_LOCK, key, vfLockId(1))
	h.Expried, h.ExpriedFlag = 1000, 0x0200
	env.lock(0, h)
	w := env.newCmd(protocol.COMMAND_LOCK, key, vfLockId(2))
	w.Timeout, w.Expried, w.ExpriedFlag = 3, 1000, 0x0200
	env.lock(1, w)
	vfAssert(len(env.repliesFor(w.RequestId)) == 0, "C05: harness: the request is not queued")
	vfTick(env, 3) // the deadline tick is the next one
	m := env.manager(key)
	k := 1 + vfChoice("k", 4)
	seen := 0
	fired := false
	var hook func()
	hook = func() {
		seen++
		if seen < k {
			vfLockHook(&m.glock.mutex, hook)
			return
		}
		fired = true
		env.unlock(0, env.newCmd(protocol.COMMAND_UNLOCK, key, vfLockId(1)))
	}
	vfLockHook(&m.glock.mutex, hook)
	vfTick(env, 1)
	if !fired {
		// fewer than k acquisitions in the deadline tick: the UNLOCK comes afterwards
		hook = nil
		vfReach("after-sweep")
		return
	}
	vfReach("raced")
	rs := env.repliesFor(w.RequestId)
	vfAssert(len(rs) == 1, "C05: a queued request whose deadline and grant raced did not draw exactly one terminal reply (TIMEOUT after SUCCED, or both lost)")
	held := vfHeldBy(env, key, vfLockId(2)) == 1
	if rs[0].result == protocol.RESULT_SUCCED {
		vfReach("granted")
		vfAssert(held, "C05: a request that was answered SUCCED does not hold the key (its hold was released by its own time-out)")
	} else {
		vfAssert(rs[0].result == protocol.RESULT_TIMEOUT && !held, "C05: a request that timed out holds the key")
	}
	vfTick(env, 3)
	vfAssert(len(env.repliesFor(w.RequestId)) == 1, "C05: a second terminal reply for one request")
	vfReach("end")
}
