package server

// C03_textexpire: replies on a text connection.  The connection's first lock-type command (or,
// by choice, one that follows a LOCK / UNLOCK pair) takes a hold with E = 3 s; the hold expires
// while the connection sends nothing; then the connection sends LOCK on another key and UNLOCK.
// The asynchronous EXPRIED notice has no request to answer on a text connection and must not be
// queued for it; each later command is answered with its own result and LockId.

func init() { vfHarnesses["C03_textexpire"] = vfH_C03_textexpire }

// vfTextLockReply: result digit and last LockId byte of the text reply that starts at out[from].
func vfTextLockReply(out []byte, from int) (byte, byte, bool) {
	// *12\r\n$1\r\nR\r\n$2\r\nOK\r\n$7\r\nLOCK_ID\r\n$32\r\n<32 hex>
	if len(out) < from+10 || out[from] != '*' {
		return 0, 0, false
	}
	r := out[from+9]
	// the message's length varies with the result: find "$32\r\n"
	for i := from + 10; i+5+32 <= len(out); i++ {
		if out[i] == '$' && out[i+1] == '3' && out[i+2] == '2' && out[i+3] == '\r' && out[i+4] == '\n' {
			h := func(c byte) byte {
				if c >= 'a' {
					return c - 'a' + 10
				}
				return c - '0'
			}
			return r, h(out[i+5+30])<<4 | h(out[i+5+31]), true
		}
	}
	return r, 0, false
}

func vfH_C03_textexpire() {
	env := vfNewEnv(1)
	vfSetDBTime(env.db, vfBaseTime)
	tp, conn := vfNewText(env)
	k1, k2, k3 := string(vfKeyBytes(1)), string(vfKeyBytes(2)), string(vfKeyBytes(3))
	if vfChoice("warm", 2) == 1 {
		_ = vfTextRun(tp, []string{"LOCK", k3, "LOCK_ID", string(vfIdBytes(23)), "EXPRIED", "100", "TIMEOUT", "0"})
		_ = vfTextRun(tp, []string{"UNLOCK", k3, "LOCK_ID", string(vfIdBytes(23))})
	}
	n0 := len(conn.out)
	_ = vfTextRun(tp, []string{"LOCK", k1, "LOCK_ID", string(vfIdBytes(21)), "EXPRIED", "3", "TIMEOUT", "0"})
	r, id, ok := vfTextLockReply(conn.out, n0)
	vfAssert(ok && r == '0' && id == 21, "C03: (text) the LOCK was not answered with its own SUCCED")
	vfAssert(vfHeldBy(env, vfKey(1), vfLockId(21)) == 1, "C03: harness: hold not taken")
	vfTick(env, 6)
	vfAssert(vfHeldBy(env, vfKey(1), vfLockId(21)) == 0, "C03: harness: the hold did not expire")
	vfAssert(len(tp.lockWaiter) == 0, "C03: (text) an asynchronous EXPRIED notice was queued as a reply on a connection with no request outstanding")
	n1 := len(conn.out)
	vfAssert(n1 == n0+len(conn.out[n0:n1]), "C03: harness")
	_ = vfTextRun(tp, []string{"LOCK", k2, "LOCK_ID", string(vfIdBytes(22)), "EXPRIED", "100", "TIMEOUT", "0"})
	r, id, ok = vfTextLockReply(conn.out, n1)
	vfAssert(ok && r == '0' && id == 22, "C03: (text) a later LOCK was answered with another request's reply")
	n2 := len(conn.out)
	_ = vfTextRun(tp, []string{"UNLOCK", k2, "LOCK_ID", string(vfIdBytes(22))})
	r, id, ok = vfTextLockReply(conn.out, n2)
	vfAssert(ok && r == '0' && id == 22, "C03: (text) a later UNLOCK was answered with another request's reply")
	vfAssert(len(tp.lockWaiter) == 0, "C03: (text) a reply was left over on the connection")
	vfReach("end")
}
