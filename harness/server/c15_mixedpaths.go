package server

// C15_mixedpaths (registered under C13): as C15_mixedkinds, the operations arriving on the OTHER paths a
// value operation can take: the first by a fresh LOCK, then each by an update of the held lock
// (update-when-locked flag), a re-entrant re-lock, a value-only request (Expried 0) of another LockId, or
// an UNLOCK of one re-entrant level carrying the operation.  No crash, each request answered exactly once.

import (
	"github.com/snower/slock/protocol"
)

func init() { vfHarnesses["C15_mixedpaths"] = vfH_C15_mixedpaths }

func vfMixedOp(p string) *protocol.LockCommandData {
	switch vfChoice(p+".k", 7) {
	case 0:
		return protocol.NewLockCommandDataSetData(vfBytes(p+".v", [3]int{1, 3, 8}[vfChoice(p+".n", 3)]))
	case 1:
		return protocol.NewLockCommandDataIncrData(vfI64(p + ".d"))
	case 2:
		return protocol.NewLockCommandDataAppendData(vfBytes(p+".v", vfRange(p+".n", 1, 2)))
	case 3:
		return protocol.NewLockCommandDataShiftData(vfU32(p + ".s"))
	case 4:
		return protocol.NewLockCommandDataPushData(vfBytes(p+".v", vfRange(p+".n", 1, 2)))
	case 5:
		return protocol.NewLockCommandDataPopData(uint32(vfRange(p+".c", 1, 3)))
	}
	return protocol.NewLockCommandDataUnsetData()
}

func vfH_C15_mixedpaths() {
	env := vfNewEnv(1)
	key := vfKey(1)
	c := env.newCmd(protocol.COMMAND_LOCK, key, vfLockId(1))
	c.Flag = protocol.LOCK_FLAG_CONTAINS_DATA
	c.Count, c.Rcount, c.Expried, c.ExpriedFlag = 5, 5, 100, 0x0200
	c.Data = vfMixedOp("op0")
	env.lock(0, c)
	for step := 1; step < 3; step++ {
		p := vfName("op", step)
		d := vfMixedOp(p)
		n := len(env.replies)
		switch vfChoice(p+".path", 4) {
		case 0:
			u := env.newCmd(protocol.COMMAND_LOCK, key, vfLockId(1))
			u.Flag = protocol.LOCK_FLAG_CONTAINS_DATA | protocol.LOCK_FLAG_UPDATE_WHEN_LOCKED
			u.Count, u.Rcount, u.Expried, u.ExpriedFlag = 5, 5, 100, 0x0200
			u.Data = d
			env.lock(0, u)
		case 1:
			u := env.newCmd(protocol.COMMAND_LOCK, key, vfLockId(1))
			u.Flag = protocol.LOCK_FLAG_CONTAINS_DATA
			u.Count, u.Rcount, u.Expried, u.ExpriedFlag = 5, 5, 100, 0x0200
			u.Data = d
			env.lock(0, u)
		case 2:
			u := env.newCmd(protocol.COMMAND_LOCK, key, vfLockId(uint8(10+step)))
			u.Flag = protocol.LOCK_FLAG_CONTAINS_DATA
			u.Count, u.Expried, u.ExpriedFlag = 5, 0, 0
			u.Data = d
			env.lock(0, u)
		default:
			u := env.newCmd(protocol.COMMAND_UNLOCK, key, vfLockId(1))
			u.Flag = protocol.UNLOCK_FLAG_CONTAINS_DATA
			u.Rcount = 1
			u.Data = d
			env.unlock(0, u)
		}
		vfAssert(len(env.replies) == n+1, "C03: a request carrying a value operation was not answered exactly once")
	}
	vfReach("end")
}
