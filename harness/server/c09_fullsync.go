package server

// C09_fullsync: the leader's side of a full transfer, from the handshake on: what the follower is sent
// from the FILES (everything before the position the leader announces) plus what it will be sent from
// the RING (everything from that position on) must be the whole persisted log, each record once.
// The leader has persisted n = 1..3 records (a rotation after the first or not) and was then either
// left running (the ring holds the records: the announced position is the ring's oldest) or restarted
// through the real Aof.LoadAndInit (the ring is EMPTY: the announced position is the one after the
// last record of the log, and the whole log has to come from the files).  The real
// ReplicationServer.handleInitSync answers an empty-position SYNC on a connection that delivers the
// follower's "started" marker; the real sendFiles then writes the file phase.

import (
	"github.com/snower/slock/protocol"
	"github.com/snower/slock/protocol/protobuf"
	"google.golang.org/protobuf/proto"
)

func init() { vfHarnesses["C09_fullsync"] = vfH_C09_fullsync }

func vfH_C09_fullsync() {
	dir := vfFSDir()
	env := vfNewEnv(1)
	vfSetDBTime(env.db, vfBaseTime)
	vfSetClock(vfBaseTime, 0)
	vfOpenAof(env, dir)
	n := 1 + vfChoice("records", 3)
	rotated := vfChoice("rotated", 2) == 1
	var all [][2]uint32
	for i := 0; i < n; i++ {
		if i == 1 && rotated {
			vfRotate(env)
		}
		c := env.newCmd(protocol.COMMAND_LOCK, vfKey(uint8(1+i)), vfLockId(uint8(1+i)))
		c.Expried, c.ExpriedFlag = 0xffff, 0x4100
		env.lock(0, c)
		vfDrainAof(env.db)
		all = append(all, [2]uint32{env.slock.aof.aofFileIndex, env.slock.aof.aofFileOffset})
	}
	env.slock.aof.Flush()
	vfDropSpawned()
	leader := env
	if vfChoice("restarted", 2) == 1 {
		env2 := vfNewEnv(0)
		vfSetClock(vfBaseTime+1, 0)
		vfDropSpawned()
		vfNoBackground = false
		Config.DataDir = dir
		ran := false
		vfBlockHook(func() bool {
			db := env2.slock.dbs[0]
			if db == nil || ran {
				return false
			}
			ran = true
			ch := db.aofChannels[0]
			vfRunToBlock(func() { ch.Run() })
			return true
		})
		err := env2.slock.aof.LoadAndInit()
		vfAssert(err == nil, "C09: harness: the restart fails")
		vfBlockHook(func() bool { return false })
		vfDropSpawned() // the start-up compaction of older files is not part of this history
		vfNoBackground = true
		env2.slock.state = STATE_LEADER
		vfAssert(env2.slock.replicationManager.bufferQueue.headItem == nil, "C09: harness: the ring of a restarted leader is not empty")
		leader = env2
		vfReach("restarted")
	}
	rm := leader.slock.replicationManager
	// the handshake
	started := NewAofLock()
	started.CommandType = protocol.COMMAND_INIT
	started.AofIndex, started.AofOffset, started.CommandTime = 0xffffffff, 0xffffffff, 0xffffffffffffffff
	_ = started.Encode()
	conn := &vfScriptConn{in: append([]byte(nil), started.buf...)}
	bp := NewBinaryServerProtocol(leader.slock, NewStream(conn))
	rs := NewReplicationServer(rm, bp)
	data, _ := proto.Marshal(&protobuf.SyncRequest{AofId: ""})
	res, err := rs.handleInitSync(protocol.NewCallCommand("SYNC", data))
	vfAssert(err == nil && res == nil, "C09: the leader refused a full transfer")
	b := [2]uint32{rs.waofLock.AofIndex, rs.waofLock.AofOffset}
	conn.out = nil
	if rs.sendFiles() != nil {
		vfFail("C09: sendFiles failed")
	}
	var sent [][2]uint32
	for off := 0; off+64 <= len(conn.out); off += 64 {
		rec := NewAofLock()
		copy(rec.buf, conn.out[off:off+64])
		vfAssert(rec.Decode() == nil, "C09: harness: a sent record does not decode")
		if rec.CommandType == protocol.COMMAND_INIT && rec.AofIndex == 0xffffffff {
			break
		}
		sent = append(sent, [2]uint32{rec.AofIndex, rec.AofOffset})
	}
	// what the ring will deliver: every record it holds from the announced position on
	var fromRing [][2]uint32
	cursor := NewReplicationBufferQueueCursor(make([]byte, 64))
	if rm.bufferQueue.Head(cursor) == nil {
		for {
			rec := NewAofLock()
			copy(rec.buf, cursor.buf)
			vfAssert(rec.Decode() == nil, "C09: harness: a ring record does not decode")
			p := [2]uint32{rec.AofIndex, rec.AofOffset}
			if p[0] > b[0] || (p[0] == b[0] && p[1] >= b[1]) {
				fromRing = append(fromRing, p)
			}
			if rm.bufferQueue.Pop(cursor) != nil {
				break
			}
		}
	}
	got := append(sent, fromRing...)
	vfAssert(len(got) == len(all), "C09: files up to the announced position plus the ring from it on are not the whole persisted log (a record is left out, or sent twice)")
	for i := range all {
		if i < len(got) {
			vfAssert(got[i] == all[i], "C09: the follower of a full transfer is not handed the leader's records in log order")
		}
	}
	vfReach("end")
}
