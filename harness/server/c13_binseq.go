package server

// C13_binseq: a program of 3 (C13_binseq4: 4) well-formed binary frames on ONE connection,
// each out of 12 forms (INIT, LOCK / UNLOCK of two keys, LOCK with a value, LOCK that has to
// wait, WILL_LOCK, WILL_UNLOCK, PING, STATE, CALL LIST_LOCK, re-INIT under another id), then
// the connection closes; nothing may crash and a second connection is still served.

import (
	"github.com/snower/slock/protocol"
)

func init() {
	vfHarnesses["C13_binseq"] = vfH_C13_binseq
	vfHarnesses["C13_binseq4"] = vfH_C13_binseq4
}

func vfBinLock(ctype uint8, req uint8, key uint8, id uint8, flag uint8, timeout uint16) []byte {
	c := &protocol.LockCommand{}
	c.Magic, c.Version, c.CommandType = protocol.MAGIC, protocol.VERSION, ctype
	c.RequestId[0], c.RequestId[15] = req, 0xb1
	c.LockKey, c.LockId = vfKey(key), vfLockId(id)
	c.Flag, c.Timeout, c.Expried, c.ExpriedFlag = flag, timeout, 100, 0x0200
	buf := make([]byte, 64)
	_ = c.Encode(buf)
	return buf
}

func vfBinOther(cmd protocol.CommandEncode) []byte {
	buf := make([]byte, 64)
	_ = cmd.Encode(buf)
	return buf
}

func vfH_C13_binseq()  { vfBinSeq(3) }
func vfH_C13_binseq4() { vfBinSeq(4) }

func vfBinSeq(n int) {
	env := vfNewEnv(0)
	conn := &vfConnIn{}
	bp := NewBinaryServerProtocol(env.slock, NewStream(conn))
	var idX, idY [16]byte
	idX[0], idY[0] = 'X', 'Y'
	for i := 0; i < n; i++ {
		req := uint8(1 + i)
		var frame []byte
		conn.in = nil
		switch vfChoice("f"+string(rune('0'+i)), 12) {
		case 0:
			frame = vfBinOther(protocol.NewInitCommand(idX))
		case 1:
			frame = vfBinLock(protocol.COMMAND_LOCK, req, 1, 1, 0, 0)
		case 2:
			frame = vfBinLock(protocol.COMMAND_UNLOCK, req, 1, 1, 0, 0)
		case 3:
			// LOCK carrying a value: the value frame follows on the wire
			frame = vfBinLock(protocol.COMMAND_LOCK, req, 2, 2, protocol.LOCK_FLAG_CONTAINS_DATA, 0)
			conn.in = append([]byte(nil), protocol.NewLockCommandDataSetString("val").Data...)
		case 4:
			frame = vfBinLock(protocol.COMMAND_UNLOCK, req, 2, 2, 0, 0)
		case 5:
			// a second id on key 1: waits if key 1 is held
			frame = vfBinLock(protocol.COMMAND_LOCK, req, 1, 3, 0, 30)
		case 6:
			frame = vfBinLock(protocol.COMMAND_WILL_LOCK, req, 3, 4, 0, 0)
		case 7:
			frame = vfBinLock(protocol.COMMAND_WILL_UNLOCK, req, 1, 1, 0, 0)
		case 8:
			pc := &protocol.PingCommand{}
			pc.Magic, pc.Version, pc.CommandType = protocol.MAGIC, protocol.VERSION, protocol.COMMAND_PING
			pc.RequestId[0] = req
			frame = vfBinOther(pc)
		case 9:
			sc := &protocol.StateCommand{}
			sc.Magic, sc.Version, sc.CommandType = protocol.MAGIC, protocol.VERSION, protocol.COMMAND_STATE
			sc.RequestId[0] = req
			frame = vfBinOther(sc)
		case 10:
			frame = vfBinOther(protocol.NewCallCommand("LIST_LOCK", nil))
		default:
			frame = vfBinOther(protocol.NewInitCommand(idY))
		}
		w0 := len(conn.written)
		_ = bp.ProcessParse(frame)
		_ = w0
	}
	_ = bp.Close()
	vfReach("closed")
	conn2 := &vfConnIn{}
	bp2 := NewBinaryServerProtocol(env.slock, NewStream(conn2))
	pc := &protocol.PingCommand{}
	pc.Magic, pc.Version, pc.CommandType = protocol.MAGIC, protocol.VERSION, protocol.COMMAND_PING
	_ = bp2.ProcessParse(vfBinOther(pc))
	vfAssert(len(conn2.written) == 64, "C13: a second connection is no longer served")
	vfAssert(len(env.slock.clients) == 0, "C13: the client table still holds the closed connection")
	vfReach("end")
}
