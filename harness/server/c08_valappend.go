package server

// C08_valappend: "whatever is persisted after that restart is recovered by the following
// restart" and "no record is ever reconstructed from partial bytes", for the value file.  A log
// of two valued records whose value file is cut inside the second value frame (or right before
// it: the crash between the record write and the value write); the first restart recovers the
// first record only.  The current append file is reopened for writing, one more valued record is
// persisted and flushed; the second restart must recover the first record and the new one, each
// with its own value, and must not bring the torn record back.

import (
	"os"
)

func init() { vfHarnesses["C08_valappend"] = vfH_C08_valappend }

func vfH_C08_valappend() {
	env := vfNewEnv(0)
	aof := env.slock.aof
	aof.dataDir = vfFSDir()
	full := vfAofHeader()
	r0, r1 := vfAofRecord("rec00"), vfAofRecord("rec01")
	r0[56] |= 0x20 // AOF_FLAG_CONTAINS_DATA
	r1[56] |= 0x20
	v0 := []byte{2, 0, 0, 0, 1, 2} // small bytes: whatever is misread as a frame length stays small
	v1 := []byte{5, 0, 0, 0, 3, 4, 5, 6, 7}
	full = append(append(full, r0...), r1...)
	keep := vfRange("keep", 0, len(v1)-1) // bytes of the second frame that reached the disk
	dat := append(append([]byte(nil), v0...), v1[:keep]...)
	name := aof.dataDir + "/append.aof.1"
	vfFSWrite(name, full)
	vfFSWrite(name+".dat", dat)
	type rec struct{ buf, val []byte }
	load := func() (error, []rec) {
		var got []rec
		err, _ := aof.LoadAofFiles([]string{"append.aof.1"}, 0, func(filename string, aofFile *AofFile, lock *AofLock, firstLock bool) (bool, error) {
			got = append(got, rec{append([]byte(nil), lock.buf...), append([]byte(nil), lock.data...)})
			return true, nil
		})
		return err, got
	}
	err, got := load()
	vfAssert(err == nil, "C08: loading a log whose value file is cut fails")
	vfAssert(len(got) == 1 && vfSameBytes(got[0].val, v0), "C08: harness: the first restart does not recover exactly the first record")
	// restart: the current append file is opened for writing
	w := NewAofFile(aof, name, os.O_WRONLY, 4096)
	vfAssert(w.Open() == nil, "C08: cannot reopen a log with a cut value file for appending")
	vfReach("reopened")
	nr := NewAofLock()
	rb := vfAofRecord("new")
	rb[56] |= 0x20
	vfAssume(r1[20] != r0[20] && r1[20] != rb[20]) // the torn record is recognisable
	copy(nr.buf, rb)
	nv := []byte{3, 0, 0, 0, 1, 0, 0}
	nr.data = nv
	vfAssert(w.WriteLock(nr) == nil, "C08: WriteLock failed")
	vfAssert(w.WriteLockData(nr) == nil, "C08: WriteLockData failed")
	vfAssert(w.Flush() == nil, "C08: Flush failed")
	_ = w.Close()
	err2, got2 := load()
	vfAssert(err2 == nil, "C08: the second restart fails")
	for i := range got2 {
		same := true
		for j := 2; j < 56; j++ {
			if got2[i].buf[j] != r1[j] {
				same = false
			}
		}
		vfAssert(!same || vfSameBytes(got2[i].val, v1), "C08: a record whose value frame was torn came back at the second restart with a value made of partial bytes")
	}
	vfAssert(len(got2) == 2, "C08: a valued record persisted after a restart on a cut value file is not recovered by the following restart")
	if len(got2) == 2 {
		vfAssert(vfSameBytes(got2[0].val, v0) && vfSameBytes(got2[1].val, nv), "C08: the records recovered by the second restart do not carry their own values")
	}
	vfReach("end")
}
