package server

// C13: every registered text command with arbitrary argument lists. The real
// TextServerProtocol (real NewStream over an in-memory net.Conn, real handlers, real
// converters, real LockDB behind them) is driven the way Process/ProcessParse drive it
// once TextParser has produced an argument list: FindHandler(upper(args[0])) and the
// handler call. The parser itself is covered by C13_textchunks/C13_textbytes. Any
// panic below the handler is a process crash (connection goroutines have no recover).

import (
	"io"
	"net"
	"strings"
	"time"
)

type vfTAddr struct{}

func (vfTAddr) Network() string { return "tcp" }
func (vfTAddr) String() string  { return "127.0.0.1:1" }

type vfTConn struct {
	out    []byte
	writes int
	closed bool
}

func (c *vfTConn) Read(b []byte) (int, error) { return 0, io.EOF }
func (c *vfTConn) Write(b []byte) (int, error) {
	c.out = append(c.out, b...)
	c.writes++
	return len(b), nil
}
func (c *vfTConn) Close() error                       { c.closed = true; return nil }
func (c *vfTConn) LocalAddr() net.Addr                { return vfTAddr{} }
func (c *vfTConn) RemoteAddr() net.Addr               { return vfTAddr{} }
func (c *vfTConn) SetDeadline(t time.Time) error      { return nil }
func (c *vfTConn) SetReadDeadline(t time.Time) error  { return nil }
func (c *vfTConn) SetWriteDeadline(t time.Time) error { return nil }

func vfNewText(env *vfEnv) (*TextServerProtocol, *vfTConn) {
	conn := &vfTConn{}
	stream := NewStream(conn)
	tp := NewTextServerProtocol(env.slock, stream)
	return tp, conn
}

// vfTextRun is the tail of TextServerProtocol.ProcessParse after a finished parse.
func vfTextRun(tp *TextServerProtocol, args []string) error {
	name := strings.ToUpper(args[0])
	if h, err := tp.FindHandler(name); err == nil {
		return h(tp, args)
	}
	return tp.commandHandlerUnknownCommand(tp, args)
}

// vfAscii: n symbolic bytes below 0x80 (the handlers upper-case option words with
// strings.ToUpper, whose non-ASCII folding is outside the engine's string model).
func vfAscii(tag string, n int) string {
	b := vfBytes(tag, n)
	for i := range b {
		vfAssume(b[i] < 0x80)
	}
	return string(b)
}

var vfTextKeyCmds = []string{
	"DEL", "SET", "APPEND", "GETSET", "SETEX", "PSETEX", "SETNX", "INCR", "INCRBY", "DECR", "DECRBY",
	"EXISTS", "EXPIRE", "PEXPIREAT", "PEXPIRE", "PERSIST", "GET", "STRLEN", "TYPE", "DUMP",
	"KEYS", "SCAN", "TTL", "PTTL", "SELECT", "TIMEOUT", "EXPIREAT", "NOSUCH",
}

// vfTextArg: one argument out of a small alphabet of roles: the key, a value, a
// string of 2 (full alphabet: also 1) symbolic ASCII bytes (so numbers, signs, option
// words and garbage alike), and the option words the converters and handlers look for.
func vfTextArg(tag string, full bool) string {
	if !full {
		switch vfChoice(tag, 6) {
		case 0:
			return "k"
		case 1:
			return "v"
		case 2:
			return vfAscii(tag+".s", 2)
		case 3:
			return "EX"
		case 4:
			return "NX"
		}
		return "MATCH"
	}
	switch vfChoice(tag, 9) {
	case 0:
		return "k"
	case 1:
		return "v"
	case 2:
		return vfAscii(tag+".s", 1)
	case 3:
		return vfAscii(tag+".s", 2)
	case 4:
		return "EX"
	case 5:
		return "PX"
	case 6:
		return "NX"
	case 7:
		return "MATCH"
	}
	return "COUNT"
}

func vfTextKeyCommand(tag string, maxArgs int, full bool) []string {
	args := []string{vfTextKeyCmds[vfChoice(tag+".cmd", len(vfTextKeyCmds))]}
	n := vfChoice(tag+".n", maxArgs+1)
	for i := 0; i < n; i++ {
		args = append(args, vfTextArg(tag+".a"+string(rune('0'+i)), full))
	}
	return args
}

// C13_textcmd: one key-value/keyspace/session command with 0..3 arguments on a fresh
// server (C13_textcmd4: 0..4 arguments).
func vfH_C13_textcmd()  { vfTextCmd(3, false) }
func vfH_C13_textcmd4() { vfTextCmd(4, true) }

func vfTextCmd(maxArgs int, full bool) {
	env := vfNewEnv(0)
	tp, conn := vfNewText(env)
	args := vfTextKeyCommand("c", maxArgs, full)
	_ = vfTextRun(tp, args)
	vfAssert(conn.writes >= 1, "a finished text command earned no reply")
	vfReach("end")
}

// C13_textcmd2: a first command that creates a value (string, number, or a plain
// hold), then any command with 0..2 arguments (C13_textcmd2x: 0..3) from the same
// or another connection.
func vfH_C13_textcmd2()  { vfTextCmd2(2, false) }
func vfH_C13_textcmd2x() { vfTextCmd2(3, true) }

func vfTextCmd2(maxArgs int, full bool) {
	env := vfNewEnv(0)
	tp, conn := vfNewText(env)
	var first []string
	switch vfChoice("first", 5) {
	case 0:
		first = []string{"SET", "k", "v"}
	case 1:
		first = []string{"INCR", "k"}
	case 2:
		first = []string{"LOCK", "k"}
	case 3:
		first = []string{"APPEND", "k", "v"}
	case 4:
		first = []string{"SETEX", "k", "9", "v"}
	}
	_ = vfTextRun(tp, first)
	vfReach("first-done")
	tp2, conn2 := tp, conn
	if vfChoice("same", 2) == 1 {
		tp2, conn2 = vfNewText(env)
	}
	w0 := conn2.writes
	args := vfTextKeyCommand("c", maxArgs, full)
	_ = vfTextRun(tp2, args)
	vfAssert(conn2.writes > w0, "a finished text command earned no reply")
	vfReach("end")
}

var vfLockOpts = []string{
	"LOCK_ID", "FLAG", "TIMEOUT", "EXPRIED", "COUNT", "RCOUNT", "WILL", "SET", "UNSET", "INCR",
	"APPEND", "SHIFT", "EXECUTE", "PUSH", "POP", "zz",
}

func vfLockVal(tag string) string {
	switch vfChoice(tag, 5) {
	case 0:
		return "0"
	case 1:
		return vfAscii(tag+".s", 1)
	case 2:
		return vfAscii(tag+".s", 2)
	case 3:
		return "UNLOCK"
	}
	return "v"
}

// C13_textlock: LOCK / UNLOCK / PUSH with 0..4 further arguments (so odd and even
// counts, every option word, numeric and non-numeric option values) on a fresh
// server, then optionally the same argument list again (now against the hold).
func vfH_C13_textlock() {
	env := vfNewEnv(0)
	tp, conn := vfNewText(env)
	args := []string{[]string{"LOCK", "UNLOCK", "PUSH"}[vfChoice("cmd", 3)]}
	n := vfChoice("n", 6)
	if n >= 1 {
		args = append(args, "k")
	}
	for i := 1; i < n; i++ {
		if i%2 == 1 {
			args = append(args, vfLockOpts[vfChoice("o"+string(rune('0'+i)), len(vfLockOpts))])
		} else {
			args = append(args, vfLockVal("v"+string(rune('0'+i))))
		}
	}
	_ = vfTextRun(tp, args)
	vfAssert(conn.writes >= 1, "a finished text command earned no reply")
	vfReach("end")
}

func init() {
	vfHarnesses["C13_textcmd"] = vfH_C13_textcmd
	vfHarnesses["C13_textcmd4"] = vfH_C13_textcmd4
	vfHarnesses["C13_textcmd2"] = vfH_C13_textcmd2
	vfHarnesses["C13_textcmd2x"] = vfH_C13_textcmd2x
	vfHarnesses["C13_textlock"] = vfH_C13_textlock
}

// C13_textseq: a program of 3 (C13_textseq4: 4) well-formed commands on ONE text
// connection, each out of 17 forms that between them produce replies with and without
// a value, hits and misses, through every reply path (result object recycling,
// lockWaiter, direct read path). A second connection must still be served afterwards.
var vfTextSeqForms = [][]string{
	{"SET", "k", "v"},
	{"GET", "k"},
	{"GET", "nokey"},
	{"LOCK", "a"},
	{"LOCK", "a", "SET", "x"},
	{"UNLOCK", "a"},
	{"LOCK", "b", "TIMEOUT", "0"},
	{"UNLOCK", "b"},
	{"DEL", "k"},
	{"INCR", "n"},
	{"APPEND", "k", "w"},
	{"EXISTS", "k"},
	{"PUSH", "q", "PUSH", "e"},
	{"TTL", "k"},
	{"SELECT", "1"},
	{"SELECT", "255"},
	{"KEYS", "*"},
}

func vfH_C13_textseq()  { vfTextSeq(3) }
func vfH_C13_textseq4() { vfTextSeq(4) }

func vfTextSeq(n int) {
	env := vfNewEnv(0)
	tp, conn := vfNewText(env)
	for i := 0; i < n; i++ {
		w0 := conn.writes
		form := vfTextSeqForms[vfChoice("c"+string(rune('0'+i)), len(vfTextSeqForms))]
		args := append([]string(nil), form...)
		_ = vfTextRun(tp, args)
		vfAssert(conn.writes > w0, "a finished text command earned no reply")
	}
	tp2, conn2 := vfNewText(env)
	_ = vfTextRun(tp2, []string{"GET", "k"})
	vfAssert(conn2.writes >= 1, "a second connection is no longer served")
	vfReach("end")
}

func init() {
	vfHarnesses["C13_textseq"] = vfH_C13_textseq
	vfHarnesses["C13_textseq4"] = vfH_C13_textseq4
}
