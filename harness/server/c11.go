package server

// C11: ack-required locks.  One LOCK with the require-ack flag on a leader with
// F simulated followers and ack mode all / majority; the record travels through
// the real AofChannel -> Aof.PushLock -> AofFile (file model) ->
// ReplicationManager.PushLock -> ReplicationAckDB.  Then a sequence of events,
// each chosen by a fork: the leader's own log flush (AofFile.Flush -> lockAcked
// -> ProcessLeaderAofed), a follower acknowledgement positive or negative
// (Aof.loadLockAck -> ProcessLeaderAcked), an UNLOCK or LOCK by the same LockId
// while pending, or the clock passing the ack wait.

import (
	"github.com/snower/slock/protocol"
)

func init() {
	vfHarnesses["C11_ack"] = vfH_C11_ack
	vfHarnesses["C11_ack5"] = vfH_C11_ack5
}

func vfAckFrame(cmd *protocol.LockCommand, aofId [16]byte, result uint8) *protocol.LockResultCommand {
	r := &protocol.LockResultCommand{}
	r.Magic, r.Version, r.CommandType = protocol.MAGIC, protocol.VERSION, protocol.COMMAND_LOCK
	r.RequestId = aofId
	r.Result = result
	r.DbId, r.LockId, r.LockKey = cmd.DbId, cmd.LockId, cmd.LockKey
	r.Count, r.Rcount = cmd.Count, cmd.Rcount
	return r
}

var vfC11Events = 4

func vfH_C11_ack()  { vfC11Events = 4; vfC11Ack() }
func vfH_C11_ack5() { vfC11Events = 5; vfC11Ack() }

func vfC11Ack() {
	dir := vfFSDir()
	env := vfNewEnv(2)
	vfSetDBTime(env.db, vfBaseTime)
	vfOpenAof(env, dir)
	F := vfChoice("followers", 3)
	mode := vfChoice("mode", 2) // 0: all, 1: majority
	Config.AofAckMode = uint(mode)
	rm := env.slock.replicationManager
	for i := 0; i < F; i++ {
		rm.serverChannels = append(rm.serverChannels, nil)
	}
	need := F + 1
	if mode == 1 {
		need = (F+1)/2 + 1
	}
	key := vfKey(1)
	c := env.newCmd(protocol.COMMAND_LOCK, key, vfLockId(1))
	c.TimeoutFlag = protocol.TIMEOUT_FLAG_REQUIRE_ACKED
	c.Timeout, c.Expried, c.Count = 5, 20, 0
	req := c.RequestId
	env.lock(0, c)
	vfAssert(len(env.repliesFor(req)) == 0, "C11: an ack-required lock was answered before anything was acknowledged")
	// a second client queues behind it
	w := env.newCmd(protocol.COMMAND_LOCK, key, vfLockId(2))
	w.Timeout, w.Expried, w.ExpriedFlag = 60, 20, 0x0200
	wreq := w.RequestId
	env.lock(1, w)
	vfDrainAof(env.db) // record written to the (unflushed) log buffer and registered with the ack DB
	ackdb := rm.GetAckDB(0)
	vfAssert(ackdb != nil, "C11: no ack DB after pushing an ack-required record")
	aofId, registered := ackdb.commandAofs[0][req]
	vfAssert(registered, "C11: the ack-required record was not registered for acknowledgement")
	vfAssert(int(ackdb.ackCount) == need, "C11: required acknowledgement count differs from followers+1 (all) / majority")

	flushed, okAcks, ended := false, 0, false
	for step := 0; step < vfC11Events && !ended; step++ {
		ev := vfChoice(vfName("ev", step), 7)
		n := len(env.replies)
		switch ev {
		case 0: // leader's own flush
			if flushed {
				continue
			}
			env.slock.aof.Flush()
			vfDrainAof(env.db)
			flushed = true
		case 1: // positive follower ack
			if okAcks >= F {
				continue
			}
			_ = env.slock.aof.loadLockAck(vfAckFrame(c, aofId, protocol.RESULT_SUCCED))
			vfDrainAof(env.db)
			okAcks++
		case 2: // negative follower ack
			if F == 0 {
				continue
			}
			_ = env.slock.aof.loadLockAck(vfAckFrame(c, aofId, protocol.RESULT_ERROR))
			vfDrainAof(env.db)
			rs := env.repliesFor(req)
			vfAssert(len(rs) == 1 && rs[0].result != protocol.RESULT_SUCCED, "C11: a negative acknowledgement did not produce exactly one error reply")
			ended = true
			vfReach("nack")
		case 3: // unlock by the same LockId while pending
			u := env.newCmd(protocol.COMMAND_UNLOCK, key, vfLockId(1))
			env.unlock(0, u)
			rs := env.repliesFor(u.RequestId)
			vfAssert(len(rs) == 1 && rs[0].result == protocol.RESULT_LOCK_ACK_WAITING, "C11: UNLOCK of a LockId whose lock awaits acknowledgement is not answered LOCK_ACK_WAITING")
			vfAssert(len(env.repliesFor(req)) == 0, "C11: an UNLOCK while pending produced a reply for the pending lock")
			vfReach("unlock-waiting")
		case 4: // lock by the same LockId while pending
			l := env.newCmd(protocol.COMMAND_LOCK, key, vfLockId(1))
			l.Expried, l.Rcount = 20, 5
			env.lock(0, l)
			rs := env.repliesFor(l.RequestId)
			vfAssert(len(rs) == 1 && rs[0].result == protocol.RESULT_LOCK_ACK_WAITING, "C11: LOCK by a LockId whose lock awaits acknowledgement is not answered LOCK_ACK_WAITING")
			vfReach("lock-waiting")
		case 6: // unlock-first by another LockId while pending: the oldest hold IS the pending one
			u := env.newCmd(protocol.COMMAND_UNLOCK, key, vfLockId(7))
			u.Flag = protocol.UNLOCK_FLAG_UNLOCK_FIRST_LOCK_WHEN_UNLOCKED
			ureq := u.RequestId
			env.unlock(0, u)
			rs := env.repliesFor(ureq)
			vfAssert(len(rs) == 1, "C11: an unlock-first while the oldest hold awaits acknowledgement was not answered exactly once")
			vfAssert(rs[0].result != protocol.RESULT_SUCCED, "C11: an unlock-first released a hold that still awaits acknowledgement (answered SUCCED, not LOCK_ACK_WAITING)")
			vfAssert(len(env.repliesFor(req)) == 0, "C11: an unlock-first while pending produced a reply for the pending lock")
			vfReach("unlock-first-waiting")
		case 5: // the ack wait times out
			vfTick(env, 7)
			rs := env.repliesFor(req)
			vfAssert(len(rs) == 1 && rs[0].result != protocol.RESULT_SUCCED, "C11: the ack wait timed out without exactly one error reply")
			ended = true
			vfReach("ack-timeout")
		}
		if ended {
			break
		}
		rs := env.repliesFor(req)
		if len(rs) > 0 {
			vfAssert(len(rs) == 1, "C11: more than one terminal reply for an ack-required lock")
			vfAssert(rs[0].result == protocol.RESULT_SUCCED, "C11: unexpected early error")
			vfReach("succed")
			// "written to the leader's own log": the record has been handed to the log (Aof.PushLock ->
			// AofFile.WriteLock) before any acknowledgement can arrive; the flush report and each follower's
			// acknowledgement count alike towards the configured number (all: followers+1, majority: (n/2)+1),
			// which is the reading the statement shares with the anchored mechanism (see DESIGN, C11)
			acks := okAcks
			if flushed {
				acks++
			} else {
				vfReach("succed-before-flush-report")
			}
			vfAssert(acks >= need, "C11: SUCCED before the configured number of acknowledgements (leader flush + followers) arrived")
			if mode == 0 {
				vfAssert(flushed && okAcks >= F, "C11: in ack mode all, SUCCED before the leader's flush and every follower acknowledged")
			}
			ended = true
			_ = n
			// the hold is now an ordinary hold
			m := env.manager(key)
			hs := vfHolders(m)
			vfAssert(len(hs) == 1 && hs[0].ackCount == 0xff && hs[0].command.LockId == vfLockId(1), "C11: after SUCCED the hold is not an ordinary hold of that LockId")
			return
		}
		// still pending: enough acknowledgements must not be outstanding
		pend := okAcks
		if flushed {
			pend++
		}
		vfAssert(pend < need, "C11: the configured number of acknowledgements arrived but no SUCCED was sent")
	}
	if ended {
		// rolled back: hold removed, capacity back, the queued request served
		m := env.manager(key)
		for _, h := range vfHolders(m) {
			vfAssert(h.command.LockId != vfLockId(1), "C11: the failed ack-required lock is still a holder")
		}
		vfAssert(vfCountResult(env.replies, wreq, protocol.RESULT_SUCCED) == 1, "C11: the queued request was not served after the ack-required lock was rolled back")
		// the request has had its terminal reply: when its own wait runs out nothing more is sent
		vfTick(env, 8)
		vfAssert(len(env.repliesFor(req)) == 1, "C03: a require-ack lock that was answered with an error drew a second reply when its wait ran out")
		vfReach("rolled-back")
	}
	vfReach("end")
}

// C11_value: an ack-required lock that carries a value operation, granted at once or
// from the wait queue (LockDB.Lock ack branch / wakeUpWaitLock ack branch).  If the
// acknowledgement fails (negative follower ack, ack wait timeout) the value change is
// undone: the key's value and what the next holder is shown are the value from before.
// If it succeeds the value is the operation's result and the SUCCED reply carries the
// value from before the operation.
func init() { vfHarnesses["C11_value"] = vfH_C11_value }

func vfH_C11_value() {
	vfWithProps = false
	dir := vfFSDir()
	env := vfNewEnv(3)
	vfSetDBTime(env.db, vfBaseTime)
	vfOpenAof(env, dir)
	Config.AofAckMode = 0
	rm := env.slock.replicationManager
	rm.serverChannels = append(rm.serverChannels, nil) // one follower: leader flush + one acknowledgement
	key := vfKey(1)
	cur := vfValue{kind: vfVNone}
	fromQueue := vfBool("fromQueue")
	if fromQueue {
		a := env.newCmd(protocol.COMMAND_LOCK, key, vfLockId(9))
		a.Flag, a.Expried, a.ExpriedFlag = protocol.LOCK_FLAG_CONTAINS_DATA, 50, 0x0200
		d0, v0 := vfNextOp(0, cur)
		a.Data = d0
		n := len(env.replies)
		env.lock(0, a)
		vfAssume(len(env.replies) == n+1 && env.replies[n].result == protocol.RESULT_SUCCED)
		cur = v0
	}
	b := env.newCmd(protocol.COMMAND_LOCK, key, vfLockId(1))
	b.Flag, b.TimeoutFlag = protocol.LOCK_FLAG_CONTAINS_DATA, protocol.TIMEOUT_FLAG_REQUIRE_ACKED
	b.Timeout, b.Expried = 5, 20
	d1, v1 := vfNextOp(1, cur)
	b.Data = d1
	breq := b.RequestId
	env.lock(1, b)
	c := env.newCmd(protocol.COMMAND_LOCK, key, vfLockId(2))
	c.Timeout, c.Expried, c.ExpriedFlag = 60, 20, 0x0200
	creq := c.RequestId
	env.lock(2, c)
	if fromQueue {
		u := env.newCmd(protocol.COMMAND_UNLOCK, key, vfLockId(9))
		env.unlock(0, u)
		vfReach("granted-from-queue")
	}
	vfDrainAof(env.db)
	vfAssert(len(env.repliesFor(breq)) == 0, "C11: an ack-required lock was answered before anything was acknowledged")
	ackdb := rm.GetAckDB(0)
	vfAssert(ackdb != nil, "C11: no ack DB after pushing an ack-required record")
	aofId, registered := ackdb.commandAofs[0][breq]
	vfAssert(registered, "C11: the ack-required record was not registered for acknowledgement")
	shown := func(r vfReply) []byte {
		if r.hasData {
			return r.data
		}
		return nil
	}
	switch vfChoice("outcome", 3) {
	case 0:
		env.slock.aof.Flush()
		vfDrainAof(env.db)
		_ = env.slock.aof.loadLockAck(vfAckFrame(b, aofId, protocol.RESULT_SUCCED))
		vfDrainAof(env.db)
		rs := env.repliesFor(breq)
		vfAssert(len(rs) == 1 && rs[0].result == protocol.RESULT_SUCCED, "C11: flush + acknowledgement did not produce exactly one SUCCED")
		vfAssert(vfDecodeMatches(shown(rs[0]), cur), "C11: the SUCCED reply of an ack-required lock does not carry the value from before its operation")
		vfAssert(vfDecodeMatches(env.manager(key).GetLockData(), v1), "C11: after a successful acknowledgement the stored value is not the operation's result")
		vfReach("succed")
	case 1:
		_ = env.slock.aof.loadLockAck(vfAckFrame(b, aofId, protocol.RESULT_ERROR))
		vfDrainAof(env.db)
		vfC11RolledBack(env, key, breq, creq, cur, shown)
		vfReach("nack")
	default:
		vfTick(env, 7)
		vfC11RolledBack(env, key, breq, creq, cur, shown)
		vfReach("ack-timeout")
	}
	vfReach("end")
}

func vfC11RolledBack(env *vfEnv, key [16]byte, breq, creq [16]byte, before vfValue, shown func(vfReply) []byte) {
	rs := env.repliesFor(breq)
	vfAssert(len(rs) == 1 && rs[0].result != protocol.RESULT_SUCCED, "C11: a failed acknowledgement did not produce exactly one error reply")
	cs := env.repliesFor(creq)
	vfAssert(len(cs) == 1 && cs[0].result == protocol.RESULT_SUCCED, "C11: the queued request was not served after the ack-required lock was rolled back")
	m := env.manager(key)
	vfAssert(m != nil, "C11: key vanished although the next request holds it")
	vfAssert(vfDecodeMatches(m.GetLockData(), before), "C11: the value change of a failed ack-required lock was not undone")
	vfAssert(vfDecodeMatches(shown(cs[0]), before), "C11: the next holder was shown a value that is not the one from before the failed lock")
}
