package server

// C19_flowobject: MaxConcurrentFlow(n) "admits at most n at a time" for ONE flow object shared by several
// callers (the object caches one Lock — one LockId — built by whichever of Acquire / Release is called
// first), with a priority set or not.  n = 1..2 (symbolic), priority 0..3 (symbolic); the object's first
// call is Acquire or a defensive Release; then every program of 4 calls from {Acquire on the shared
// object, Acquire on a fresh object, Release on the shared object}.  A successful Acquire is an admission
// (also a second one through the shared object: two callers are inside), a successful Release lets one
// out; never more than n are inside.

import (
	"github.com/snower/slock/client"
	"github.com/snower/slock/protocol"
)

func init() { vfHarnesses["C19_flowobject"] = vfH_C19_flowobject }

func vfH_C19_flowobject() {
	env := vfNewEnv(1)
	cl := &vfClient{client.NewClient("127.0.0.1", 1), env}
	db := client.NewDatabase(0, cl)
	key := vfKey(1)
	n := vfU16("n")
	vfAssume(n >= 1 && n <= 2)
	prio := vfU8("priority")
	vfAssume(prio <= 3)
	f := db.MaxConcurrentFlow(key, n, 0, 10)
	f.SetPriority(prio)
	inside := 0
	if vfChoice("releaseFirst", 2) == 1 {
		r, _ := f.Release()
		vfAssert(r == nil || r.Result != protocol.RESULT_SUCCED, "C19: a Release on a flow nobody has entered succeeded")
		vfReach("release-first")
	}
	for i := 0; i < 4; i++ {
		switch vfChoice(vfName("call", i), 3) {
		case 0:
			if vfOK(f.Acquire()) {
				inside++
			}
		case 1:
			g := db.MaxConcurrentFlow(key, n, 0, 10)
			g.SetPriority(prio)
			if vfOK(g.Acquire()) {
				inside++
			}
		case 2:
			if vfOK(f.Release()) {
				inside--
			}
		}
		vfAssert(inside >= 0, "C19: more Releases succeeded than Acquires")
		vfAssert(inside <= int(n), "C19: MaxConcurrentFlow(n) admitted more than n at a time")
	}
	vfReach("end")
}
