package server

// C13: the administrative text commands (the handlers Admin.GetHandlers registers and
// TextServerProtocol.FindHandler falls back to). Like C13_textcmd the harness starts from
// the finished argument list; any panic below the handler is a process crash.
//
// Pre-state: a leader with one database in which key "k" has a holder with a value and a
// queued request, a Server whose stream list holds one binary and one text connection, and
// (variant) a replica-set manager with three members.  INFO is left out (runtime/metrics
// and a 500-line formatter are outside the executor), as are the forms whose only effect is
// to stop the process or dial another node (SHUTDOWN, SLAVEOF host port, REPLSET
// CONFIG/ADD/REMOVE/SET with a well-formed host).

import (
	"github.com/snower/slock/protocol"
)

var vfAdminCmds = []string{"ECHO", "PING", "QUIT", "SHOW", "CONFIG", "CLIENT", "FLUSHDB", "FLUSHALL", "REPLSET", "SLAVEOF"}

var vfAdminWords = []string{"k", "*", "WAIT", "SET", "GET", "KILL", "LIST", "DB_LOCK_AOF_TIME", "AOF_FILE_REWRITE_SIZE",
	"LOG_LEVEL", "DEBUG", "MEMBERS", "QUIT-LEADER", "WEIGHT", "ARBITER", "127.0.0.1:1", "A", "0", "DATABASES"}

func vfAdminArg(tag string) string {
	n := len(vfAdminWords)
	c := vfChoice(tag, n+3)
	switch {
	case c < n:
		return vfAdminWords[c]
	case c == n:
		return ""
	case c == n+1:
		return vfAscii(tag+".s", 1)
	}
	return vfAscii(tag+".s", 2)
}

func vfAdminEnv(withReplset bool) (*vfEnv, *TextServerProtocol, *vfTConn) {
	var env *vfEnv
	if withReplset {
		env, _ = vfArbiter(false)
	} else {
		env = vfNewEnv(0)
	}
	server := NewServer(env.slock)
	// the two connections a CLIENT LIST / CLIENT KILL walks over
	bconn := &vfTConn{}
	bstream := NewStream(bconn)
	bp := NewBinaryServerProtocol(env.slock, bstream)
	bstream.protocol = bp
	_ = server.addStream(bstream)
	tp, conn := vfNewText(env)
	tp.stream.protocol = tp
	_ = server.addStream(tp.stream)
	// key "k": a holder with a value and a queued request
	_ = vfTextRun(tp, []string{"SET", "k", "v"})
	w := NewMemWaiterServerProtocol(env.slock)
	cmd := w.GetLockCommand()
	cmd.CommandType = protocol.COMMAND_LOCK
	cmd.RequestId = [16]byte{9, 9}
	cmd.DbId = 0
	cmd.LockId = [16]byte{7}
	tp.GetCommandConverter().ConvertArgId2LockId("k", &cmd.LockKey)
	cmd.Timeout = 50
	cmd.Expried = 50
	_ = env.db.Lock(w, cmd, 0)
	return env, tp, conn
}

// C13_admincmd: one administrative command with 0..3 arguments (the third from a reduced
// alphabet); C13_admincmd3: all three arguments from the full alphabet.
func init() {
	vfHarnesses["C13_admincmd"] = vfH_C13_admincmd
	vfHarnesses["C13_admincmd3"] = vfH_C13_admincmd3
}

func vfH_C13_admincmd()  { vfAdminCmd(false) }
func vfH_C13_admincmd3() { vfAdminCmd(true) }

var vfAdminWords3 = []string{"k", "WAIT", "0", "DEBUG", "127.0.0.1:1"}

func vfAdminCmd(full bool) {
	cmd := vfAdminCmds[vfChoice("cmd", len(vfAdminCmds))]
	withReplset := cmd == "REPLSET" && vfChoice("replset", 2) == 1
	_, tp, conn := vfAdminEnv(withReplset)
	args := []string{cmd}
	n := vfChoice("n", 4)
	for i := 0; i < n; i++ {
		tag := "a" + string(rune('0'+i))
		if i == 2 && !full {
			c := vfChoice(tag, len(vfAdminWords3)+1)
			if c < len(vfAdminWords3) {
				args = append(args, vfAdminWords3[c])
			} else {
				args = append(args, vfAscii(tag+".s", 2))
			}
			continue
		}
		args = append(args, vfAdminArg(tag))
	}
	// forms that dial another node or rewrite the member table through the network layer
	if args[0] == "SLAVEOF" && len(args) >= 3 {
		return
	}
	if args[0] == "REPLSET" && len(args) >= 2 && withReplset {
		switch args[1] {
		case "GET", "MEMBERS", "k", "*", "0":
		default:
			return
		}
	}
	// CONFIG GET <name> walks the configuration struct with package reflect (outside the executor)
	if args[0] == "CONFIG" && len(args) >= 2 && args[1] != "SET" && !(len(args) >= 3 && args[2] == "DATABASES") {
		return
	}
	w0 := conn.writes
	_ = vfTextRun(tp, args)
	vfAssert(conn.writes > w0 || conn.closed, "a finished administrative command earned neither a reply nor the closing of its connection")
	vfReach("end")
}
