package server

// C10_newdb: a database that does not exist yet when the request arrives.  A node in each non-leader
// state {init, follower, sync, config, vote}; a LOCK or UNLOCK (symbolic terms, no from-stream bit) names a
// database id never used on this node, which SLock.GetOrNewDB creates on the spot: the new database takes
// the node's role and refuses the request with STATE_ERROR like an existing one — nothing is granted,
// queued or released by it.

import (
	"github.com/snower/slock/protocol"
)

func init() { vfHarnesses["C10_newdb"] = vfH_C10_newdb }

func vfH_C10_newdb() {
	env := vfNewEnv(1)
	env.slock.state = vfNonLeaderStatus("status")
	dbId := uint8(1 + vfChoice("db", 3))
	vfDropSpawned()
	db := env.slock.GetOrNewDB(dbId)
	vfDropSpawned()
	vfAssert(db != nil && db != env.db, "C10: harness: no new database")
	key := vfKey(1)
	c := env.newCmd(protocol.COMMAND_LOCK, key, vfLockId(1))
	if vfChoice("unlock", 2) == 1 {
		c.CommandType = protocol.COMMAND_UNLOCK
	}
	c.DbId = dbId
	c.Flag = vfU8("flag") &^ 0x04 &^ 0x08 // not from the stream; the concurrent-check shortcut is a recorded finding
	c.Count, c.Rcount, c.Timeout, c.Expried = vfU16("count"), vfU8("rcount"), vfU16("timeout"), vfU16("expried")
	c.ExpriedFlag = 0x0200
	n := len(env.replies)
	if c.CommandType == protocol.COMMAND_LOCK {
		_ = db.Lock(env.protos[0], c, 0)
	} else {
		_ = db.UnLock(env.protos[0], c, 0)
	}
	vfAssert(len(env.replies) == n+1 && env.replies[n].result == protocol.RESULT_STATE_ERROR, "C10: a database created on a node that is not the leader did not refuse a client's request with STATE_ERROR")
	m := db.GetLockManager(c)
	vfAssert(m == nil || (m.locked == 0 && (m.waitLocks == nil || m.waitLocks.Len() == 0)), "C10: a database created on a node that is not the leader granted or queued a client's request")
	vfReach("end")
}
