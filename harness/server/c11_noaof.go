package server

// C11_noaof: the require-ack flag on a hold that is never written to the log.  A LOCK with the
// require-ack flag and persistence timing never / default / at once, taken at once or granted from the
// wait queue; key free or already held by a plain never-persist holder (later holders inherit the
// key's timing).  Whenever the server answers SUCCED without waiting for acknowledgements (nothing is
// written, so there is nothing to acknowledge) the hold is an ordinary hold: its owner's UNLOCK is
// accepted, its re-entrant LOCK is answered by the ordinary rules — never LOCK_ACK_WAITING.

import (
	"github.com/snower/slock/protocol"
)

func init() { vfHarnesses["C11_noaof"] = vfH_C11_noaof }

func vfH_C11_noaof() {
	env := vfNewEnv(2)
	vfSetDBTime(env.db, vfBaseTime)
	key := vfKey(1)
	shared := vfChoice("shared", 2) == 1
	fromQueue := vfChoice("fromQueue", 2) == 1
	if shared || fromQueue {
		p := env.newCmd(protocol.COMMAND_LOCK, key, vfLockId(9))
		p.Expried, p.ExpriedFlag = 100, 0x0200
		if shared && !fromQueue {
			p.Count = 1
		}
		env.lock(1, p)
	}
	c := env.newCmd(protocol.COMMAND_LOCK, key, vfLockId(1))
	c.TimeoutFlag = protocol.TIMEOUT_FLAG_REQUIRE_ACKED
	c.Timeout, c.Expried, c.Rcount = 5, 100, 3
	c.ExpriedFlag = [3]uint16{0x0200, 0, 0x0100}[vfChoice("aof", 3)]
	if shared {
		c.Count = 1
	}
	env.lock(0, c)
	if fromQueue {
		vfAssert(len(env.repliesFor(c.RequestId)) == 0, "C11: harness: the request was not queued")
		env.unlock(1, env.newCmd(protocol.COMMAND_UNLOCK, key, vfLockId(9)))
	}
	rs := env.repliesFor(c.RequestId)
	if len(rs) == 0 {
		// pending: waits for acknowledgements (covered by C11_ack and friends)
		vfReach("pending")
		return
	}
	vfAssert(len(rs) == 1 && rs[0].result == protocol.RESULT_SUCCED, "C11: harness: unexpected reply")
	vfReach("granted-at-once")
	r := env.newCmd(protocol.COMMAND_LOCK, key, vfLockId(1))
	r.Expried, r.ExpriedFlag, r.Rcount, r.Count = 100, c.ExpriedFlag, 3, c.Count
	n := len(env.replies)
	env.lock(0, r)
	vfAssert(len(env.replies) == n+1 && env.replies[n].result == protocol.RESULT_SUCCED, "C11: a hold that was reported SUCCED without acknowledgements still answers its owner's re-entrant LOCK with LOCK_ACK_WAITING")
	for i := 0; i < 2; i++ {
		u := env.newCmd(protocol.COMMAND_UNLOCK, key, vfLockId(1))
		u.Rcount = 1
		n = len(env.replies)
		env.unlock(0, u)
		vfAssert(len(env.replies) == n+1 && env.replies[n].result == protocol.RESULT_SUCCED, "C11: a hold that was reported SUCCED without acknowledgements cannot be released by its owner (LOCK_ACK_WAITING for ever)")
	}
	vfAssert(vfHeldBy(env, key, vfLockId(1)) == 0, "C11: the hold is still there after its owner released every level")
	vfReach("end")
}
