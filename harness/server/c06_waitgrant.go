package server

// C06_waitgrant: the expiry period of a hold that was granted from the wait queue starts at the
// GRANT.  A holds the key; W (E = 3 s) queues at t0; d seconds later (d in 1..6) A's hold ends —
// by an unlock, or by its own expiry — and W is granted.  W must not be ended before grant + E
// and must be ended by grant + E + 2 s, with exactly one EXPRIED.

import (
	"github.com/snower/slock/protocol"
)

func init() { vfHarnesses["C06_waitgrant"] = vfH_C06_waitgrant }

func vfH_C06_waitgrant() {
	env := vfNewEnv(2)
	vfSetDBTime(env.db, vfBaseTime)
	key := vfKey(1)
	d := int64(vfRange("waited", 1, 6))
	byExpiry := vfChoice("holderEnds", 2) == 1
	a := env.newCmd(protocol.COMMAND_LOCK, key, vfLockId(1))
	a.Expried, a.ExpriedFlag = 100, 0x0200
	if byExpiry {
		a.Expried = uint16(d - 1) // deadline at t0 + d: swept at tick d
		if a.Expried == 0 {
			a.Expried = 1
		}
	}
	env.lock(0, a)
	w := env.newCmd(protocol.COMMAND_LOCK, key, vfLockId(2))
	w.Timeout, w.Expried, w.ExpriedFlag = 100, 3, 0x0200
	wreq := w.RequestId
	env.lock(1, w)
	granted := int64(-1)
	ended := int64(-1)
	for s := int64(1); s <= d+8; s++ {
		vfTick(env, 1)
		if !byExpiry && s == d {
			env.unlock(0, env.newCmd(protocol.COMMAND_UNLOCK, key, vfLockId(1)))
		}
		if granted < 0 && vfCountResult(env.replies, wreq, protocol.RESULT_SUCCED) > 0 {
			granted = s
		}
		if ended < 0 && vfCountResult(env.replies, wreq, protocol.RESULT_EXPRIED) > 0 {
			ended = s
		}
	}
	vfAssert(granted >= 1, "C06: the queued request was not granted when the holder's hold ended")
	vfAssert(vfCountResult(env.replies, wreq, protocol.RESULT_EXPRIED) == 1, "C06: a hold granted from the queue did not end with exactly one EXPRIED within E + 2 s of its grant")
	vfAssert(ended >= granted+3, "C06: a hold granted from the wait queue was ended before E had passed since it was granted (its period was counted from the request's arrival)")
	vfAssert(ended <= granted+5, "C06: a hold granted from the wait queue was ended later than E + 2 s after its grant")
	vfReach("end")
}
