package server

// C11_sharedfail: "... the hold is removed ... and queued requests are served" on a key that is shared.
// Capacity 2 (Count 1): a plain holder keeps one slot; an ack-required lock goes pending on the other;
// a third request queues.  The acknowledgement fails (negative follower ack, or the wait runs out): the
// requester gets exactly one error reply, its hold is gone, and the queued request is granted the freed
// slot although the key still has another holder.

import (
	"github.com/snower/slock/protocol"
)

func init() { vfHarnesses["C11_sharedfail"] = vfH_C11_sharedfail }

func vfH_C11_sharedfail() {
	dir := vfFSDir()
	env := vfNewEnv(3)
	vfSetDBTime(env.db, vfBaseTime)
	vfOpenAof(env, dir)
	Config.AofAckMode = 0
	rm := env.slock.replicationManager
	rm.serverChannels = append(rm.serverChannels, nil)
	key := vfKey(1)
	p := env.newCmd(protocol.COMMAND_LOCK, key, vfLockId(9))
	p.Count, p.Expried = 1, 1000
	env.lock(2, p)
	a := env.newCmd(protocol.COMMAND_LOCK, key, vfLockId(1))
	a.TimeoutFlag = protocol.TIMEOUT_FLAG_REQUIRE_ACKED
	a.Count, a.Timeout, a.Expried = 1, 5, 100
	areq := a.RequestId
	env.lock(0, a)
	w := env.newCmd(protocol.COMMAND_LOCK, key, vfLockId(2))
	w.Count, w.Timeout, w.Expried = 1, 60, 100
	wreq := w.RequestId
	env.lock(1, w)
	vfDrainAof(env.db)
	vfAssert(len(env.repliesFor(areq)) == 0 && len(env.repliesFor(wreq)) == 0, "C11: harness: the ack-required lock is not pending with a request queued behind it")
	ackdb := rm.GetAckDB(0)
	vfAssert(ackdb != nil, "C11: no ack DB after pushing an ack-required record")
	aofId, registered := ackdb.commandAofs[0][areq]
	vfAssert(registered, "C11: the ack-required record was not registered for acknowledgement")
	if vfChoice("outcome", 2) == 0 {
		_ = env.slock.aof.loadLockAck(vfAckFrame(a, aofId, protocol.RESULT_ERROR))
		vfDrainAof(env.db)
		vfReach("nack")
	} else {
		vfTick(env, 7)
		vfDrainAof(env.db)
		vfReach("ack-timeout")
	}
	rs := env.repliesFor(areq)
	vfAssert(len(rs) == 1 && rs[0].result != protocol.RESULT_SUCCED, "C11: a failed acknowledgement did not produce exactly one error reply")
	vfAssert(vfHeldBy(env, key, vfLockId(1)) == 0, "C11: the failed ack-required lock is still a holder")
	ws := env.repliesFor(wreq)
	vfAssert(len(ws) == 1 && ws[0].result == protocol.RESULT_SUCCED && vfHeldBy(env, key, vfLockId(2)) == 1, "C11: the queued request was not served after the ack-required lock on a shared key was rolled back")
	vfAssert(vfHeldBy(env, key, vfLockId(9)) == 1, "C11: the other holder of the shared key lost its hold")
	vfReach("end")
}
