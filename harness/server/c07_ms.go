package server

// C07_ms: the outage must not renew a hold whose expiry is given in milliseconds.  A hold with
// the millisecond flag and E = 30000 ms (persisted at once) is restored by a restart 0 / 6 / 20 s
// later: its deadline must be the original one to within a second (plus the unit, 1 ms).

import (
	"github.com/snower/slock/protocol"
)

func init() { vfHarnesses["C07_ms"] = vfH_C07_ms }

func vfH_C07_ms() {
	dir := vfFSDir()
	env := vfNewEnv(1)
	vfSetDBTime(env.db, vfBaseTime)
	vfSetClock(vfBaseTime, 0)
	vfOpenAof(env, dir)
	key := vfKey(1)
	a := env.newCmd(protocol.COMMAND_LOCK, key, vfLockId(1))
	a.Expried, a.ExpriedFlag = 30000, protocol.EXPRIED_FLAG_MILLISECOND_TIME|0x0100
	env.lock(0, a)
	vfDrainAof(env.db)
	env.slock.aof.aofFile.Flush()
	vfDropSpawned()
	orig := vfHeldOf(env.manager(key))
	vfAssert(len(orig) == 1 && orig[0].isAof, "C07: harness: the hold was not persisted")
	t1 := env.db.currentTime
	dt := [3]int64{0, 6, 20}[vfChoice("outage", 3)]
	t2 := t1 + dt
	env2 := vfNewEnv(1)
	vfSetDBTime(env2.db, t2)
	vfSetClock(t2, 0)
	aof2 := env2.slock.aof
	aof2.dataDir = dir
	err, _ := aof2.LoadAofFiles([]string{"append.aof.1"}, t2, func(filename string, aofFile *AofFile, lock *AofLock, firstLock bool) (bool, error) {
		e := aof2.LoadLock(lock)
		vfDrainAof(env2.db)
		return true, e
	})
	vfAssert(err == nil, "C07: loading the log fails")
	vfDrainAof(env2.db)
	vfDropSpawned()
	rest := vfHeldOf(env2.manager(key))
	vfAssert(len(rest) == 1, "C07: a persisted millisecond hold with time left was not restored")
	d := rest[0].deadline - orig[0].deadline
	if d < 0 {
		d = -d
	}
	vfAssert(d <= 2, "C07: a hold with a millisecond expiry was renewed by the outage (restored deadline differs by more than a second)")
	vfReach("end")
}
