package server

// C15_textnum: a plain key-value store keeps numbers as decimal strings: SET k "<digits>" followed
// by INCR / DECRBY answers the number plus / minus the step, and GET answers its decimal string.
// The value set is a one- or two-digit number chosen by forks.

import (
	"fmt"
)

func init() { vfHarnesses["C15_textnum"] = vfH_C15_textnum }

func vfH_C15_textnum() {
	env := vfNewEnv(0)
	tp, conn := vfNewText(env)
	_ = vfTextRun(tp, []string{"TIMEOUT", "SET", "0"})
	v := int64([4]int{0, 7, 10, 99}[vfChoice("value", 4)])
	o0 := len(conn.out)
	_ = vfTextRun(tp, []string{"SET", "k", fmt.Sprintf("%d", v)})
	vfAssert(string(conn.out[o0:]) == "+OK\r\n", "C15: SET did not answer like a plain key-value store")
	var args []string
	want := v
	if vfChoice("op", 2) == 0 {
		args, want = []string{"INCR", "k"}, v+1
	} else {
		args, want = []string{"DECRBY", "k", "3"}, v-3
	}
	o1 := len(conn.out)
	_ = vfTextRun(tp, args)
	vfAssert(string(conn.out[o1:]) == fmt.Sprintf(":%d\r\n", want), "C15: "+args[0]+" on a key SET to a decimal number did not answer that number plus the step")
	o2 := len(conn.out)
	_ = vfTextRun(tp, []string{"GET", "k"})
	got := string(conn.out[o2:])
	vfAssert(got == vfBulk(fmt.Sprintf("%d", want)) || got == fmt.Sprintf(":%d\r\n", want), "C15: GET after "+args[0]+" does not answer the new number")
	vfReach("end")
}
