package server

// C09_cut: a connection cut during a full transfer, before the first record arrived.  The follower
// runs the real ReplicationClient.InitSync: SYNC (empty position) is answered with the leader's
// position H, then the stream ends.  Nothing was received, so the follower holds nothing of the
// leader's log: when it connects again its SYNC must ask for everything (empty position), not
// for "the records after H".

import (
	"github.com/snower/slock/client"
	"github.com/snower/slock/protocol"
	"github.com/snower/slock/protocol/protobuf"
	"google.golang.org/protobuf/proto"
)

func init() { vfHarnesses["C09_cut"] = vfH_C09_cut }

// vfSyncRequestPosition decodes the position carried by the first SYNC request in out.
func vfSyncRequestPosition(out []byte) (string, bool) {
	if len(out) < 64 {
		return "", false
	}
	cmd := protocol.CallCommand{}
	if cmd.Decode(out[:64]) != nil || cmd.MethodName != "SYNC" || len(out) < 64+int(cmd.ContentLen) {
		return "", false
	}
	req := protobuf.SyncRequest{}
	if proto.Unmarshal(out[64:64+int(cmd.ContentLen)], &req) != nil {
		return "", false
	}
	return req.AofId, true
}

func vfH_C09_cut() {
	dir := vfFSDir()
	env := vfNewEnv(1)
	vfSetDBTime(env.db, vfBaseTime)
	vfOpenAof(env, dir)
	env.slock.state = STATE_SYNC
	env.db.status = STATE_SYNC
	leader := NewAofLock()
	leader.AofIndex, leader.AofOffset, leader.CommandTime = uint32(2+vfChoice("leaderFile", 2)), 10, 9
	resp, err := proto.Marshal(&protobuf.SyncResponse{AofId: FormatAofId(leader.GetAofId())})
	vfAssume(err == nil)
	// first connection: handshake answered, then the stream ends
	conn1 := &vfScriptConn{in: vfCallResultBytes("", resp)}
	rc := NewReplicationClient(env.slock.replicationManager)
	rc.stream = client.NewStream(conn1)
	rc.protocol = client.NewBinaryClientProtocol(rc.stream)
	ierr := rc.InitSync()
	vfAssert(ierr != nil && !rc.recvedFiles, "C09: harness: the cut transfer was reported as complete")
	pos, ok := vfSyncRequestPosition(conn1.out)
	vfAssert(ok && pos == "", "C09: harness: the first SYNC did not ask for everything")
	// second connection: what does the follower ask for?
	conn2 := &vfScriptConn{in: nil}
	rc.stream = client.NewStream(conn2)
	rc.protocol = client.NewBinaryClientProtocol(rc.stream)
	_ = rc.InitSync()
	pos2, ok2 := vfSyncRequestPosition(conn2.out)
	vfAssert(ok2, "C09: harness: no SYNC request on the second connection")
	vfAssert(pos2 == "", "C09: after a transfer that was cut before its first record the follower asks to resume after the leader's position: everything before it is silently skipped")
	vfReach("end")
}
