package server

// C09_resync: "a follower whose position is no longer in the leader's buffer is resynchronised
// from scratch rather than silently skipped ahead", follower side.  A follower holding a stale
// replicated hold and a non-zero resume position runs the real ReplicationClient.InitSync against
// a scripted leader: SYNC(position) is answered ERR_NOT_FOUND; the follower's second SYNC (empty
// position) is answered with the leader's current position; then comes the transfer's end marker
// (no files: the leader's log is empty).  After InitSync the follower must have dropped its stale
// state (the hold is gone), adopted the leader's log position and consumed the transfer.

import (
	"github.com/snower/slock/client"
	"github.com/snower/slock/protocol"
	"github.com/snower/slock/protocol/protobuf"
	"google.golang.org/protobuf/proto"
)

func init() { vfHarnesses["C09_resync"] = vfH_C09_resync }

func vfCallResultBytes(errType string, data []byte) []byte {
	r := protocol.NewCallResultCommand(protocol.NewCallCommand("SYNC", nil), 0, errType, data)
	buf := make([]byte, 64)
	if r.Encode(buf) != nil {
		vfFail("C09: harness: cannot encode a call result")
	}
	return append(buf, data...)
}

func vfH_C09_resync() {
	dir := vfFSDir()
	env := vfNewEnv(1)
	vfSetDBTime(env.db, vfBaseTime)
	vfOpenAof(env, dir)
	env.slock.state = STATE_SYNC
	env.db.status = STATE_SYNC
	// stale replicated state
	c := env.newCmd(protocol.COMMAND_LOCK, vfKey(0x51), vfLockId(0x51))
	c.Flag, c.Expried, c.ExpriedFlag = protocol.LOCK_FLAG_FROM_AOF, 0xffff, 0x4200
	env.lock(0, c)
	vfAssert(vfHeldBy(env, vfKey(0x51), vfLockId(0x51)) == 1, "C09: harness: stale hold not applied")
	// the leader's answers
	stale := NewAofLock()
	stale.AofIndex, stale.AofOffset, stale.CommandTime = 1, 5, 7
	leader := NewAofLock()
	li := uint32(3 + vfChoice("leaderFile", 2))
	leader.AofIndex, leader.AofOffset, leader.CommandTime = li, 10, 9
	resp, err := proto.Marshal(&protobuf.SyncResponse{AofId: FormatAofId(leader.GetAofId())})
	vfAssume(err == nil)
	marker := NewAofLock()
	marker.CommandType = protocol.COMMAND_INIT
	marker.AofIndex, marker.AofOffset, marker.CommandTime = 0xffffffff, 0xffffffff, 0xffffffffffffffff
	vfAssume(marker.Encode() == nil)
	var script []byte
	script = append(script, vfCallResultBytes("ERR_NOT_FOUND", nil)...)
	script = append(script, vfCallResultBytes("", resp)...)
	script = append(script, marker.buf...)
	conn := &vfScriptConn{in: script}
	rc := NewReplicationClient(env.slock.replicationManager)
	rc.stream = client.NewStream(conn)
	rc.protocol = client.NewBinaryClientProtocol(rc.stream)
	rc.currentAofId = stale.GetAofId()
	ierr := rc.InitSync()
	vfAssert(ierr == nil, "C09: the resynchronisation handshake failed")
	vfAssert(conn.pos == len(script), "C09: the follower did not consume the leader's transfer (it took the resume path after ERR_NOT_FOUND)")
	vfAssert(rc.recvedFiles, "C09: the transfer was not completed")
	vfAssert(vfHeldBy(env, vfKey(0x51), vfLockId(0x51)) == 0, "C09: a follower told that its position is gone kept its stale holds (not resynchronised from scratch)")
	vfAssert(env.slock.aof.aofFileIndex == li && env.slock.aof.aofFileOffset == 10, "C09: the follower did not adopt the leader's log position")
	vfReach("end")
}
