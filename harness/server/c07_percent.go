package server

// C07_percent: the persistence delay "a share of the expiry" (expiry flag 0x1000, 30 % by
// default).  A hold with E in {20, 140, 200, 600, 852, 1000} s (delay 6 / 42 / 60 / 180 / 255 / 300 s) is left alone while the clock
// advances second by second through the real sweeps; once it is older than its delay (plus the
// sweep's granularity) it must have been persisted.

import (
	"github.com/snower/slock/protocol"
)

func init() { vfHarnesses["C07_percent"] = vfH_C07_percent }

func vfH_C07_percent() {
	dir := vfFSDir()
	env := vfNewEnv(1)
	vfSetDBTime(env.db, vfBaseTime)
	vfOpenAof(env, dir)
	key := vfKey(1)
	E := [6]uint16{20, 140, 200, 600, 852, 1000}[vfChoice("E", 6)]
	c := env.newCmd(protocol.COMMAND_LOCK, key, vfLockId(1))
	c.Expried, c.ExpriedFlag = E, protocol.EXPRIED_FLAG_AOF_TIME_OF_EXPRIED_PARCENT
	env.lock(0, c)
	hs := vfHolders(env.manager(key))
	vfAssert(len(hs) == 1, "C07: harness: lock not granted")
	// the configured delay: 30 % of the expiry (the server keeps it in one byte: E = 852 gives 255, E = 1000 gives 300)
	delay := int64(float64(E) * 0.3)
	// the sweeps look at a hold at growing intervals; allow the delay plus 15 s
	last := delay + 15
	if last > int64(E)-2 {
		last = int64(E) - 2
	}
	vfAssume(last > delay)
	for age := int64(1); age <= last; age++ {
		vfTick(env, 1)
		vfDrainAof(env.db)
	}
	hs = vfHolders(env.manager(key))
	vfAssert(len(hs) == 1, "C07: harness: the hold ended")
	vfAssert(hs[0].isAof, "C07: a hold older than its persistence delay (share-of-expiry flag) was not persisted")
	vfReach("end")
}
