package server

// C07_relock: a re-entrant hold whose levels were taken with different expiry times.  LOCK with
// E = 2 s (Rcount 2, persisted at once), one second later the same LockId locks again with
// E = 120 s: the hold has depth 2 and its deadline is now 120 s away.  The instance restarts 0, 2
// or 6 s later (6 s: the FIRST level's own record is past its original deadline).  The hold must
// come back with depth 2 and the deadline the re-lock gave it.

import (
	"github.com/snower/slock/protocol"
)

func init() { vfHarnesses["C07_relock"] = vfH_C07_relock }

func vfH_C07_relock() {
	dir := vfFSDir()
	env := vfNewEnv(1)
	vfSetDBTime(env.db, vfBaseTime)
	vfOpenAof(env, dir)
	key := vfKey(1)
	a := env.newCmd(protocol.COMMAND_LOCK, key, vfLockId(1))
	a.Expried, a.ExpriedFlag, a.Rcount = 2, 0x0100, 2
	env.lock(0, a)
	vfTick(env, 1)
	b := env.newCmd(protocol.COMMAND_LOCK, key, vfLockId(1))
	b.Expried, b.ExpriedFlag, b.Rcount = 120, 0x0100, 2
	n := len(env.replies)
	env.lock(0, b)
	vfAssert(env.replies[n].result == protocol.RESULT_SUCCED, "C07: harness: re-entrant lock refused")
	vfDrainAof(env.db)
	env.slock.aof.aofFile.Flush()
	orig := vfHeldOf(env.manager(key))
	vfAssert(len(orig) == 1 && orig[0].depth == 2 && orig[0].isAof, "C07: harness: the hold is not a persisted depth-2 hold")
	t1 := env.db.currentTime
	dt := [3]int64{0, 2, 6}[vfChoice("outage", 3)]
	t2 := t1 + dt
	env2 := vfNewEnv(1)
	vfSetDBTime(env2.db, t2)
	aof2 := env2.slock.aof
	aof2.dataDir = dir
	err, _ := aof2.LoadAofFiles([]string{"append.aof.1"}, t2, func(filename string, aofFile *AofFile, lock *AofLock, firstLock bool) (bool, error) {
		e := aof2.LoadLock(lock)
		vfDrainAof(env2.db)
		return true, e
	})
	vfAssert(err == nil, "C07: loading the log fails")
	vfDrainAof(env2.db)
	rest := vfHeldOf(env2.manager(key))
	vfAssert(len(rest) == 1, "C07: a persisted re-entrant hold with time left was not restored")
	vfAssert(rest[0].depth == 2, "C07: a re-entrant hold came back with a different depth (a level whose own record had run out was dropped)")
	d := rest[0].deadline - orig[0].deadline
	if d < 0 {
		d = -d
	}
	vfAssert(d <= 2, "C07: restored hold's deadline differs from the original by more than one unit plus a second")
	vfReach("end")
}
