package server

// C12_logorder: "newest log" in an election is decided by ArbiterManager.CompareAofId on the
// log positions (AofLock.GetAofId) the members report.  The order it implements must agree with
// the order in which the real log is written: a leader persists n records through the real
// LockDB -> AofChannel -> Aof.PushLock path with a rotation threshold of r records (so the log
// spans several files); the position of every later record must compare newer than the position
// of every earlier one, in both argument orders.

import (
	"io"

	"github.com/snower/slock/protocol"
)

func init() { vfHarnesses["C12_logorder"] = vfH_C12_logorder }

func vfH_C12_logorder() {
	dir := vfFSDir()
	env := vfNewEnv(1)
	vfSetDBTime(env.db, vfBaseTime)
	vfOpenAof(env, dir)
	aof := env.slock.aof
	r := vfRange("perfile", 1, 3)
	aof.rewriteSize = uint32(12 + 64*r)
	aof.isRewriting = true // keeps the rotation's background compaction job from starting: natively it would race with this harness
	n := vfRange("records", 2, 4)
	for step := 0; step < n; step++ {
		c := env.newCmd(protocol.COMMAND_LOCK, vfKey(uint8(1+step)), vfLockId(uint8(1+step)))
		c.Expried, c.ExpriedFlag = 0xffff, 0x4100
		env.lock(0, c)
		vfDrainAof(env.db)
	}
	aof.Flush()
	vfDropSpawned()
	// the positions, in log order, as published on the replication ring (the log files themselves
	// may already have been compacted by the rotation's background job)
	ring := env.slock.replicationManager.bufferQueue
	cur := NewReplicationBufferQueueCursor(make([]byte, 64))
	var ids [][16]byte
	var idx []uint32
	for guard := 0; guard < 16; guard++ {
		perr := ring.Pop(cur)
		if perr == io.EOF {
			break
		}
		vfAssert(perr == nil, "C12: harness: the ring reported a gap")
		rec := NewAofLock()
		copy(rec.buf, cur.buf)
		vfAssert(rec.Decode() == nil, "C12: harness: record does not decode")
		ids = append(ids, rec.GetAofId())
		idx = append(idx, rec.AofIndex)
	}
	vfAssert(len(ids) == n, "C12: harness: the log does not read back")
	m := NewArbiterManager(env.slock, "rs")
	for i := 0; i < len(ids); i++ {
		for j := i + 1; j < len(ids); j++ {
			vfAssert(m.CompareAofId(ids[j], ids[i]) > 0, "C12: the position of a later log record does not compare newer than an earlier one's")
			vfAssert(m.CompareAofId(ids[i], ids[j]) < 0, "C12: the position of an earlier log record does not compare older than a later one's")
		}
	}
	if len(ids) > 1 && idx[0] != idx[len(idx)-1] {
		vfReach("rotated")
	}
	vfReach("end")
}
