package server

// C11_lateack: acknowledgements that arrive late.  A key of capacity 5 with a plain holder (the key's
// manager stays alive and its Lock objects are recycled through the manager's pool).  Ack-required
// lock A goes pending and its wait times out (exactly one error reply; the persistence channel is
// drained before or only after the time-out); ack-required lock B (same or another LockId) goes
// pending next.  Then 1..F positive follower acknowledgements naming A's record arrive: they are
// not B's, so B stays pending until the leader's flush and F acknowledgements of B's OWN record have
// arrived, and is answered SUCCED exactly once then.

import (
	"github.com/snower/slock/protocol"
)

func init() { vfHarnesses["C11_lateack"] = vfH_C11_lateack }

func vfH_C11_lateack() {
	dir := vfFSDir()
	env := vfNewEnv(2)
	vfSetDBTime(env.db, vfBaseTime)
	vfOpenAof(env, dir)
	F := 1 + vfChoice("followers", 2)
	Config.AofAckMode = 0
	rm := env.slock.replicationManager
	for i := 0; i < F; i++ {
		rm.serverChannels = append(rm.serverChannels, nil)
	}
	need := F + 1
	key := vfKey(1)
	p := env.newCmd(protocol.COMMAND_LOCK, key, vfLockId(9))
	p.Expried, p.ExpriedFlag, p.Count = 1000, 0, 5 // default persistence timing (a never-persist first holder would switch acknowledgements off for the key: recorded finding C11_shared)
	env.lock(1, p)
	ackLock := func(id uint8) *protocol.LockCommand {
		c := env.newCmd(protocol.COMMAND_LOCK, key, vfLockId(id))
		c.TimeoutFlag = protocol.TIMEOUT_FLAG_REQUIRE_ACKED
		c.Timeout, c.Expried, c.Count = 5, 200, 5
		return c
	}
	a := ackLock(1)
	areq := a.RequestId
	env.lock(0, a)
	vfAssert(len(env.repliesFor(areq)) == 0, "C11: an ack-required lock was answered before anything was acknowledged")
	drainEarly := vfChoice("drainEarly", 2) == 1
	var aId [16]byte
	aKnown := false
	if drainEarly {
		vfDrainAof(env.db)
		if ackdb := rm.GetAckDB(0); ackdb != nil {
			aId, aKnown = ackdb.commandAofs[0][areq]
		}
		vfAssert(aKnown, "C11: the ack-required record was not registered for acknowledgement")
	}
	vfTick(env, 7)
	vfDrainAof(env.db)
	env.slock.aof.Flush()
	vfDrainAof(env.db)
	rs := env.repliesFor(areq)
	if drainEarly {
		vfAssert(len(rs) == 1 && rs[0].result != protocol.RESULT_SUCCED, "C11: an ack wait that timed out did not draw exactly one error reply")
	} else {
		vfAssert(len(rs) == 1 && rs[0].result != protocol.RESULT_SUCCED, "C11: an ack wait that timed out before its record reached the replication layer did not draw exactly one error reply")
	}
	for _, h := range vfHolders(env.manager(key)) {
		vfAssert(h.command.LockId != vfLockId(1), "C11: the failed ack-required lock is still a holder")
	}
	vfReach("a-timed-out")

	bid := uint8(1 + vfChoice("sameId", 2))
	b := ackLock(bid)
	breq := b.RequestId
	env.lock(0, b)
	vfDrainAof(env.db)
	ackdb := rm.GetAckDB(0)
	vfAssert(ackdb != nil, "C11: no ack DB after pushing an ack-required record")
	bId, bKnown := ackdb.commandAofs[0][breq]
	vfAssert(bKnown, "C11: the second ack-required record was not registered for acknowledgement")
	vfAssert(len(env.repliesFor(breq)) == 0, "C11: an ack-required lock was answered before anything was acknowledged")
	if aKnown {
		late := 1 + vfChoice("late", F)
		for i := 0; i < late; i++ {
			_ = env.slock.aof.loadLockAck(vfAckFrame(a, aId, protocol.RESULT_SUCCED))
			vfDrainAof(env.db)
		}
		vfReach("late-acks")
		vfAssert(len(env.repliesFor(breq)) == 0, "C11: acknowledgements of an earlier, timed-out record were counted for the lock that is pending now")
		vfAssert(len(env.repliesFor(areq)) == 1, "C11: a late acknowledgement drew a second reply for the lock that had timed out")
	}
	// B's own acknowledgements: flush report + F followers, in one of two orders
	got := 0
	flushFirst := vfChoice("flushFirst", 2) == 1
	if flushFirst {
		env.slock.aof.Flush()
		vfDrainAof(env.db)
		got++
	}
	for i := 0; i < F; i++ {
		vfAssert(len(env.repliesFor(breq)) == 0 || got >= need, "C11: SUCCED before the configured number of acknowledgements of the lock's own record arrived")
		_ = env.slock.aof.loadLockAck(vfAckFrame(b, bId, protocol.RESULT_SUCCED))
		vfDrainAof(env.db)
		got++
	}
	if !flushFirst {
		vfAssert(len(env.repliesFor(breq)) == 0, "C11: in ack mode all, SUCCED before the leader's flush report")
		env.slock.aof.Flush()
		vfDrainAof(env.db)
		got++
	}
	rs = env.repliesFor(breq)
	vfAssert(len(rs) == 1 && rs[0].result == protocol.RESULT_SUCCED, "C11: a fully acknowledged lock was not answered SUCCED exactly once")
	vfReach("end")
}
