package server

// C18_adminwills: a binary connection switches to the text protocol with the ADMIN command
// (BinaryServerProtocol.ProcessCommad starts a TextServerProtocol on the same stream), registers
// 0..2 wills there in text form and the connection ends (the stream reports EOF).  When the
// connection has been closed, each will must have been executed exactly once.

import (
	"io"
	"net"
	"time"

	"github.com/snower/slock/protocol"
)

func init() { vfHarnesses["C18_adminwills"] = vfH_C18_adminwills }

type vfScriptConn struct {
	in     []byte
	pos    int
	out    []byte
	closed bool
}

func (c *vfScriptConn) Read(b []byte) (int, error) {
	if c.pos >= len(c.in) {
		return 0, io.EOF
	}
	n := copy(b, c.in[c.pos:])
	c.pos += n
	return n, nil
}
func (c *vfScriptConn) Write(b []byte) (int, error)        { c.out = append(c.out, b...); return len(b), nil }
func (c *vfScriptConn) Close() error                       { c.closed = true; return nil }
func (c *vfScriptConn) LocalAddr() net.Addr                { return vfTAddr{} }
func (c *vfScriptConn) RemoteAddr() net.Addr               { return vfTAddr{} }
func (c *vfScriptConn) SetDeadline(t time.Time) error      { return nil }
func (c *vfScriptConn) SetReadDeadline(t time.Time) error  { return nil }
func (c *vfScriptConn) SetWriteDeadline(t time.Time) error { return nil }

func vfH_C18_adminwills() {
	env := vfNewEnv(1)
	vfSetDBTime(env.db, vfBaseTime)
	k1 := string(vfKeyBytes(1))
	parser := protocol.NewTextParser(make([]byte, 64), make([]byte, 64))
	n := vfChoice("wills", 4) // 0..3 wills registered in the text sub-session
	nb := vfChoice("binaryWills", 2) // 0..1 wills registered in binary form before the switch
	var script []byte
	for i := 0; i < n; i++ {
		script = append(script, parser.BuildRequest([]string{"LOCK", k1, "LOCK_ID", string(vfIdBytes(uint8(50 + i))), "EXPRIED", "100", "TIMEOUT", "0", "COUNT", "5", "WILL", "1"})...)
	}
	conn := &vfScriptConn{in: script}
	bp := NewBinaryServerProtocol(env.slock, NewStream(conn))
	for i := 0; i < nb; i++ {
		w := env.newCmd(protocol.COMMAND_WILL_LOCK, vfKey(1), vfLockId(uint8(40+i)))
		w.Expried, w.ExpriedFlag, w.Count = 100, 0x0200, 5
		_ = bp.ProcessCommad(w)
	}
	err := bp.ProcessCommad(protocol.NewAdminCommand(0))
	vfAssert(err != nil, "C18: harness: the text sub-session did not end with the stream")
	vfAssert(conn.pos == len(script), "C18: harness: the text sub-session did not consume its input")
	_ = bp.Close()
	hs := vfHolders(env.manager(vfKey(1)))
	vfAssert(len(hs) == nb+n, "C18: wills registered in an ADMIN text sub-session were not each executed exactly once when the connection ended")
	for i := range hs {
		want := vfLockId(uint8(40 + i))
		if i >= nb {
			want = vfLockId(uint8(50 + i - nb))
		}
		vfAssert(hs[i].command.LockId == want && hs[i].locked == 1, "C18: wills of a connection with an ADMIN text sub-session ran out of order or more than once")
	}
	vfReach("end")
}
