package server

// C03_cancel: cancelling queued requests (UNLOCK with the cancel-wait flag) when the queue also
// holds requests that were already answered (timed out, or granted) and still sit in it as dead
// entries behind a live one.  Every request gets exactly one terminal reply; a cancel that names
// an already answered request is refused and changes nothing.

import (
	"github.com/snower/slock/protocol"
)

func init() { vfHarnesses["C03_cancel"] = vfH_C03_cancel }

func vfH_C03_cancel() {
	env := vfNewEnv(3)
	vfSetDBTime(env.db, vfBaseTime)
	key := vfKey(1)
	h := env.newCmd(protocol.COMMAND_LOCK, key, vfLockId(1))
	h.Expried, h.ExpriedFlag, h.Count = 1000, 0x0200, 0
	env.lock(0, h)
	// three queued requests; which of them have short timeouts is chosen by forks
	type wq struct {
		req   [16]byte
		id    [16]byte
		short bool
	}
	var ws [3]wq
	for i := range ws {
		c := env.newCmd(protocol.COMMAND_LOCK, key, vfLockId(uint8(11+i)))
		short := vfChoice(vfName("short", i), 2) == 1
		c.Timeout, c.Expried, c.ExpriedFlag, c.Count = 100, 1000, 0x0200, 0
		if short {
			c.Timeout = 1
		}
		env.lock(1, c)
		ws[i] = wq{c.RequestId, c.LockId, short}
	}
	vfTick(env, 3) // the short ones are answered TIMEOUT; those behind a live one stay in the queue as dead entries
	for i := range ws {
		n := vfCountResult(env.replies, ws[i].req, protocol.RESULT_TIMEOUT)
		if ws[i].short {
			vfAssert(n == 1 && len(env.repliesFor(ws[i].req)) == 1, "C03: a queued request with T=1 was not answered TIMEOUT exactly once")
		} else {
			vfAssert(len(env.repliesFor(ws[i].req)) == 0, "C03: a queued request was answered before its time")
		}
	}
	// a third client cancels one of them by LockId
	t := vfChoice("target", 3)
	u := env.newCmd(protocol.COMMAND_UNLOCK, key, ws[t].id)
	u.Flag = protocol.UNLOCK_FLAG_CANCEL_WAIT_LOCK_WHEN_UNLOCKED
	env.unlock(2, u)
	ur := env.repliesFor(u.RequestId)
	vfAssert(len(ur) == 1 && ur[0].proto == 2, "C03: the cancel request was not answered exactly once on its own connection")
	for i := range ws {
		rs := env.repliesFor(ws[i].req)
		switch {
		case ws[i].short:
			vfAssert(len(rs) == 1, "C03: a request that had already been answered TIMEOUT drew another reply when a cancel named it or a neighbour")
		case i == t:
			vfAssert(len(rs) == 1 && rs[0].result != protocol.RESULT_SUCCED && rs[0].proto == 1, "C03: a cancelled queued request was not answered exactly once with an error on its own connection")
		default:
			vfAssert(len(rs) == 0, "C03: cancelling one queued request answered another")
		}
	}
	if ws[t].short {
		vfAssert(ur[0].result != protocol.RESULT_LOCKED_ERROR && ur[0].result != protocol.RESULT_SUCCED, "C03: a cancel naming an already answered request was reported as having cancelled something")
		vfReach("cancel-dead")
	} else {
		vfReach("cancel-live")
	}
	live := 0
	for i := range ws {
		if !ws[i].short && i != t {
			live++
		}
	}
	vfAssert(int(env.db.states[0].WaitCount) == live, "C03: WaitCount differs from the number of requests still queued")
	vfReach("end")
}
