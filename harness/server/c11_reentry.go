package server

// C11_reentry: every lock requested with the require-ack flag waits for its acknowledgements —
// also a further level of a hold that is already held.  A hold (Rcount 3) is taken with the
// require-ack flag and acknowledged (leader flush + one follower): SUCCED.  The same LockId locks
// again with the require-ack flag: no SUCCED may be sent before the leader's flush and the
// follower's acknowledgement for THAT record have arrived.

import (
	"github.com/snower/slock/protocol"
)

func init() { vfHarnesses["C11_reentry"] = vfH_C11_reentry }

func vfH_C11_reentry() {
	dir := vfFSDir()
	env := vfNewEnv(2)
	vfSetDBTime(env.db, vfBaseTime)
	vfOpenAof(env, dir)
	Config.AofAckMode = 0
	rm := env.slock.replicationManager
	rm.serverChannels = append(rm.serverChannels, nil) // one follower
	key := vfKey(1)
	c := env.newCmd(protocol.COMMAND_LOCK, key, vfLockId(1))
	c.TimeoutFlag = protocol.TIMEOUT_FLAG_REQUIRE_ACKED
	c.Timeout, c.Expried, c.Count, c.Rcount = 5, 20, 0, 3
	req := c.RequestId
	env.lock(0, c)
	vfDrainAof(env.db)
	ackdb := rm.GetAckDB(0)
	vfAssert(ackdb != nil, "C11: harness: no ack DB")
	aofId, registered := ackdb.commandAofs[0][req]
	vfAssert(registered, "C11: harness: first record not registered for acknowledgement")
	env.slock.aof.Flush()
	vfDrainAof(env.db)
	_ = env.slock.aof.loadLockAck(vfAckFrame(c, aofId, protocol.RESULT_SUCCED))
	vfDrainAof(env.db)
	vfAssert(vfCountResult(env.replies, req, protocol.RESULT_SUCCED) == 1, "C11: harness: the first level was not acknowledged")
	vfReach("first-level-held")
	// the second level
	withFlush := vfChoice("flushFirst", 2) == 1
	r := env.newCmd(protocol.COMMAND_LOCK, key, vfLockId(1))
	r.TimeoutFlag = protocol.TIMEOUT_FLAG_REQUIRE_ACKED
	r.Timeout, r.Expried, r.Count, r.Rcount = 5, 20, 0, 3
	rreq := r.RequestId
	env.lock(0, r)
	vfDrainAof(env.db)
	if withFlush {
		env.slock.aof.Flush()
		vfDrainAof(env.db)
	}
	// no follower has acknowledged the second level's record
	vfAssert(vfCountResult(env.replies, rreq, protocol.RESULT_SUCCED) == 0, "C11: a re-entrant lock requested with the require-ack flag was reported SUCCED before any follower acknowledged its record")
	vfReach("end")
}
