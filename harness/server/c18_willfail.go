package server

// C18_willfail: "every will runs": a will that FAILS at disconnect does not stop the wills behind it.
// A binary connection registers 3 wills: will-locks on keys of database 0 and, at position 0 / 1 / 2 (or
// nowhere), a will that cannot run — a will-unlock naming a database that was never created
// (ProcessCommad returns an error for it) or a will-lock naming database 0xff.  The connection closes:
// every will that can run has run (its key is held), whatever stood before it in the list.

import (
	"github.com/snower/slock/protocol"
)

func init() { vfHarnesses["C18_willfail"] = vfH_C18_willfail }

func vfH_C18_willfail() {
	env := vfNewEnv(1)
	vfSetDBTime(env.db, vfBaseTime)
	conn := &vfConn{}
	bp := NewBinaryServerProtocol(env.slock, NewStream(conn))
	bad := vfChoice("bad", 4) // 3: none
	kind := vfChoice("kind", 2)
	for i := 0; i < 3; i++ {
		w := env.newCmd(protocol.COMMAND_WILL_LOCK, vfKey(uint8(1+i)), vfLockId(uint8(1+i)))
		w.Expried, w.ExpriedFlag = 100, 0x0200
		if i == bad {
			if kind == 0 {
				w.CommandType = protocol.COMMAND_WILL_UNLOCK
				w.DbId = 7
			} else {
				w.DbId = 0xff
			}
		}
		_ = bp.ProcessCommad(w)
	}
	_ = bp.Close()
	for i := 0; i < 3; i++ {
		if i == bad {
			continue
		}
		vfAssert(vfHeldBy(env, vfKey(uint8(1+i)), vfLockId(uint8(1+i))) == 1, "C18: a will registered on the connection did not run at disconnect (a will before it in the list had failed)")
	}
	vfReach("end")
}
