package server

import "github.com/snower/slock/protocol"

// C02_bigcancel: the cancel-wait clause on long wait queues.  An exclusive holder and N queued
// requests (N = 3 / 150 / 300: inline slice, its growth, and the overflow ring behind it); zero or
// one request has already been served (the queue's read cursor has moved); then a cancel-wait UNLOCK
// names the k-th queued request (first, second, middle, the 256th / 257th / 258th, the last) — it must
// be answered LOCKED_ERROR, the named request UNLOCK_ERROR (once), and the request is gone: a second
// cancel of the same LockId is refused with UNLOCK_ERROR and changes nothing, and when the holder
// leaves the queue is served in arrival order without the cancelled request.

func init() { vfHarnesses["C02_bigcancel"] = vfH_C02_bigcancel }

func vfH_C02_bigcancel() {
	env := vfNewEnv(2)
	key := vfKey(1)
	N := [3]int{3, 150, 300}[vfChoice("n", 3)]
	h := env.newCmd(protocol.COMMAND_LOCK, key, vfLockId(0))
	h.Expried, h.ExpriedFlag = 0xffff, 0x4200
	env.lock(0, h)
	mkid := func(i int) [16]byte {
		var id [16]byte
		id[0], id[1], id[2] = 'w', byte(i), byte(i>>8)
		return id
	}
	var reqs [][16]byte
	for i := 0; i < N; i++ {
		c := env.newCmd(protocol.COMMAND_LOCK, key, mkid(i))
		c.RequestId[8], c.RequestId[9] = byte(i), byte(i>>8)
		c.Timeout, c.Expried, c.ExpriedFlag = 1000, 0xffff, 0x4200
		env.lock(1, c)
		reqs = append(reqs, c.RequestId)
	}
	vfAssert(len(env.replies) == 1, "C02_bigcancel: a request behind an exclusive holder was answered instead of queued")
	first := 0
	cur := vfLockId(0)
	if vfChoice("served", 2) == 1 {
		u := env.newCmd(protocol.COMMAND_UNLOCK, key, cur)
		env.unlock(0, u)
		cur, first = mkid(0), 1
	}
	ks := []int{first, first + 1, N / 2, 255, 256, 257, N - 1}
	k := ks[vfChoice("k", len(ks))]
	if k >= N || k < first {
		return
	}
	state := env.db.states[0]
	wait0 := state.WaitCount
	n0 := len(env.replies)
	u := env.newCmd(protocol.COMMAND_UNLOCK, key, mkid(k))
	u.Flag = protocol.UNLOCK_FLAG_CANCEL_WAIT_LOCK_WHEN_UNLOCKED
	env.unlock(0, u)
	rs := env.replies[n0:]
	vfAssert(len(rs) == 2, "C02: a cancel-wait unlock naming a queued request did not draw exactly two replies")
	for _, r := range rs {
		if r.reqId == u.RequestId {
			vfAssert(r.result == protocol.RESULT_LOCKED_ERROR && r.proto == 0, "C02: the canceller of a queued request was not answered LOCKED_ERROR")
		} else {
			vfAssert(r.reqId == reqs[k] && r.result == protocol.RESULT_UNLOCK_ERROR && r.proto == 1, "C02: the cancelled request was not answered UNLOCK_ERROR on its own connection")
		}
	}
	vfAssert(state.WaitCount == wait0-1, "C02: cancelling one queued request did not lower WaitCount by one")
	vfAssert(len(vfLiveWaiters(env.manager(key))) == N-first-1, "C02: the cancelled request is still queued (or another one left with it)")
	vfReach("cancelled")
	// a second cancel of the same LockId: nothing is queued under it any more
	n0 = len(env.replies)
	u2 := env.newCmd(protocol.COMMAND_UNLOCK, key, mkid(k))
	u2.Flag = protocol.UNLOCK_FLAG_CANCEL_WAIT_LOCK_WHEN_UNLOCKED
	env.unlock(0, u2)
	rs = env.replies[n0:]
	vfAssert(len(rs) == 1 && rs[0].reqId == u2.RequestId && (rs[0].result == protocol.RESULT_UNLOCK_ERROR || rs[0].result == protocol.RESULT_UNOWN_ERROR), "C02: an unlock naming a LockId that neither holds nor waits was not refused with UNLOCK_ERROR / UNOWN_ERROR")
	vfAssert(state.WaitCount == wait0-1 && len(vfLiveWaiters(env.manager(key))) == N-first-1, "C02: a refused unlock changed the queue")
	// the holder leaves: the next requests are served in arrival order, the cancelled one never
	expect := first
	for j := 0; j < 3 && expect < N; j++ {
		if expect == k {
			expect++
			if expect >= N {
				break
			}
		}
		n0 = len(env.replies)
		env.unlock(0, env.newCmd(protocol.COMMAND_UNLOCK, key, cur))
		granted := 0
		for _, r := range env.replies[n0:] {
			if r.result == protocol.RESULT_SUCCED && r.ctype == protocol.COMMAND_LOCK {
				granted++
				vfAssert(r.reqId == reqs[expect], "C02: after a cancellation the queue was not served in arrival order without the cancelled request")
			}
		}
		vfAssert(granted == 1, "C02: a hold ended with requests queued but not exactly one was granted")
		cur = mkid(expect)
		expect++
	}
	vfReach("end")
}
