package server

// C17_cancelafter: WaitCount "always equals the true number of live queued requests" when a cancel meets
// a DEAD entry.  A holder; 2..3 queued requests of which one that is not the head has a short wait
// (T = 2 s) and times out — its entry stays in the queue behind the live head until the queue is next
// trimmed.  Then an UNLOCK with the cancel-wait flag names one of the queued LockIds (the timed-out one
// or a live one): a request that was already answered TIMEOUT is not cancelled a second time.  After
// every event WaitCount equals the number of queued requests not yet answered; the holder unlocks, the
// live ones are granted and released: every counter is back to zero.

import (
	"github.com/snower/slock/protocol"
)

func init() { vfHarnesses["C17_cancelafter"] = vfH_C17_cancelafter }

func vfH_C17_cancelafter() {
	env := vfNewEnv(2)
	vfSetDBTime(env.db, vfBaseTime)
	key := vfKey(1)
	h := env.newCmd(protocol.COMMAND_LOCK, key, vfLockId(1))
	h.Expried, h.ExpriedFlag = 1000, 0x0200
	env.lock(0, h)
	n := 2 + vfChoice("waiters", 2)
	short := 1 + vfChoice("short", n-1) // never the head
	var reqs [][16]byte
	for i := 0; i < n; i++ {
		w := env.newCmd(protocol.COMMAND_LOCK, key, vfLockId(uint8(10+i)))
		w.Timeout, w.Expried, w.ExpriedFlag = 100, 1000, 0x0200
		if i == short {
			w.Timeout = 2
		}
		env.lock(1, w)
		reqs = append(reqs, w.RequestId)
	}
	live := func() uint32 {
		k := uint32(0)
		for _, r := range reqs {
			if len(env.repliesFor(r)) == 0 {
				k++
			}
		}
		return k
	}
	vfAssert(env.db.states[0].WaitCount == live(), "C17: WaitCount differs from the number of live queued requests")
	vfTick(env, 4)
	vfAssert(vfCountResult(env.replies, reqs[short], protocol.RESULT_TIMEOUT) == 1, "C05: the short wait was not answered TIMEOUT")
	vfAssert(env.db.states[0].WaitCount == live(), "C17: WaitCount differs from the number of live queued requests after a timeout")
	target := vfChoice("target", n)
	u := env.newCmd(protocol.COMMAND_UNLOCK, key, vfLockId(uint8(10+target)))
	u.Flag = protocol.UNLOCK_FLAG_CANCEL_WAIT_LOCK_WHEN_UNLOCKED
	ureq := u.RequestId
	env.unlock(1, u)
	vfAssert(len(env.repliesFor(ureq)) == 1, "C03: the cancelling UNLOCK was not answered exactly once")
	for i := range reqs {
		vfAssert(len(env.repliesFor(reqs[i])) <= 1, "C03: a queued request was answered twice")
	}
	if target == short {
		vfReach("cancel-dead")
	} else {
		vfAssert(len(env.repliesFor(reqs[target])) == 1, "C02: a live queued request named by a cancelling UNLOCK was not answered")
	}
	vfAssert(env.db.states[0].WaitCount == live(), "C17: WaitCount differs from the number of live queued requests after a cancel (a request already answered TIMEOUT was counted out a second time)")
	// drain: the holder leaves, every live request is granted in turn and leaves
	env.unlock(0, env.newCmd(protocol.COMMAND_UNLOCK, key, vfLockId(1)))
	for i := 0; i < n; i++ {
		if vfHeldBy(env, key, vfLockId(uint8(10+i))) == 1 {
			env.unlock(1, env.newCmd(protocol.COMMAND_UNLOCK, key, vfLockId(uint8(10+i))))
		}
	}
	for i := 0; i < n; i++ {
		if vfHeldBy(env, key, vfLockId(uint8(10+i))) == 1 {
			env.unlock(1, env.newCmd(protocol.COMMAND_UNLOCK, key, vfLockId(uint8(10+i))))
		}
	}
	vfAssert(live() == 0, "C03: a queued request was never answered")
	st := env.db.states[0]
	vfAssert(st.WaitCount == 0 && st.LockedCount == 0, "C17: WaitCount / LockedCount are not back to zero once every request has ended")
	vfReach("end")
}
