package server

// C06_msunlimited: a hold with the unlimited-expiry flag is never ended by time — whatever other
// unit flags its request carries.  A hold with the unlimited flag combined with the millisecond
// flag (or the minute flag, or none) and an Expried value of 500 / 3000 / 7000 / 0xffff is granted;
// the clock runs on for Expried ms + 12 s through every sweeper (millisecond slot sweepers and the
// second wheel): the hold is still there, no EXPRIED was sent.
// No native replay (the millisecond sweepers are sleeping goroutines natively).

import (
	"github.com/snower/slock/protocol"
)

func init() { vfHarnesses["C06_msunlimited"] = vfH_C06_msunlimited }

func vfH_C06_msunlimited() {
	env := vfNewEnv(2)
	t0 := vfBaseTime
	vfSetDBTime(env.db, t0)
	vfSetClockMs(t0, 0)
	vfDropSpawned()
	key := vfKey(1)
	E := [4]uint16{500, 3000, 7000, 0xffff}[vfChoice("E", 4)]
	unit := [3]uint16{protocol.EXPRIED_FLAG_MILLISECOND_TIME, protocol.EXPRIED_FLAG_MINUTE_TIME, 0}[vfChoice("unit", 3)]
	a := env.newCmd(protocol.COMMAND_LOCK, key, vfLockId(1))
	a.Expried, a.ExpriedFlag = E, protocol.EXPRIED_FLAG_UNLIMITED_EXPRIED_TIME|unit|0x0200
	areq := a.RequestId
	env.lock(0, a)
	vfAssert(vfCountResult(env.replies, areq, protocol.RESULT_SUCCED) == 1, "C06: harness: lock not granted")
	horizon := int64(12)
	if unit == protocol.EXPRIED_FLAG_MILLISECOND_TIME {
		horizon += int64(E) / 1000
	}
	next := 0
	wake := int64(E % 3000)
	ran := false
	for s := int64(1); s <= horizon; s++ {
		if !ran && wake <= s*1000 {
			vfSetClockMs(t0, wake)
			next = vfRunSweepers(next)
			ran = true
		}
		vfSetClockMs(t0, s*1000)
		vfTick(env, 1)
		next = vfRunSweepers(next)
		vfAssert(vfCountResult(env.replies, areq, protocol.RESULT_EXPRIED) == 0, "C06: a hold with the unlimited-expiry flag was ended by time (EXPRIED sent)")
	}
	m := env.manager(key)
	vfAssert(m != nil && len(vfHolders(m)) == 1, "C06: a hold with the unlimited-expiry flag is gone although nobody released it")
	// it is still a hold: its own unlock is accepted
	u := env.newCmd(protocol.COMMAND_UNLOCK, key, vfLockId(1))
	env.unlock(0, u)
	vfAssert(vfCountResult(env.replies, u.RequestId, protocol.RESULT_SUCCED) == 1, "C06: the unlock of an unlimited hold was refused")
	vfReach("end")
}
