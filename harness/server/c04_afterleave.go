package server

import "github.com/snower/slock/protocol"

// C04_afterleave: what a queue that has just lost its last live request does to the next request.
// A shared hold (symbolic Count) and one queued request (symbolic Count, queued by assumption) that
// leaves the queue without being granted: its wait runs out (T = 4 s, clock + 6 s) or it is cancelled.
// Then a newcomer with symbolic Count and Timeout 5 arrives.  Nothing live is queued any more, so the
// newcomer is either granted at once or queues because it is not admissible; at the quiescent moment
// after its LOCK no admissible request may sit at the head of the queue.

func init() { vfHarnesses["C04_afterleave"] = vfH_C04_afterleave }

func vfH_C04_afterleave() {
	env := vfNewEnv(2)
	vfSetDBTime(env.db, vfBaseTime)
	key := vfKey(1)
	h := env.newCmd(protocol.COMMAND_LOCK, key, vfLockId(1))
	h.Count, h.Expried, h.ExpriedFlag = vfU16("hcount"), 1000, 0x0200
	env.lock(0, h)
	w := env.newCmd(protocol.COMMAND_LOCK, key, vfLockId(2))
	w.Count, w.Timeout, w.Expried, w.ExpriedFlag = vfU16("wcount"), 4, 1000, 0x0200
	n := len(env.replies)
	env.lock(1, w)
	vfAssume(len(env.replies) == n) // queued
	if vfChoice("leave", 2) == 0 {
		vfTick(env, 6)
		vfAssert(vfCountResult(env.replies, w.RequestId, protocol.RESULT_TIMEOUT) == 1, "C04: harness: the queued request did not time out")
	} else {
		u := env.newCmd(protocol.COMMAND_UNLOCK, key, vfLockId(2))
		u.Flag = protocol.UNLOCK_FLAG_CANCEL_WAIT_LOCK_WHEN_UNLOCKED
		env.unlock(1, u)
		vfAssert(vfCountResult(env.replies, w.RequestId, protocol.RESULT_UNLOCK_ERROR) == 1, "C04: harness: the queued request was not cancelled")
	}
	vfReach("left")
	m := env.manager(key)
	pre := vfTakeSnap(m)
	vfAssert(len(pre.waiters) == 0, "C04: harness: a request is still live in the queue")
	c := env.newCmd(protocol.COMMAND_LOCK, key, vfLockId(3))
	c.Count, c.Timeout, c.Expried, c.ExpriedFlag = vfU16("ccount"), 5, 1000, 0x0200
	env.lock(1, c)
	m2 := env.manager(key)
	post := vfTakeSnap(m2)
	if len(env.repliesFor(c.RequestId)) == 0 {
		vfReach("newcomer-queued")
	} else {
		vfReach("newcomer-answered")
	}
	vfC04Quiescent(env, m2, &pre, &post)
	vfReach("end")
}
