package server

// C10_probable: "a client gets the same outcome from any node".  Before it forwards a LOCK to the
// leader, a follower's forwarding protocol asks LockDB.CheckProbableLock whether it may answer on
// its own.  The same holds (0..3 holders, symbolic Count of the oldest) are put on a leader
// instance and, from the stream, on a follower instance; the same request (concurrent-check flag,
// Timeout 0, symbolic Count, with or without the wait-when-unlocked flag) is given to the leader
// and to the follower's shortcut.  Whenever the follower answers on its own, its answer is the
// leader's.

import (
	"github.com/snower/slock/protocol"
)

func init() { vfHarnesses["C10_probable"] = vfH_C10_probable }

func vfH_C10_probable() {
	key := vfKey(1)
	H := vfChoice("holders", 4)
	hc := vfU16("holderCount")
	build := func(follower bool) *vfEnv {
		env := vfNewEnv(2)
		if follower {
			env.db.status = STATE_FOLLOWER
			env.slock.state = STATE_FOLLOWER
		}
		for i := 0; i < H; i++ {
			c := env.newCmd(protocol.COMMAND_LOCK, key, vfLockId(uint8(1+i)))
			c.Expried, c.ExpriedFlag, c.Count = 100, 0x0200, 0xffff
			if follower {
				c.Flag = protocol.LOCK_FLAG_FROM_AOF
			}
			env.lock(0, c)
		}
		if hs := vfHolders(env.manager(key)); len(hs) > 0 {
			hs[0].command.Count = hc
		}
		return env
	}
	leader, follower := build(false), build(true)
	vfAssert(len(vfHolders(leader.manager(key))) == H && len(vfHolders(follower.manager(key))) == H, "C10: harness: the two instances do not hold the same")
	mk := func(env *vfEnv) *protocol.LockCommand {
		r := env.newCmd(protocol.COMMAND_LOCK, key, vfLockId(9))
		r.Flag = protocol.LOCK_FLAG_CONCURRENT_CHECK
		r.Timeout, r.Expried, r.ExpriedFlag = 0, 100, 0x0200
		r.Count = vfU16("count")
		if vfBool("waitWhenUnlocked") {
			r.TimeoutFlag = protocol.TIMEOUT_FLAG_LOCK_WAIT_WHEN_UNLOCK
		}
		return r
	}
	// the leader's decision
	lr := mk(leader)
	n := len(leader.replies)
	leader.lock(1, lr)
	vfAssert(len(leader.replies) == n+1, "C10: harness: the leader did not answer at once")
	want := leader.replies[n].result
	// the follower's shortcut
	fr := mk(follower)
	n = len(follower.replies)
	own := follower.db.CheckProbableLock(follower.protos[1], fr)
	if own {
		vfReach("answered-locally")
		vfAssert(len(follower.replies) == n+1, "C10: the follower's shortcut claimed to have answered but sent nothing")
		vfAssert(follower.replies[n].result == want, "C10: a follower answered a request on its own with an outcome the leader would not have given")
	} else {
		vfAssert(len(follower.replies) == n, "C10: the follower's shortcut answered and asked to forward as well")
	}
	vfReach("end")
}
