package server

// C20 continued.
//   C20_deques  the three copy-pasted segmented deques (LockQueue, LockCommandQueue,
//               LockManagerQueue) behind one adaptor, with Reset, Rellac (on an empty queue, as
//               every caller uses it) and iteration added to the operation mix.
//   C20_ring    LockManagerRingQueue and LockManagerPriorityRingQueue against a FIFO /
//               stable priority queue (higher priority first, FIFO within a priority).
// Shrink() has no caller anywhere in the repository (dead code, no contract to test against).

import (
	"github.com/snower/slock/protocol"
)

func init() {
	vfHarnesses["C20_deques"] = vfH_C20_deques
	vfHarnesses["C20_deques6"] = vfH_C20_deques6
	vfHarnesses["C20_ring"] = vfH_C20_ring
	vfHarnesses["C20_ring7"] = vfH_C20_ring7
}

// vfDeque: token-indexed view of one of the deques (token -1 = nil).
type vfDeque struct {
	push     func(t int)
	pushLeft func(t int) bool
	pop      func() int
	popRight func() int
	head     func() int
	tail     func() int
	length   func() int
	resize   func()
	restruct func()
	reset    func()
	rellac   func()
	iter     func() []int
}

func vfDequeLock(base, nodes, size int32) *vfDeque {
	q := NewLockQueue(base, nodes, size)
	toks := make([]*Lock, vfDequeToks)
	for i := range toks {
		toks[i] = &Lock{}
	}
	idx := func(l *Lock) int {
		for i, t := range toks {
			if t == l {
				return i
			}
		}
		return -1
	}
	return &vfDeque{
		push:     func(t int) { _ = q.Push(toks[t]) },
		pushLeft: func(t int) bool { return q.PushLeft(toks[t]) == nil },
		pop:      func() int { return idx(q.Pop()) },
		popRight: func() int { return idx(q.PopRight()) },
		head:     func() int { return idx(q.Head()) },
		tail:     func() int { return idx(q.Tail()) },
		length:   func() int { return int(q.Len()) },
		resize:   func() { _ = q.Resize() },
		restruct: func() { _ = q.Restructuring() },
		reset:    func() { _ = q.Reset() },
		rellac:   func() { _ = q.Rellac() },
		iter: func() []int {
			var out []int
			for i := range q.IterNodes() {
				for _, l := range q.IterNodeQueues(int32(i)) {
					out = append(out, idx(l))
				}
			}
			return out
		},
	}
}

func vfDequeCommand(base, nodes, size int32) *vfDeque {
	q := NewLockCommandQueue(base, nodes, size)
	toks := make([]*protocol.LockCommand, vfDequeToks)
	for i := range toks {
		toks[i] = &protocol.LockCommand{}
	}
	idx := func(l *protocol.LockCommand) int {
		for i, t := range toks {
			if t == l {
				return i
			}
		}
		return -1
	}
	return &vfDeque{
		push:     func(t int) { _ = q.Push(toks[t]) },
		pushLeft: func(t int) bool { return q.PushLeft(toks[t]) == nil },
		pop:      func() int { return idx(q.Pop()) },
		popRight: func() int { return idx(q.PopRight()) },
		head:     func() int { return idx(q.Head()) },
		tail:     func() int { return idx(q.Tail()) },
		length:   func() int { return int(q.Len()) },
		resize:   func() { _ = q.Resize() },
		restruct: func() { _ = q.Restructuring() },
		reset:    func() { _ = q.Reset() },
		rellac:   func() { _ = q.Rellac() },
		iter: func() []int {
			var out []int
			for i := range q.IterNodes() {
				for _, l := range q.IterNodeQueues(int32(i)) {
					out = append(out, idx(l))
				}
			}
			return out
		},
	}
}

func vfDequeManager(base, nodes, size int32) *vfDeque {
	q := NewLockManagerQueue(base, nodes, size)
	toks := make([]*LockManager, vfDequeToks)
	for i := range toks {
		toks[i] = &LockManager{}
	}
	idx := func(l *LockManager) int {
		for i, t := range toks {
			if t == l {
				return i
			}
		}
		return -1
	}
	return &vfDeque{
		push:     func(t int) { _ = q.Push(toks[t]) },
		pushLeft: func(t int) bool { return q.PushLeft(toks[t]) == nil },
		pop:      func() int { return idx(q.Pop()) },
		popRight: func() int { return idx(q.PopRight()) },
		head:     func() int { return idx(q.Head()) },
		tail:     func() int { return idx(q.Tail()) },
		length:   func() int { return int(q.Len()) },
		resize:   func() { _ = q.Resize() },
		restruct: func() { _ = q.Restructuring() },
		reset:    func() { _ = q.Reset() },
		rellac:   func() { _ = q.Rellac() },
		iter: func() []int {
			var out []int
			for i := range q.IterNodes() {
				for _, l := range q.IterNodeQueues(int32(i)) {
					out = append(out, idx(l))
				}
			}
			return out
		},
	}
}

func vfH_C20_deques()  { vfC20Deques(5, 2) }
func vfH_C20_deques6() { vfC20Deques(6, 4) }

func vfC20Deques(nops int, nparams int) {
	// constructor parameters (base nodes, nodes, first node size): two / four corners
	params := [4][3]int32{{1, 3, 2}, {2, 2, 1}, {1, 1, 1}, {2, 3, 2}}[vfChoice("params", nparams)]
	var q *vfDeque
	switch vfChoice("type", 3) {
	case 0:
		q = vfDequeLock(params[0], params[1], params[2])
	case 1:
		q = vfDequeCommand(params[0], params[1], params[2])
	default:
		q = vfDequeManager(params[0], params[1], params[2])
	}
	var model []int
	next := 0
	for step := 0; step < nops; step++ {
		switch vfChoice(vfName("op", step), 10) {
		case 0:
			q.push(next)
			model = append(model, next)
			next++
		case 1:
			r := q.pop()
			if len(model) == 0 {
				vfAssert(r == -1, "Pop on empty returned an element")
			} else {
				vfAssert(r == model[0], "Pop returned the wrong element")
				model = model[1:]
			}
		case 2:
			r := q.popRight()
			if len(model) == 0 {
				vfAssert(r == -1, "PopRight on empty returned an element")
			} else {
				vfAssert(r == model[len(model)-1], "PopRight returned the wrong element")
				model = model[:len(model)-1]
			}
		case 3:
			if q.pushLeft(next) {
				model = append([]int{next}, model...)
			}
			next++
		case 4:
			r := q.head()
			if len(model) == 0 {
				vfAssert(r == -1, "Head on empty returned an element")
			} else {
				vfAssert(r == model[0], "Head returned the wrong element")
			}
			r = q.tail()
			if len(model) == 0 {
				vfAssert(r == -1, "Tail on empty returned an element")
			} else {
				vfAssert(r == model[len(model)-1], "Tail returned the wrong element")
			}
		case 5:
			q.resize()
		case 6:
			q.restruct()
		case 7:
			q.reset()
			model = nil
		case 8:
			// Rellac: every caller invokes it on a drained queue
			if len(model) == 0 {
				q.rellac()
			}
		case 9:
			got := q.iter()
			vfAssert(len(got) == len(model), "iteration yields a different number of elements")
			for i := range got {
				vfAssert(got[i] == model[i], "iteration yields the wrong element or order")
			}
		}
		vfAssert(q.length() == len(model), "Len disagrees with the model")
	}
	for len(model) > 0 {
		vfAssert(q.pop() == model[0], "drain: Pop returned the wrong element")
		model = model[1:]
	}
	vfAssert(q.pop() == -1, "drain: queue not empty at the end")
	vfReach("end")
}

// ---------------------------------------------------------------------------

func vfH_C20_ring()  { vfC20Ring(5) }
func vfH_C20_ring7() { vfC20Ring(7) }

func vfC20Ring(nops int) {
	prio := vfChoice("kind", 2) == 1
	size := 1 + vfChoice("size", 2) // ring capacity 1 or 2: growth and compaction at once
	var q ILockManagerRingQueue
	if prio {
		q = NewLockManagerPriorityRingQueue(size)
	} else {
		q = NewLockManagerRingQueue(size)
	}
	toks := make([]*Lock, 16)
	for i := range toks {
		toks[i] = &Lock{command: &protocol.LockCommand{}}
	}
	idx := func(l *Lock) int {
		for i, t := range toks {
			if t == l {
				return i
			}
		}
		return -1
	}
	type ent struct {
		tok  int
		prio uint8
	}
	var model []ent // kept in service order
	next := 0
	for step := 0; step < nops; step++ {
		switch vfChoice(vfName("op", step), 4) {
		case 0, 1: // Push with priority 0..2 (a plain ring ignores priorities in its order)
			p := uint8(vfChoice(vfName("p", step), 3))
			c := toks[next].command
			if p > 0 {
				c.TimeoutFlag, c.Rcount = protocol.TIMEOUT_FLAG_RCOUNT_IS_PRIORITY, p
			}
			q.Push(toks[next])
			e := ent{next, p}
			if !prio {
				model = append(model, e)
			} else {
				at := len(model)
				for i := range model {
					if model[i].prio < p {
						at = i
						break
					}
				}
				model = append(model, ent{})
				copy(model[at+1:], model[at:])
				model[at] = e
			}
			next++
		case 2:
			r := idx(q.Pop())
			if len(model) == 0 {
				vfAssert(r == -1, "Pop on empty returned an element")
			} else {
				vfAssert(r == model[0].tok, "Pop returned the wrong element")
				model = model[1:]
			}
		case 3:
			r := idx(q.Head())
			if len(model) == 0 {
				vfAssert(r == -1, "Head on empty returned an element")
				vfAssert(q.MaxPriority() == 0, "MaxPriority of an empty queue")
			} else {
				vfAssert(r == model[0].tok, "Head returned the wrong element")
				vfAssert(q.MaxPriority() == model[0].prio, "MaxPriority is not the head's priority")
			}
			var got []int
			for _, n := range q.IterNodes() {
				for _, l := range n {
					got = append(got, idx(l))
				}
			}
			vfAssert(len(got) == len(model), "iteration yields a different number of elements")
			for i := range got {
				vfAssert(got[i] == model[i].tok, "iteration yields the wrong element or order")
			}
		}
		vfAssert(q.Len() == len(model), "Len disagrees with the model")
	}
	for len(model) > 0 {
		vfAssert(idx(q.Pop()) == model[0].tok, "drain: Pop returned the wrong element")
		model = model[1:]
	}
	vfAssert(q.Pop() == nil, "drain: queue not empty at the end")
	vfReach("end")
}

// ---------------------------------------------------------------------------
// C20_waitqueue: the per-key wait queue (inline slice -> overflow ring -> priority ring)
// against a FIFO / stable priority queue.  The queue is pre-filled with N waiters
// (N up to 300: beyond the inline slice's growth limit, so that the overflow ring is in
// use), some are popped, then every program of 4 operations: push (priority 0 or 1),
// pop, observe (head, length, iteration), switch to priority mode.
// C20_holdqueue: the per-key holder queue (inline slice -> scale queue) in the same way,
// with releases (locked = 0) of arbitrary entries, which compaction may drop.

func init() {
	vfHarnesses["C20_waitqueue"] = vfH_C20_waitqueue
	vfHarnesses["C20_holdqueue"] = vfH_C20_holdqueue
}

type vfWEnt struct {
	l    *Lock
	prio uint8
}

func vfNewWaiter(i int, prio uint8) *Lock {
	c := &protocol.LockCommand{}
	c.LockId[0], c.LockId[1] = byte(i), byte(i>>8)
	if prio > 0 {
		c.TimeoutFlag, c.Rcount = protocol.TIMEOUT_FLAG_RCOUNT_IS_PRIORITY, prio
	}
	return &Lock{command: c, ackCount: 0xff, refCount: 100, locked: 0}
}

func vfStableInsert(model []vfWEnt, e vfWEnt) []vfWEnt {
	at := len(model)
	for i := range model {
		if model[i].prio < e.prio {
			at = i
			break
		}
	}
	model = append(model, vfWEnt{})
	copy(model[at+1:], model[at:])
	model[at] = e
	return model
}

func vfH_C20_waitqueue() {
	prioMode := vfChoice("ctorPriority", 2) == 1
	q := NewLockManagerWaitQueue(prioMode)
	var model []vfWEnt
	next := 0
	push := func(p uint8) {
		l := vfNewWaiter(next, p)
		next++
		q.Push(l)
		if prioMode {
			model = vfStableInsert(model, vfWEnt{l, p})
		} else {
			model = append(model, vfWEnt{l, p})
		}
	}
	// entries already answered (timeouted) stay in the queue until the implementation chooses to drop
	// them (compaction in Push, or when they reach the head): the model keeps them, and the
	// comparison is over the live entries
	dropLeadingDead := func() {
		for len(model) > 0 && model[0].l.timeouted {
			model = model[1:]
		}
	}
	pop := func() {
		r := q.Pop()
		for r != nil && r.timeouted {
			found := false
			for i := range model {
				if !model[i].l.timeouted {
					break
				}
				if model[i].l == r {
					found = true
				}
			}
			vfAssert(found, "wait queue: Pop returned an answered entry that is not in front of the first live one")
			r = q.Pop()
		}
		dropLeadingDead()
		if len(model) == 0 {
			vfAssert(r == nil, "wait queue: Pop on empty returned an element")
		} else {
			vfAssert(r == model[0].l, "wait queue: Pop returned the wrong element")
			model = model[1:]
		}
	}
	N := [6]int{0, 7, 8, 9, 150, 300}[vfChoice("fill", 6)]
	for i := 0; i < N; i++ {
		push(0)
	}
	// the long fills (each path re-executes them) take two of the four pre-pop counts and two of the three hole variants
	P := 0
	if N >= 150 {
		P = [2]int{0, 5}[vfChoice("prepop", 2)]
	} else {
		P = [4]int{0, 1, 5, N}[vfChoice("prepop", 4)]
	}
	for i := 0; i < P && i < N; i++ {
		pop()
	}
	if !prioMode && len(model) > 0 {
		// one queued request has been answered meanwhile (timed out / cancelled): first, middle or none
		nh := 3
		if N >= 150 {
			nh = 2
		}
		switch vfChoice("hole", nh) {
		case 1:
			model[len(model)/2].l.timeouted = true
		case 2:
			model[0].l.timeouted = true
		}
	}
	live := func() []*Lock {
		var out []*Lock
		for _, e := range model {
			if !e.l.timeouted {
				out = append(out, e.l)
			}
		}
		return out
	}
	for step := 0; step < 4; step++ {
		switch vfChoice(vfName("op", step), 6) {
		case 0:
			push(0)
		case 1:
			push(1)
		case 2:
			pop()
		case 5:
			// Reset (the key's manager is recycled): empty, back to arrival-order mode
			q.Reset()
			model = nil
			prioMode = false
		case 3:
			h := q.Head()
			lv := live()
			if len(model) == 0 {
				vfAssert(h == nil, "wait queue: Head on empty returned an element")
			} else if h != nil && !h.timeouted {
				vfAssert(len(lv) > 0 && h == lv[0], "wait queue: Head returned the wrong element")
			} else if h == nil {
				vfAssert(len(lv) == 0, "wait queue: Head is empty although live entries are queued")
			}
			var got []*Lock
			for _, n := range q.IterNodes() {
				for _, l := range n {
					if l != nil && !l.timeouted {
						got = append(got, l)
					}
				}
			}
			vfAssert(len(got) == len(lv), "wait queue: iteration yields a different number of elements")
			for i := range got {
				if i < len(lv) {
					vfAssert(got[i] == lv[i], "wait queue: iteration yields the wrong element or order")
				}
			}
		case 4:
			// AddWaitLock does this when a waiter with a different priority arrives
			if !prioMode {
				q.RePushPriorityRingQueue()
				prioMode = true
				var sorted []vfWEnt
				for _, e := range model {
					sorted = vfStableInsert(sorted, e)
				}
				model = sorted
			}
		}
		vfAssert(q.Len() >= len(live()) && q.Len() <= len(model), "wait queue: Len disagrees with the model")
	}
	for len(live()) > 0 {
		pop()
	}
	for r := q.Pop(); r != nil; r = q.Pop() {
		vfAssert(r.timeouted, "wait queue: not empty at the end")
	}
	vfReach("end")
}

func vfH_C20_holdqueue() {
	q := NewLockManagerLockQueue()
	var model []*Lock // live (locked > 0) entries in order
	next := 0
	push := func() {
		l := vfNewWaiter(next, 0)
		l.locked = 1
		next++
		q.Push(l)
		model = append(model, l)
	}
	// popLive pops until a live entry appears (released entries may or may not have been dropped)
	popLive := func() *Lock {
		for guard := 0; guard < 400; guard++ {
			r := q.Pop()
			if r == nil || r.locked > 0 {
				return r
			}
		}
		return nil
	}
	N := [6]int{0, 5, 6, 7, 140, 300}[vfChoice("fill", 6)]
	for i := 0; i < N; i++ {
		push()
	}
	// some are popped before the program starts: none, one, or enough to drain the inline slice while
	// the scale queue (if the fill reached it) still holds entries
	P := 0
	if N >= 140 {
		P = [4]int{0, 1, 130, 280}[vfChoice("prepop", 4)]
	} else if N > 0 {
		// the short fills: nothing popped, all but one, or all of them (the inline slice fully drained)
		P = [3]int{0, N - 1, N}[vfChoice("prepop", 3)]
	}
	for i := 0; i < P && len(model) > 0; i++ {
		r := popLive()
		vfAssert(r == model[0], "holder queue: the first live entry popped is the wrong one")
		model = model[1:]
	}
	for step := 0; step < 4; step++ {
		switch vfChoice(vfName("op", step), 5) {
		case 0:
			push()
		case 1:
			r := popLive()
			if len(model) == 0 {
				vfAssert(r == nil, "holder queue: Pop on a queue without live entries returned one")
			} else {
				vfAssert(r == model[0], "holder queue: the first live entry popped is the wrong one")
				model = model[1:]
			}
		case 2:
			// release an entry in place (first, middle or last): it stays as a dead entry until dropped
			if len(model) > 0 {
				i := [3]int{0, len(model) / 2, len(model) - 1}[vfChoice(vfName("rel", step), 3)]
				model[i].locked = 0
				q.RemoveLock(model[i].command)
				model = append(append([]*Lock(nil), model[:i]...), model[i+1:]...)
			}
		case 3:
			var got []*Lock
			for i := range q.IterNodes() {
				for _, l := range q.IterNodeQueues(int32(i)) {
					if l != nil && l.locked > 0 {
						got = append(got, l)
					}
				}
			}
			vfAssert(len(got) == len(model), "holder queue: iteration yields a different number of live entries")
			for i := range got {
				if i < len(model) {
					vfAssert(got[i] == model[i], "holder queue: iteration yields the wrong live entry or order")
				}
			}
		case 4:
			// lookup by lock id: every live entry is found, a released one is not
			if len(model) > 0 {
				i := [3]int{0, len(model) / 2, len(model) - 1}[vfChoice(vfName("get", step), 3)]
				vfAssert(q.GetLock(model[i].command) == model[i], "holder queue: GetLock does not find a live entry by its lock id")
			}
		}
	}
	for len(model) > 0 {
		r := popLive()
		vfAssert(r == model[0], "holder queue: drain: wrong live entry")
		model = model[1:]
	}
	vfAssert(popLive() == nil, "holder queue: live entries left at the end")
	vfReach("end")
}
