package server

// C18_anon: a connection that never announced a client id (no INIT; every text connection is
// one) leaves a queued request and closes.  Another connection C announces ANY client id
// (16 symbolic bytes).  The grant that comes later was addressed to a connection that announced
// nothing, so no other connection "announced the same client id": it must be dropped, never
// delivered to C.

import (
	"github.com/snower/slock/protocol"
)

func init() { vfHarnesses["C18_anon"] = vfH_C18_anon }

func vfH_C18_anon() {
	env := vfNewEnv(1)
	connA, connC := &vfConn{}, &vfConn{}
	a := NewBinaryServerProtocol(env.slock, NewStream(connA))
	c := NewBinaryServerProtocol(env.slock, NewStream(connC))
	key := vfKey(1)
	h := env.newCmd(protocol.COMMAND_LOCK, key, vfLockId(1))
	h.Expried, h.ExpriedFlag = 0xffff, 0x4200
	env.lock(0, h)
	q := env.newCmd(protocol.COMMAND_LOCK, key, vfLockId(2))
	q.Timeout, q.Expried, q.ExpriedFlag = 100, 0xffff, 0x4200
	_ = a.ProcessCommad(q) // queued; A never sent INIT
	_ = a.Close()
	idC := vfArr16("idC")
	_ = c.ProcessCommad(protocol.NewInitCommand(idC))
	nb := len(connC.written)
	u := env.newCmd(protocol.COMMAND_UNLOCK, key, vfLockId(1))
	env.unlock(0, u)
	got := connC.written[nb:]
	vfAssert(len(vfHolders(env.manager(key))) == 1, "C18: the request left queued by the closed connection was not granted")
	vfAssert(len(got) == 0, "C18: a reply for a connection that never announced a client id was delivered to an unrelated client")
	for _, r := range env.replies {
		vfAssert(r.reqId != q.RequestId, "C18: the reply went to an unrelated client")
	}
	_ = c.Close()
	vfAssert(len(env.slock.clients) == 0, "C18: an entry of the client table outlived every connection (leak)")
	vfReach("end")
}
