package server

// C16_rotate: the log keeps growing while a compaction runs.  History as in C16_whole (append.aof.1
// complete, append.aof.2 current, with or without a record in it).  The compaction has chosen its inputs
// and opened rewrite.aof.tmp when the harness — from the executor's schedule point at the compaction's
// time.Now() — lets the server go on: a new hold is persisted, the log is rotated (what PushLock does at
// the size threshold; rewriteAofFiles is already running, so the compaction it asks for is a no-op) and
// optionally another hold is persisted into the new current file.  The compaction then finishes.
// A restart afterwards must recover exactly the holds that are live (all of them are persisted).
// Executor only (the schedule point does not exist natively).

import (
	"github.com/snower/slock/protocol"
)

func init() { vfHarnesses["C16_rotate"] = vfH_C16_rotate }

func vfH_C16_rotate() {
	dir := vfFSDir()
	env := vfC16History(dir, vfChoice("third", 2) == 1)
	when := vfChoice("when", 3) // 0: nothing happens meanwhile; 1: hold + rotation; 2: hold + rotation + hold
	ran := false
	persist := func(k uint8) {
		c := env.newCmd(protocol.COMMAND_LOCK, vfKey(k), vfLockId(k))
		c.Expried, c.ExpriedFlag, c.Count = 0xffff, 0x4100, 0
		env.lock(0, c)
		vfDrainAof(env.db)
		env.slock.aof.Flush()
	}
	if when > 0 {
		vfClockHook(func() {
			ran = true
			persist(1) // key 1 was released in the history: a new hold on it
			env.slock.aof.aofGlock.Lock()
			_ = env.slock.aof.RewriteAofFile(false)
			env.slock.aof.aofGlock.Unlock()
			if when == 2 {
				c := env.newCmd(protocol.COMMAND_UNLOCK, vfKey(2), vfLockId(2))
				env.unlock(0, c)
				vfDrainAof(env.db)
				env.slock.aof.Flush()
			}
			vfDropSpawned()
		})
	}
	env.slock.aof.rewriteAofFiles()
	vfAssert(when == 0 || ran, "C16: harness: the compaction never reached its schedule point")
	// what is live now (every hold is persisted at once)
	var live vfRecovered
	for k := uint8(1); k <= 4; k++ {
		for _, l := range vfHolders(env.manager(vfKey(k))) {
			if live.n < 6 {
				live.keys[live.n], live.ids[live.n], live.depth[live.n] = l.command.LockKey, l.command.LockId, l.locked
				live.vals[live.n] = string(env.manager(vfKey(k)).GetLockData())
				live.n++
			}
		}
	}
	after, ok := vfRecover(dir)
	vfAssert(ok, "C16: recovery from the directory a compaction left behind fails")
	vfAssert(vfSameRecovered(live, after), "C16: after a compaction during which the log grew and rotated, a restart does not recover the live persisted holds")
	if when > 0 {
		vfReach("rotated")
	}
	vfReach("end")
}
