package server

// C07_shared: the persistence flags of EVERY holder of a shared key.  Holder A then holder B take
// a key of capacity 5, each with its own persistence timing (default / persist-immediately 0x0100 /
// never-persist 0x0200); 0 or 2 seconds pass (the configured delay is 1 s); the persistence queue
// drains; the instance restarts at once on the same directory.  Per holder: a persist-immediately
// hold and a default hold older than the delay are restored, a never-persist hold is not.

import (
	"github.com/snower/slock/protocol"
)

func init() { vfHarnesses["C07_shared"] = vfH_C07_shared }

func vfH_C07_shared() {
	dir := vfFSDir()
	env := vfNewEnv(1)
	vfSetDBTime(env.db, vfBaseTime)
	vfOpenAof(env, dir)
	key := vfKey(1)
	flags := [3]uint16{0, 0x0100, 0x0200}
	fa, fb := flags[vfChoice("aofA", 3)], flags[vfChoice("aofB", 3)]
	a := env.newCmd(protocol.COMMAND_LOCK, key, vfLockId(1))
	a.Expried, a.ExpriedFlag, a.Count = 1000, fa, 5
	env.lock(0, a)
	b := env.newCmd(protocol.COMMAND_LOCK, key, vfLockId(2))
	b.Expried, b.ExpriedFlag, b.Count = 1000, fb, 5
	env.lock(0, b)
	m := env.manager(key)
	vfAssert(m != nil && len(vfHolders(m)) == 2, "C07: harness: two holders expected")
	age := int64(2 * vfChoice("age", 2))
	if age > 0 {
		vfTick(env, age)
	}
	vfDrainAof(env.db)
	env.slock.aof.aofFile.Flush()
	t2 := env.db.currentTime
	env2 := vfNewEnv(1)
	vfSetDBTime(env2.db, t2)
	aof2 := env2.slock.aof
	aof2.dataDir = dir
	err, _ := aof2.LoadAofFiles([]string{"append.aof.1"}, t2, func(filename string, aofFile *AofFile, lock *AofLock, firstLock bool) (bool, error) {
		e := aof2.LoadLock(lock)
		vfDrainAof(env2.db)
		return true, e
	})
	vfAssert(err == nil, "C07: loading the log fails")
	vfDrainAof(env2.db)
	rest := vfHeldOf(env2.manager(key))
	has := func(id uint8) bool {
		for _, r := range rest {
			if r.lockId == vfLockId(id) {
				return true
			}
		}
		return false
	}
	check := func(id uint8, f uint16, who string) {
		switch {
		case f == 0x0200:
			vfAssert(!has(id), "C07: a hold taken with the never-persist flag was restored ("+who+" holder of a shared key)")
		case f == 0x0100:
			vfAssert(has(id), "C07: a hold taken with the persist-immediately flag was not restored ("+who+" holder of a shared key)")
		case age >= 2:
			vfAssert(has(id), "C07: a hold older than the persistence delay was not restored ("+who+" holder of a shared key)")
		}
	}
	check(1, fa, "first")
	check(2, fb, "later")
	vfAssert(len(rest) <= 2, "C07: a restart produced a hold that did not exist")
	vfReach("end")
}
