package server

// C06_msupdate: an update (update-when-locked flag) of a hold that sits in the millisecond wheel
// restarts its period like any successful update.  A hold of E ms (below 3 s) granted at t0 is
// updated at r = E/2 ms either with the same millisecond terms (Count changed so that the update
// is not an ignorable no-op) or with a seconds expiry of 10 s; the sweeper of the ORIGINAL slot
// runs at E ms: the hold must survive it and end, exactly once, within [r + E', r + E' + 2 s].
// No native replay (the millisecond sweepers are sleeping goroutines natively).

import (
	"github.com/snower/slock/protocol"
)

func init() { vfHarnesses["C06_msupdate"] = vfH_C06_msupdate }

func vfH_C06_msupdate() {
	env := vfNewEnv(2)
	t0 := vfBaseTime
	vfSetDBTime(env.db, t0)
	vfSetClockMs(t0, 0)
	vfDropSpawned()
	key := vfKey(1)
	E := [2]uint16{1500, 2999}[vfChoice("E", 2)]
	a := env.newCmd(protocol.COMMAND_LOCK, key, vfLockId(1))
	a.Expried, a.ExpriedFlag = E, protocol.EXPRIED_FLAG_MILLISECOND_TIME|0x0200
	areq := a.RequestId
	env.lock(0, a)
	vfAssert(vfCountResult(env.replies, areq, protocol.RESULT_SUCCED) == 1, "C06: harness: lock not granted")
	h := vfHolders(env.manager(key))[0]
	r := int64(E) / 2
	vfSetClockMs(t0, r)
	toSeconds := vfChoice("toSeconds", 2) == 1
	u := env.newCmd(protocol.COMMAND_LOCK, key, vfLockId(1))
	u.Flag = protocol.LOCK_FLAG_UPDATE_WHEN_LOCKED
	u.Count = 1
	newMs := int64(E)
	if toSeconds {
		u.Expried, u.ExpriedFlag = 10, 0x0200
		newMs = 10000
	} else {
		u.Expried, u.ExpriedFlag = E, protocol.EXPRIED_FLAG_MILLISECOND_TIME|0x0200
	}
	ureq := u.RequestId
	n := len(env.replies)
	env.lock(0, u)
	vfAssert(len(env.replies) == n+1 && env.replies[n].result == protocol.RESULT_LOCKED_ERROR, "C06: harness: the update was not answered as an update")
	vfAssert(h.command.Count == 1, "C06: harness: the update was not applied")
	vfReach("updated")
	expired := func() int {
		return vfCountResult(env.replies, areq, protocol.RESULT_EXPRIED) + vfCountResult(env.replies, ureq, protocol.RESULT_EXPRIED)
	}
	due := r + newMs
	next := 0
	ended := int64(-1)
	note := func(at int64) {
		if ended < 0 && expired() > 0 {
			ended = at
		}
	}
	vfSetClockMs(t0, int64(E))
	next = vfRunSweepersUpTo(next, 1) // the sweeper of the original slot
	note(int64(E))
	ranNew := false
	secs := (due+2000)/1000 + 1
	for s := int64(1); s <= secs; s++ {
		if !ranNew && due <= s*1000 {
			vfSetClockMs(t0, due)
			next = vfRunSweepers(next)
			ranNew = true
			note(due)
		}
		if s*1000 > int64(E) {
			vfSetClockMs(t0, s*1000)
			vfTick(env, 1)
			note(s * 1000)
		} else {
			env.db.currentTime++
		}
	}
	vfAssert(expired() == 1, "C06: an updated millisecond hold did not end with exactly one EXPRIED")
	vfAssert(ended >= due, "C06: a millisecond hold was ended before E had passed since its last successful update")
	vfAssert(ended <= due+2000, "C06: an updated millisecond hold ended more than 2 s after its deadline")
	vfReach("end")
}
