package server

import (
	"github.com/snower/slock/protocol"
	"github.com/snower/slock/protocol/protobuf"
	"google.golang.org/protobuf/proto"
)

// C12 (kernel): election safety at one acceptor.  The real acceptor functions
// (ArbiterMember.DoSelfProposal / DoSelfCommit — the same rules as the remote
// handlers commandHandleProposalCommand / commandHandleCommitCommand) run on an
// arbiter manager of three members with symbolic log positions and an arbitrary
// voter state.

func init() {
	vfHarnesses["C12_acceptor"] = vfH_C12_acceptor
	vfHarnesses["C12_single"] = vfH_C12_single
	vfHarnesses["C12_single7"] = vfH_C12_single7
	vfHarnesses["C12_restart"] = vfH_C12_restart
	vfHarnesses["C12_compare"] = vfH_C12_compare
}

func vfAofId(name string) [16]byte {
	// (file index, offset, command time) with a non-zero file index
	id := vfArr16(name)
	return id
}

func vfArbiter(symbolicLogs bool) (*vfEnv, *ArbiterManager) {
	env := vfNewEnv(0)
	m := NewArbiterManager(env.slock, "rs")
	env.slock.arbiterManager = m
	hosts := [3]string{"A", "B", "C"}
	for i, h := range hosts {
		mem := NewArbiterMember(m, h, 1, 0)
		mem.role = ARBITER_ROLE_FOLLOWER
		mem.status = ARBITER_MEMBER_STATUS_ONLINE
		mem.client = NewArbiterClient(mem) // unconnected: an announcement attempt just fails
		if symbolicLogs {
			mem.aofId = vfAofId(vfName("log", i))
		}
		m.members = append(m.members, mem)
	}
	m.ownMember = m.members[0]
	m.ownMember.isSelf = true
	if symbolicLogs {
		env.slock.replicationManager.currentAofId = m.ownMember.aofId
	}
	return env, m
}

func vfHostChoice(name string) string {
	return [4]string{"A", "B", "C", "Z"}[vfChoice(name, 4)]
}

func vfH_C12_acceptor() {
	_, m := vfArbiter(true)
	v := m.voter
	v.proposalId, v.commitId = vfU64("proposalId"), vfU64("commitId")
	if vfChoice("pending", 2) == 1 {
		v.proposalHost = "B"
	}
	// optionally a leader is online, or the proposed member is offline
	if vfChoice("leaderOnline", 2) == 1 {
		m.members[2].role = ARBITER_ROLE_LEADER
	}
	if vfChoice("proposedOffline", 2) == 1 {
		m.members[1].status = ARBITER_MEMBER_STATUS_OFFLINE
	}
	p0, c0, h0 := v.proposalId, v.commitId, v.proposalHost
	id := vfU64("id")
	host := vfHostChoice("host")
	if vfChoice("kind", 2) == 0 {
		aofId := vfAofId("aof")
		_, err := m.ownMember.DoSelfProposal(id, host, aofId)
		if err == nil {
			vfReach("proposal-accepted")
			vfAssert(id > p0 && id > c0, "C12: a proposal was accepted whose number is not above the accepted and committed numbers")
			vfAssert(h0 == "", "C12: a proposal was accepted while a commit is outstanding")
			vfAssert(m.CompareAofId(m.GetCurrentAofID(), aofId) <= 0, "C12: a member accepted a proposal although its own log is newer")
			for _, mem := range m.members {
				vfAssert(m.CompareAofId(mem.aofId, aofId) <= 0, "C12: a proposal was accepted although a known member's log is newer")
				vfAssert(!(mem.role == ARBITER_ROLE_LEADER && mem.status == ARBITER_MEMBER_STATUS_ONLINE), "C12: a proposal was accepted while a leader is online")
			}
			vfAssert(host != "Z", "C12: a proposal for an unknown host was accepted")
			vfAssert(v.proposalId == id && v.commitId == c0 && v.proposalHost == h0, "C12: accepting a proposal changed more than the accepted number")
		} else {
			vfAssert(v.proposalId == p0 && v.commitId == c0 && v.proposalHost == h0, "C12: a rejected proposal changed the acceptor's state")
		}
	} else {
		_, err := m.ownMember.DoSelfCommit(id, host)
		if err == nil {
			vfReach("commit-accepted")
			vfAssert(id == p0, "C12: a commit was accepted for a number other than the accepted proposal")
			vfAssert(id > c0, "C12: a commit was accepted twice (or below the committed number)")
			vfAssert(v.commitId == id && v.proposalHost == host, "C12: accepting a commit did not record it")
		} else {
			vfAssert(v.proposalId == p0 && v.commitId == c0 && v.proposalHost == h0, "C12: a rejected commit changed the acceptor's state")
		}
	}
	vfAssert(v.proposalId >= p0 && v.commitId >= c0, "C12: an accepted or committed number decreased")
	vfReach("end")
}

// vfDeliver: one message of candidacy k (1 or 2) to the acceptor.
func vfDeliver(m *ArbiterManager, commit bool, id uint64, host string, aofId [16]byte) bool {
	if commit {
		_, err := m.ownMember.DoSelfCommit(id, host)
		return err == nil
	}
	_, err := m.ownMember.DoSelfProposal(id, host, aofId)
	return err == nil
}

// C12_single: two overlapping candidacies with different numbers, any order of at most 5
// deliveries (messages may be lost or duplicated), no announcement in between: the acceptor
// never accepts both commits.
var vfC12Deliveries = 5

func vfH_C12_single()  { vfC12Deliveries = 5; vfC12Single() }
func vfH_C12_single7() { vfC12Deliveries = 7; vfC12Single() }

func vfC12Single() {
	_, m := vfArbiter(false)
	v := m.voter
	v.proposalId, v.commitId = vfU64("proposalId"), vfU64("commitId")
	p1, p2 := vfU64("p1"), vfU64("p2")
	vfAssume(p1 != p2)
	var aofId [16]byte
	c1, c2 := false, false
	for step := 0; step < vfC12Deliveries; step++ {
		switch vfChoice(vfName("msg", step), 4) {
		case 0:
			vfDeliver(m, false, p1, "B", aofId)
		case 1:
			if vfDeliver(m, true, p1, "B", aofId) {
				c1 = true
			}
		case 2:
			vfDeliver(m, false, p2, "C", aofId)
		case 3:
			if vfDeliver(m, true, p2, "C", aofId) {
				c2 = true
			}
		}
		vfAssert(!(c1 && c2), "C12: one acceptor accepted the commits of two overlapping candidacies")
	}
	if c1 || c2 {
		vfReach("one-commit")
	}
	vfReach("end")
}

// C12_restart: the acceptor restarts from its saved metadata between the two candidacies.
// Nothing the acceptor functions do is persisted (no file-system mutation), so the restart
// brings back the state Load derives from what was saved before: committed number as saved,
// accepted number = committed number, no outstanding commit.
func vfH_C12_restart() {
	_, m := vfArbiter(false)
	v := m.voter
	saved := vfU64("savedCommitId")
	v.commitId, v.proposalId, v.proposalHost = saved, saved, ""
	p1, p2 := vfU64("p1"), vfU64("p2")
	vfAssume(p1 != p2)
	var aofId [16]byte
	fs0 := vfFSMutations()
	ok1 := vfDeliver(m, false, p1, "B", aofId) && vfDeliver(m, true, p1, "B", aofId)
	vfAssume(ok1)
	persisted := vfFSMutations() != fs0
	// restart from saved metadata (ArbiterManager.Load: proposalId := commitId, proposalHost := "")
	if !persisted {
		v.commitId, v.proposalId, v.proposalHost, v.proposalFromHost = saved, saved, "", ""
	}
	ok2 := vfDeliver(m, false, p2, "C", aofId) && vfDeliver(m, true, p2, "C", aofId)
	vfAssert(!ok2, "C12: after a restart from its saved metadata a member accepted the commit of a second candidacy (the accepted commit is not persisted)")
	vfReach("end")
}

// C12_compare: the log-position order is antisymmetric and irreflexive on positions whose file
// indices are within 2^31 of each other.
func vfH_C12_compare() {
	_, m := vfArbiter(false)
	a, b := vfAofId("a"), vfAofId("b")
	ab, ba := m.CompareAofId(a, b), m.CompareAofId(b, a)
	if a == b {
		vfAssert(ab == 0 && ba == 0, "C12: equal log positions do not compare equal")
		return
	}
	vfAssert(ab != 0 && ba != 0, "C12: different log positions compare equal")
	same := true
	for i := 0; i < 8; i++ {
		if a[i] != b[i] {
			same = false
		}
	}
	if !same {
		vfAssert(ab == -ba, "C12: the log-position order is not antisymmetric")
	}
	vfReach("end")
}

// ---------------------------------------------------------------------------
// The remote acceptor handlers (REPL_PROPOSAL / REPL_COMMIT as received from another
// member; protobuf payloads go through the executor's Marshal/Unmarshal stub and through
// the real protobuf natively).

func init() {
	vfHarnesses["C12_remote"] = vfH_C12_remote
	vfHarnesses["C12_remote_single"] = vfH_C12_remote_single
}

// vfRemote: the acceptor A receives calls from member B over B's server-side protocol object.
func vfRemote(env *vfEnv, m *ArbiterManager) *BinaryServerProtocol {
	bp := NewBinaryServerProtocol(env.slock, NewStream(&vfConn{}))
	m.members[1].server = NewArbiterServer(bp)
	return bp
}

func vfRemoteProposal(m *ArbiterManager, bp *BinaryServerProtocol, id uint64, host string, aofId [16]byte) bool {
	req := protobuf.ArbiterProposalRequest{ProposalId: id, AofId: m.EncodeAofId(aofId), Host: host}
	data, err := proto.Marshal(&req)
	if err != nil {
		vfFail("C12: harness: cannot marshal")
	}
	res, _ := m.commandHandleProposalCommand(bp, protocol.NewCallCommand("REPL_PROPOSAL", data))
	return res != nil && res.Result == 0 && res.ErrType == ""
}

func vfRemoteCommit(m *ArbiterManager, bp *BinaryServerProtocol, id uint64, host string, aofId [16]byte) bool {
	req := protobuf.ArbiterCommitRequest{ProposalId: id, AofId: m.EncodeAofId(aofId), Host: host}
	data, err := proto.Marshal(&req)
	if err != nil {
		vfFail("C12: harness: cannot marshal")
	}
	res, _ := m.commandHandleCommitCommand(bp, protocol.NewCallCommand("REPL_COMMIT", data))
	return res != nil && res.Result == 0 && res.ErrType == ""
}

// C12_remote: one proposal or commit delivered through the remote handler; same rules as the self path.
func vfH_C12_remote() {
	env, m := vfArbiter(false)
	bp := vfRemote(env, m)
	v := m.voter
	v.proposalId, v.commitId = vfU64("proposalId"), vfU64("commitId")
	if vfChoice("pending", 2) == 1 {
		v.proposalHost = "B"
	}
	p0, c0, h0 := v.proposalId, v.commitId, v.proposalHost
	id := vfU64("id")
	host := vfHostChoice("host")
	var aofId [16]byte
	if vfChoice("kind", 2) == 0 {
		if vfRemoteProposal(m, bp, id, host, aofId) {
			vfReach("proposal-accepted")
			vfAssert(id > p0 && id > c0, "C12: (remote) a proposal was accepted whose number is not above the accepted and committed numbers")
			vfAssert(h0 == "", "C12: (remote) a proposal was accepted while a commit is outstanding")
			vfAssert(host != "Z", "C12: (remote) a proposal for an unknown host was accepted")
			vfAssert(v.proposalId == id && v.commitId == c0, "C12: (remote) accepting a proposal changed more than the accepted number")
		} else {
			vfAssert(v.proposalId == p0 && v.commitId == c0 && v.proposalHost == h0, "C12: (remote) a rejected proposal changed the acceptor's state")
		}
	} else {
		if vfRemoteCommit(m, bp, id, host, aofId) {
			vfReach("commit-accepted")
			vfAssert(id == p0, "C12: (remote) a commit was accepted for a number other than the accepted proposal")
			vfAssert(id > c0, "C12: (remote) a commit was accepted twice (or below the committed number)")
			vfAssert(v.commitId == id && v.proposalHost == host, "C12: (remote) accepting a commit did not record it")
		} else {
			vfAssert(v.proposalId == p0 && v.commitId == c0 && v.proposalHost == h0, "C12: (remote) a rejected commit changed the acceptor's state")
		}
	}
	vfAssert(v.proposalId >= p0 && v.commitId >= c0, "C12: (remote) an accepted or committed number decreased")
	vfReach("end")
}

// C12_remote_single: C12_single through the remote handlers.
func vfH_C12_remote_single() {
	env, m := vfArbiter(false)
	bp := vfRemote(env, m)
	v := m.voter
	v.proposalId, v.commitId = vfU64("proposalId"), vfU64("commitId")
	p1, p2 := vfU64("p1"), vfU64("p2")
	vfAssume(p1 != p2)
	var aofId [16]byte
	c1, c2 := false, false
	for step := 0; step < 4; step++ {
		switch vfChoice(vfName("msg", step), 4) {
		case 0:
			vfRemoteProposal(m, bp, p1, "B", aofId)
		case 1:
			if vfRemoteCommit(m, bp, p1, "B", aofId) {
				c1 = true
			}
		case 2:
			vfRemoteProposal(m, bp, p2, "C", aofId)
		case 3:
			if vfRemoteCommit(m, bp, p2, "C", aofId) {
				c2 = true
			}
		}
		vfAssert(!(c1 && c2), "C12: (remote) one acceptor accepted the commits of two overlapping candidacies")
	}
	vfReach("end")
}
