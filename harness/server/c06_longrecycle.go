package server

import "github.com/snower/slock/protocol"

// C06_longrecycle: per-second buckets of the long-expiry table that are emptied by unlocks, handed
// back to the shard's free list and taken again for another deadline.  Every program of 6 events
// out of {a new hold on a fresh key with E = 8 s, the same with E = 14 s (zero persistence delay:
// such holds are filed in the long table at once), release the oldest live hold, release the newest
// live hold, let 2 s pass}, then the clock runs second by second until every deadline is 3 s past.
// No hold may draw EXPRIED (or disappear) before its E has passed, each one that was not released
// draws exactly one by E + 2 s, and a released one never does.

func init() { vfHarnesses["C06_longrecycle"] = vfH_C06_longrecycle }

func vfH_C06_longrecycle() {
	env := vfNewEnv(1)
	vfSetDBTime(env.db, vfBaseTime)
	type hold struct {
		key, lid, req [16]byte
		start, e      int
		released      bool
		relAt         int
	}
	var holds []*hold
	now := 0
	check := func() {
		for _, h := range holds {
			nex := vfCountResult(env.replies, h.req, protocol.RESULT_EXPRIED)
			if h.released {
				vfAssert(nex == 0, "C06: a hold that was released before its deadline drew an EXPRIED notice")
				continue
			}
			m := env.manager(h.key)
			live := m != nil && len(vfHolders(m)) == 1
			if now <= h.start+h.e {
				vfAssert(nex == 0 && live, "C06: a hold in the long-expiry table ended before its expiry had passed")
			} else if now >= h.start+h.e+2 {
				vfAssert(nex == 1 && !live, "C06: a hold in the long-expiry table did not end within 2 s of its deadline")
			}
			vfAssert(nex <= 1, "C06: more than one EXPRIED notice for one hold")
		}
	}
	tick := func(n int) {
		for i := 0; i < n; i++ {
			vfTick(env, 1)
			now++
			check()
		}
	}
	for step := 0; step < 6; step++ {
		switch vfChoice(vfName("ev", step), 5) {
		case 0, 1:
			e := 8
			if vfChoice(vfName("ev", step), 5) == 1 {
				e = 14
			}
			h := &hold{key: vfKey(uint8(10 + len(holds))), lid: vfLockId(uint8(10 + len(holds))), start: now, e: e}
			c := env.newCmd(protocol.COMMAND_LOCK, h.key, h.lid)
			c.Expried, c.ExpriedFlag = uint16(e), 0x0100
			h.req = c.RequestId
			env.lock(0, c)
			m := env.manager(h.key)
			vfAssert(m != nil && len(vfHolders(m)) == 1 && vfHolders(m)[0].longWaitIndex > 0, "C06: harness: the hold is not in the long-expiry table")
			holds = append(holds, h)
		case 2, 3:
			var pick *hold
			for _, h := range holds {
				if !h.released && now <= h.start+h.e-1 {
					if pick == nil || vfChoice(vfName("ev", step), 5) == 3 {
						pick = h
					}
				}
			}
			if pick == nil {
				return
			}
			n0 := len(env.replies)
			env.unlock(0, env.newCmd(protocol.COMMAND_UNLOCK, pick.key, pick.lid))
			vfAssert(len(env.replies) == n0+1 && env.replies[n0].result == protocol.RESULT_SUCCED, "C06: the release of a live hold was refused")
			pick.released, pick.relAt = true, now
			vfReach("released")
		case 4:
			tick(2)
		}
	}
	last := 0
	for _, h := range holds {
		if h.start+h.e > last {
			last = h.start + h.e
		}
	}
	for now < last+3 {
		tick(1)
	}
	vfAssert(env.db.states[0].LockedCount == 0, "C06: holds are still counted after every deadline has passed")
	vfReach("end")
}
