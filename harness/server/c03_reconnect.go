package server

import "github.com/snower/slock/protocol"

// C03_reconnect: the terminal reply of a request whose connection is gone by the time it is decided,
// while the SAME client (client id X) is connected again.  Connection A announces X and queues 1..2
// requests; the client's new connection B announces X before or after the server closes A (a client
// that reconnects faster than the server notices the old connection's end closes A LAST); optionally
// B is in turn replaced by C the same way.  Then each queued request ends — granted, timed out, or
// cancelled from the live connection.  Its one terminal reply, under its own RequestId, arrives on the
// connection that speaks for X at that moment: exactly once, and nowhere else.

func init() { vfHarnesses["C03_reconnect"] = vfH_C03_reconnect }

func vfCountReplies(buf []byte, reqId [16]byte) int {
	n := 0
	for off := 0; off+64 <= len(buf); off += 64 {
		same := true
		for i := 0; i < 16; i++ {
			if buf[off+3+i] != reqId[i] {
				same = false
			}
		}
		if same {
			n++
		}
	}
	return n
}

func vfH_C03_reconnect() {
	env := vfNewEnv(1)
	vfSetDBTime(env.db, vfBaseTime)
	var cid [16]byte
	cid[0], cid[15] = 'X', 1
	N := 1 + vfChoice("n", 2)
	connA := &vfConn{}
	pa := NewBinaryServerProtocol(env.slock, NewStream(connA))
	_ = pa.ProcessCommad(protocol.NewInitCommand(cid))
	var reqs [][16]byte
	for i := 0; i < N; i++ {
		k := vfKey(uint8(10 + i))
		h := env.newCmd(protocol.COMMAND_LOCK, k, vfLockId(uint8(100+i)))
		h.Expried, h.ExpriedFlag = 0xffff, 0x4200
		env.lock(0, h)
		q := env.newCmd(protocol.COMMAND_LOCK, k, vfLockId(uint8(10+i)))
		q.Timeout, q.Expried, q.ExpriedFlag = uint16(5+40*i), 0xffff, 0x4200
		_ = pa.ProcessCommad(q)
		reqs = append(reqs, q.RequestId)
	}
	// the hand-over from one connection of X to the next, the old one closed before or after the new one's INIT
	conns := []*vfConn{connA}
	old := pa
	hops := 1 + vfChoice("hops", 2)
	var live *BinaryServerProtocol
	for h := 0; h < hops; h++ {
		c := &vfConn{}
		p := NewBinaryServerProtocol(env.slock, NewStream(c))
		if vfChoice(vfName("closeLast", h), 2) == 1 {
			_ = p.ProcessCommad(protocol.NewInitCommand(cid))
			_ = old.Close()
			vfReach("close-after-init")
		} else {
			_ = old.Close()
			_ = p.ProcessCommad(protocol.NewInitCommand(cid))
		}
		conns = append(conns, c)
		old, live = p, p
	}
	liveConn := conns[len(conns)-1]
	for i := 0; i < N; i++ {
		switch vfChoice(vfName("end", i), 3) {
		case 0:
			env.unlock(0, env.newCmd(protocol.COMMAND_UNLOCK, vfKey(uint8(10+i)), vfLockId(uint8(100+i))))
			vfAssert(vfCountNotices(liveConn.written, reqs[i], protocol.RESULT_SUCCED) == 1, "C03: the grant of a request queued on the client's earlier connection was not delivered to the connection that speaks for that client now")
		case 1:
			u := env.newCmd(protocol.COMMAND_UNLOCK, vfKey(uint8(10+i)), vfLockId(uint8(10+i)))
			u.Flag = protocol.UNLOCK_FLAG_CANCEL_WAIT_LOCK_WHEN_UNLOCKED
			_ = live.ProcessCommad(u)
			vfAssert(vfCountReplies(liveConn.written, u.RequestId) == 1, "C03: the cancelling UNLOCK was not answered exactly once")
		case 2:
			vfTick(env, int64(8+40*i))
			vfAssert(vfCountNotices(liveConn.written, reqs[i], protocol.RESULT_TIMEOUT) == 1, "C03: the TIMEOUT of a request queued on the client's earlier connection was not delivered to the connection that speaks for that client now")
		}
	}
	for i := 0; i < N; i++ {
		vfAssert(vfCountReplies(liveConn.written, reqs[i]) == 1, "C03: a request queued on the client's earlier connection did not get exactly one terminal reply on the connection that speaks for that client now")
		for j := 0; j+1 < len(conns); j++ {
			vfAssert(vfCountReplies(conns[j].written, reqs[i]) == 0, "C03: a terminal reply was written to a connection that had been closed")
		}
	}
	vfReach("end")
}
