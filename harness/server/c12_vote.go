package server

// C12_vote: the candidate's choice.  The real ArbiterVoter.DoVote runs over three members;
// the remote members' answers (ArbiterClient.Request is redirected to vfStub_ArbiterClient_Request
// by the executor; goroutines started by DoRequests run inline) carry symbolic log positions,
// weights and arbiter flags, and any of them may be lost.  If DoVote succeeds, the member it
// proposes is a data-bearing member of non-zero weight among those that answered, no such
// answering member has a newer log, and ties go to the larger weight, then the larger host.
// No native replay (natively Request needs a connection).

import (
	"errors"

	"github.com/snower/slock/protocol"
	"github.com/snower/slock/protocol/protobuf"
	"google.golang.org/protobuf/proto"
)

func init() { vfHarnesses["C12_vote"] = vfH_C12_vote }

type vfVoteAnswer struct {
	lost    bool
	weight  uint32
	arbiter uint32
	aofId   [16]byte
}

var vfVoteAnswers map[string]*vfVoteAnswer
var vfVoteMgr *ArbiterManager

func vfStub_ArbiterClient_Request(c *ArbiterClient, command *protocol.CallCommand) (*protocol.CallResultCommand, error) {
	if command.MethodName == "REPL_PROPOSAL" || command.MethodName == "REPL_COMMIT" {
		return vfCandidateRequest(c, command)
	}
	a := vfVoteAnswers[c.member.host]
	if a == nil || a.lost || command.MethodName != "REPL_VOTE" {
		return nil, errors.New("lost")
	}
	resp := protobuf.ArbiterVoteResponse{Host: c.member.host, Weight: a.weight, Arbiter: a.arbiter, AofId: vfVoteMgr.EncodeAofId(a.aofId), Role: uint32(ARBITER_ROLE_FOLLOWER)}
	data, err := proto.Marshal(&resp)
	if err != nil {
		return nil, err
	}
	return protocol.NewCallResultCommand(command, 0, "", data), nil
}

// vfSmallAofId: a log position with a symbolic low byte of the file index/offset word and a symbolic
// low byte of the command time (the position travels as 32 hex characters and back; wrap-around of
// the order is C12_compare's subject).
func vfSmallAofId(name string) [16]byte {
	var id [16]byte
	id[4], id[8] = vfU8(name+".pos"), vfU8(name+".time")
	return id
}

func vfH_C12_vote() {
	env, m := vfArbiter(false)
	vfVoteMgr = m
	vfVoteAnswers = map[string]*vfVoteAnswer{}
	hosts := [3]string{"A", "B", "C"}
	var ans [3]*vfVoteAnswer
	for i, h := range hosts {
		a := &vfVoteAnswer{weight: uint32(vfChoice(vfName("weight", i), 3)), arbiter: uint32(vfChoice(vfName("arbiter", i), 2)), aofId: vfSmallAofId(vfName("log", i))}
		if i > 0 {
			a.lost = vfChoice(vfName("lost", i), 2) == 1
		}
		ans[i] = a
		vfVoteAnswers[h] = a
		m.members[i].weight, m.members[i].arbiter = a.weight, a.arbiter
	}
	// the candidate's own answer comes from its own state
	vfAssume(ans[0].arbiter == 0) // an arbiter's own log position is derived from the others (GetCurrentAofID): data node here
	m.ownMember.aofId = ans[0].aofId
	env.slock.replicationManager.currentAofId = ans[0].aofId
	vfGoInline(true)
	err := m.voter.DoVote()
	vfGoInline(false)
	answered := 0
	for _, a := range ans {
		if !a.lost {
			answered++
		}
	}
	eligible := func(a *vfVoteAnswer) bool { return !a.lost && a.arbiter == 0 && a.weight != 0 }
	anyEligible := false
	for _, a := range ans {
		if eligible(a) {
			anyEligible = true
		}
	}
	if err != nil {
		vfAssert(answered < 2 || !anyEligible, "C12: DoVote failed although a majority answered and a data-bearing member of non-zero weight is among them")
		vfReach("vote-failed")
		return
	}
	vfAssert(answered >= 2, "C12: DoVote succeeded without a majority of answers")
	sel := -1
	for i, h := range hosts {
		if m.voter.voteHost == h {
			sel = i
		}
	}
	vfAssert(sel >= 0, "C12: DoVote proposes a host that is not a member")
	vfAssert(eligible(ans[sel]), "C12: DoVote proposes an arbiter, a weight-0 member or a member that did not answer")
	vfAssert(m.voter.voteAofId == ans[sel].aofId, "C12: the proposed log position is not the proposed member's")
	for i, a := range ans {
		if i == sel || !eligible(a) {
			continue
		}
		c := m.CompareAofId(a.aofId, ans[sel].aofId)
		vfAssert(c <= 0, "C12: an answering data-bearing member holds a newer log than the member proposed")
		if a.aofId == ans[sel].aofId {
			vfAssert(a.weight <= ans[sel].weight, "C12: among equal logs the proposed member does not have the largest weight")
			if a.weight == ans[sel].weight {
				vfAssert(hosts[i] < hosts[sel], "C12: among equal logs and weights the proposed member is not the one with the largest host")
			}
		}
	}
	vfReach("end")
}
