package server

// C13_calllist: the CALL methods LIST_LOCK / LIST_LOCKED / LIST_WAIT take a protobuf request whose
// db_id is a 32-bit number chosen by the client; the server has 256 database slots.  Any db_id
// (and any 0..17-byte lock_key) must earn a result, never a crash.  The request goes through the
// real handlers registered by BinaryServerProtocol.FindCallMethod; the protobuf encoding is real
// natively and passed through by the executor's Marshal / Unmarshal stub.

import (
	"github.com/snower/slock/protocol"
	"github.com/snower/slock/protocol/protobuf"
	"google.golang.org/protobuf/proto"
)

func init() { vfHarnesses["C13_calllist"] = vfH_C13_calllist }

func vfH_C13_calllist() {
	env := vfNewEnv(1)
	bp := NewBinaryServerProtocol(env.slock, NewStream(&vfConn{}))
	// something to list
	h := env.newCmd(protocol.COMMAND_LOCK, vfKey(1), vfLockId(1))
	h.Expried, h.ExpriedFlag = 100, 0x0200
	env.lock(0, h)
	// db_id: 0..3 one by one, or any 32-bit value from 200 up (the executor enumerates the in-range
	// slots a symbolic index can hit; 4..199 behave like 200..255 and are left out)
	var dbid uint32
	if vfChoice("dbclass", 2) == 0 {
		dbid = uint32(vfRange("dbsmall", 0, 3))
	} else {
		dbid = vfU32("dbid")
		vfAssume(dbid >= 200)
	}
	var data []byte
	var err error
	var res *protocol.CallResultCommand
	switch vfChoice("method", 3) {
	case 0:
		data, err = proto.Marshal(&protobuf.LockDBListLockRequest{DbId: dbid})
		vfAssume(err == nil)
		res, err = bp.commandHandleListLockCommand(bp, protocol.NewCallCommand("LIST_LOCK", data))
	case 1:
		key := vfKey(1)
		data, err = proto.Marshal(&protobuf.LockDBListLockedRequest{DbId: dbid, LockKey: key[:vfRange("keylen", 0, 16)]})
		vfAssume(err == nil)
		res, err = bp.commandHandleListLockedCommand(bp, protocol.NewCallCommand("LIST_LOCKED", data))
	default:
		key := vfKey(1)
		data, err = proto.Marshal(&protobuf.LockDBListWaitRequest{DbId: dbid, LockKey: key[:vfRange("keylen", 0, 16)]})
		vfAssume(err == nil)
		res, err = bp.commandHandleListWaitCommand(bp, protocol.NewCallCommand("LIST_WAIT", data))
	}
	vfAssert(res != nil || err != nil, "C13: a LIST call earned neither a result nor an error")
	if dbid != 0 {
		vfAssert(res == nil || res.Result != protocol.RESULT_SUCCED, "C13: a LIST call for a database that does not exist was answered SUCCED")
	}
	vfReach("end")
}
