package server

// C08_bufcut: as C08_cut, with the log reader's buffer (Config.AofFileBufferSize, 4096 by
// default) set to 100 bytes (NewAofFile rounds it down to 64) so that every record straddles the end of the read buffer already in a
// 3-record log (with the default size the 64th record does: 12 + 63*64 = 4044 .. 4108).  A cut
// inside the straddling record leaves its first part in the buffer and a short remainder in
// the file.

func init() { vfHarnesses["C08_bufcut"] = vfH_C08_bufcut }

func vfH_C08_bufcut() {
	env := vfNewEnv(0)
	Config.AofFileBufferSize = 100
	aof := env.slock.aof
	aof.dataDir = vfFSDir()
	full := vfAofHeader()
	var recs [][]byte
	for i := 0; i < 3; i++ {
		r := vfAofRecord(vfName("rec", i))
		recs = append(recs, r)
		full = append(full, r...)
	}
	cut := vfRange("cut", 0, len(full))
	vfFSWrite(aof.dataDir+"/append.aof.1", full[:cut])
	vfFSWrite(aof.dataDir+"/append.aof.1.dat", nil)
	err, got := vfLoadAll(aof, []string{"append.aof.1"})
	Config.AofFileBufferSize = 4096
	vfAssert(err == nil, "C08: loading a log cut inside a record that straddles the read buffer fails (the next start does not succeed)")
	whole := 0
	if cut >= 12 {
		whole = (cut - 12) / 64
	}
	vfAssert(len(got) == whole, "C08: the number of records recovered is not the number of complete records before the cut")
	for i := range got {
		if i < len(recs) {
			for j := 0; j < 64; j++ {
				vfAssert(got[i][j] == recs[i][j], "C08: a recovered record differs from the record that was written (reconstructed from partial bytes)")
			}
		}
	}
	vfReach("end")
}
