package server

// C16_startup: compaction "at start-up".  Aof.LoadAndInit replays the log into the databases through
// their persistence channels (one worker goroutine per channel, created lazily while the log is read),
// waits for the channels to drain (WaitFlushAofChannel) and then starts the start-up compaction, which
// keeps a record only if its hold EXISTS in the database.  The log of a leader with holds in two
// databases (so two channels); the harness is the scheduler: whenever the starting thread blocks, ONE
// more channel worker gets to run (database 0 first, or database 1 first) until it blocks in turn; the
// compaction goroutine LoadAndInit starts runs right after LoadAndInit returns; the remaining workers
// after that.  A second restart must recover every hold the log held.  Executor only.

import (
	"github.com/snower/slock/protocol"
)

func init() { vfHarnesses["C16_startup"] = vfH_C16_startup }

func vfH_C16_startup() {
	dir := vfFSDir()
	env := vfNewEnv(1)
	vfSetDBTime(env.db, vfBaseTime)
	vfSetClock(vfBaseTime, 0)
	vfOpenAof(env, dir)
	db1 := env.slock.GetOrNewDB(1)
	vfSetDBTime(db1, vfBaseTime)
	vfDropSpawned()
	for i, db := range [2]*LockDB{env.db, db1} {
		c := env.newCmd(protocol.COMMAND_LOCK, vfKey(uint8(1+i)), vfLockId(uint8(1+i)))
		c.DbId, c.Expried, c.ExpriedFlag = uint8(i), 0xffff, 0x4100
		_ = db.Lock(env.protos[0], c, 0)
		vfDrainAof(db)
	}
	env.slock.aof.Flush()
	env.slock.aof.aofGlock.Lock()
	_ = env.slock.aof.RewriteAofFile(false)
	env.slock.aof.aofGlock.Unlock()
	vfDropSpawned()

	// the restart: a fresh process on that directory
	env2 := vfNewEnv(0)
	vfSetClock(vfBaseTime+1, 0)
	vfDropSpawned()
	vfNoBackground = false // the channel workers do their work when the harness lets them run
	Config.DataDir = dir
	aof := env2.slock.aof
	first := vfChoice("firstWorker", 2)
	ran := [2]bool{}
	worker := func(w int) bool {
		db := env2.slock.dbs[w]
		if db == nil || ran[w] {
			return false
		}
		ran[w] = true
		ch := db.aofChannels[0]
		vfRunToBlock(func() { ch.Run() })
		return true
	}
	vfBlockHook(func() bool {
		// one more worker per call: the starting thread goes on as soon as it can
		if worker(first) {
			return true
		}
		return worker(1 - first)
	})
	err := aof.LoadAndInit()
	vfAssert(err == nil, "C16: the start fails")
	vfBlockHook(func() bool { return false })
	// the start-up compaction LoadAndInit has started, then whatever workers have not run yet
	n := vfSpawnCount()
	for i := 0; i < n; i++ {
		vfRunSpawnedToBlock(i)
	}
	worker(first)
	worker(1 - first)
	vfNoBackground = true
	held := 0
	for w := 0; w < 2; w++ {
		if db := env2.slock.dbs[w]; db != nil {
			c := &protocol.LockCommand{LockKey: vfKey(uint8(1 + w))}
			if m := db.GetLockManager(c); m != nil {
				held += len(vfHolders(m))
			}
		}
	}
	vfAssert(held == 2, "C16: harness: the restarted instance does not hold both holds in the end")
	vfReach("restarted")
	// the second restart
	env3 := vfNewEnv(0)
	vfSetDBTime(env3.db, vfBaseTime+2)
	aof3 := env3.slock.aof
	aof3.dataDir = dir
	appendFiles, rewriteFile, ferr := aof3.FindAofFiles()
	vfAssert(ferr == nil, "C16: the directory cannot be listed")
	var files []string
	if rewriteFile != "" {
		files = append(files, rewriteFile)
	}
	files = append(files, appendFiles...)
	lerr, _ := aof3.LoadAofFiles(files, vfBaseTime+2, func(filename string, aofFile *AofFile, lock *AofLock, firstLock bool) (bool, error) {
		e := aof3.LoadLock(lock)
		for _, d := range env3.slock.dbs {
			if d != nil {
				vfDrainAof(d)
			}
		}
		return true, e
	})
	vfAssert(lerr == nil, "C16: recovery after the start-up compaction fails")
	for w := 0; w < 2; w++ {
		n := 0
		if db := env3.slock.dbs[w]; db != nil {
			c := &protocol.LockCommand{LockKey: vfKey(uint8(1 + w))}
			if m := db.GetLockManager(c); m != nil {
				n = len(vfHolders(m))
			}
		}
		vfAssert(n == 1, "C16: a hold that was live and persisted is lost after a restart, its start-up compaction and another restart (the compaction ran before the log's replay had reached the database)")
	}
	vfReach("end")
}
