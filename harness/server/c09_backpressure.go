package server

// C09_backpressure: the follower's receive pool against its three pipeline stages, one schedule
// family.  ReplicationClient.Process reads every record of the live stream into the next of its
// 256 receive buffers and hands the SAME buffer to the replay, append and re-publish stages through
// three bounded queues; a buffer may be filled again only when every stage is done with it, which
// the queues' back-pressure has to guarantee.  The harness plays the scheduler from inside the
// connection's Read (the stage goroutines Process starts are recorded by the executor, not run):
// two stages keep up; the third takes one record in hand after `after` records and then stalls until
// its queue is full, when it resumes.  Every stage must see exactly the records the leader sent, in
// order, with the content they were sent with.  Executor only (natively the real stage goroutines
// would race the harness for the queues).

import (
	"io"
	"net"
	"time"

	"github.com/snower/slock/client"
	"github.com/snower/slock/protocol"
)

func init() { vfHarnesses["C09_backpressure"] = vfH_C09_backpressure }

type vfStallConn struct {
	rc      *ReplicationClient
	stalled int
	after   int
	total   int
	n       int
	held    *AofLock
	heldSeq uint32
	resumed bool
	next    [3]uint32 // next sequence number each stage expects
	rec     *AofLock
}

func (c *vfStallConn) queue(i int) chan *AofLock {
	switch i {
	case 0:
		return c.rc.replayQueue
	case 1:
		return c.rc.aofQueue
	}
	return c.rc.pushQueue
}

func (c *vfStallConn) take(i int) {
	it := <-c.queue(i)
	vfAssert(it != nil, "C09: a pipeline stage was told to stop in the middle of the stream")
	if it == nil {
		return
	}
	vfAssert(it.AofOffset == c.next[i], "C09: a pipeline stage of the follower did not get the leader's records one by one in order (skipped, duplicated or overwritten)")
	c.next[i]++
}

func (c *vfStallConn) Read(b []byte) (int, error) {
	for i := 0; i < 3; i++ {
		q := c.queue(i)
		if i == c.stalled && c.n > c.after && !c.resumed {
			if c.held == nil && len(q) > 0 {
				c.held = <-q
				c.heldSeq = c.next[i]
				c.next[i]++
				vfAssert(c.held != nil && c.held.AofOffset == c.heldSeq, "C09: a pipeline stage of the follower did not get the leader's records one by one in order (skipped, duplicated or overwritten)")
			}
			if len(q) == cap(q) {
				// the stage finishes the record it has in hand and catches up
				vfReach("stalled-full")
				vfAssert(c.held != nil && c.held.AofOffset == c.heldSeq, "C09: the record a stalled pipeline stage holds was overwritten by a later one (receive buffer reused too early)")
				c.resumed = true
				for len(q) > 0 {
					c.take(i)
				}
			}
			continue
		}
		for len(q) > 0 {
			c.take(i)
		}
	}
	if c.n >= c.total {
		return 0, io.EOF
	}
	c.rec.AofIndex, c.rec.AofOffset = 1, uint32(c.n)
	if c.rec.Encode() != nil {
		vfFail("C09: harness: cannot encode a record")
	}
	c.n++
	return copy(b, c.rec.buf), nil
}
func (c *vfStallConn) Write(b []byte) (int, error)        { return len(b), nil }
func (c *vfStallConn) Close() error                       { return nil }
func (c *vfStallConn) LocalAddr() net.Addr                { return vfTAddr{} }
func (c *vfStallConn) RemoteAddr() net.Addr               { return vfTAddr{} }
func (c *vfStallConn) SetDeadline(t time.Time) error      { return nil }
func (c *vfStallConn) SetReadDeadline(t time.Time) error  { return nil }
func (c *vfStallConn) SetWriteDeadline(t time.Time) error { return nil }

func vfH_C09_backpressure() {
	env := vfNewEnv(1)
	env.slock.state = STATE_FOLLOWER
	env.db.status = STATE_FOLLOWER
	rc := NewReplicationClient(env.slock.replicationManager)
	rec := NewAofLock()
	rec.CommandType = protocol.COMMAND_LOCK
	rec.LockKey, rec.LockId = vfKey(1), vfLockId(1)
	conn := &vfStallConn{rc: rc, rec: rec, total: 700}
	conn.stalled = vfChoice("stage", 3)
	conn.after = [3]int{0, 100, 250}[vfChoice("after", 3)]
	rc.stream = client.NewStream(conn)
	rc.protocol = client.NewBinaryClientProtocol(rc.stream)
	_ = rc.Process()
	for i := 0; i < 3; i++ {
		q := conn.queue(i)
		for len(q) > 1 {
			conn.take(i)
		}
		vfAssert(len(q) == 1 && <-q == nil, "C09: a pipeline stage was not told that the stream ended")
		vfAssert(conn.next[i] == uint32(conn.total), "C09: a pipeline stage did not get every record of the stream")
	}
	vfAssert(conn.resumed, "C09: harness: the stalled stage's queue never filled")
	vfReach("end")
}
