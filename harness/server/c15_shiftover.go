package server

// C15_shiftover: SHIFT by more than the value holds.  A key's value of 1..3 bytes (with or
// without a property block) is shifted by n = len+1 .. len+12 bytes (past the value, past the
// frame header, past the whole stored frame): as a sequential interpreter removing "up to n bytes
// from the front" the register is left with the empty value, the reply carries the value from
// before, and a following APPEND builds on the empty value.

import (
	"github.com/snower/slock/protocol"
)

func init() { vfHarnesses["C15_shiftover"] = vfH_C15_shiftover }

func vfH_C15_shiftover() {
	env := vfNewEnv(1)
	key := vfKey(1)
	b := vfBytes("v", vfRange("n", 1, 3))
	c := env.newCmd(protocol.COMMAND_LOCK, key, vfLockId(1))
	c.Flag, c.Count, c.Expried, c.ExpriedFlag = protocol.LOCK_FLAG_CONTAINS_DATA, 0xffff, 100, 0x0200
	if vfChoice("props", 2) == 1 {
		c.Data = protocol.NewLockCommandDataSetDataWithProperty(b, []*protocol.LockCommandDataProperty{protocol.NewLockCommandDataProperty(protocol.LOCK_DATA_PROPERTY_CODE_KEY, []byte("k1"))})
	} else {
		c.Data = protocol.NewLockCommandDataSetData(b)
	}
	env.lock(0, c)
	cur := vfValue{kind: vfVBytes, b: b}
	over := vfRange("over", 1, 12)
	s := env.newCmd(protocol.COMMAND_LOCK, key, vfLockId(2))
	s.Flag, s.Count, s.Expried, s.ExpriedFlag = protocol.LOCK_FLAG_CONTAINS_DATA, 0xffff, 100, 0x0200
	s.Data = protocol.NewLockCommandDataShiftData(uint32(len(b) + over))
	n := len(env.replies)
	env.lock(0, s)
	vfAssert(len(env.replies) == n+1 && env.replies[n].result == protocol.RESULT_SUCCED, "C15: a lock carrying SHIFT was not granted")
	r := env.replies[n]
	var before []byte
	if r.hasData {
		before = r.data
	}
	vfAssert(vfDecodeMatches(before, cur), "C15: the reply does not carry the value from immediately before the operation")
	m := env.manager(key)
	vfAssert(m != nil && vfDecodeMatches(m.GetLockData(), vfValue{kind: vfVBytes, b: []byte{}}), "C15: SHIFT beyond the value's length does not leave the empty value")
	// the register goes on from the empty value
	a := env.newCmd(protocol.COMMAND_LOCK, key, vfLockId(3))
	a.Flag, a.Count, a.Expried, a.ExpriedFlag = protocol.LOCK_FLAG_CONTAINS_DATA, 0xffff, 100, 0x0200
	w := vfBytes("w", 2)
	a.Data = protocol.NewLockCommandDataAppendData(w)
	env.lock(0, a)
	vfAssert(vfDecodeMatches(env.manager(key).GetLockData(), vfValue{kind: vfVBytes, b: w}), "C15: APPEND after a SHIFT beyond the length does not build on the empty value")
	vfReach("end")
}
