package server

// C12_remote_newer: "members whose own log is newer refuse it", through the remote REPL_PROPOSAL
// handler.  The acceptor is a data-bearing member (weight 0, 1 or 2) or an arbiter; its CURRENT log
// position (ReplicationManager.currentAofId, what GetCurrentAofID reports) is chosen by forks,
// independent of the stale (zero) position recorded in its own member entry and in the other
// members' entries; the proposal's position is chosen by forks too.  If the proposal is accepted,
// the acceptor is an arbiter or its current log is not newer than the proposal's.

func init() { vfHarnesses["C12_remote_newer"] = vfH_C12_remote_newer }

// vfPos: a log position (file index 1..2, record offset 1 or 5) in the layout of AofLock.GetAofId.
// Positions are chosen by forks, not symbolic bytes: the proposal's position travels as a hex
// string (EncodeAofId / DecodeAofId), which is costly to decide for symbolic bytes; the order
// itself is checked over symbolic positions in C12_compare and C12_logorder.
func vfPos(name string) [16]byte {
	l := NewAofLock()
	l.AofIndex = uint32(1 + vfChoice(name+".index", 2))
	l.AofOffset = uint32(1 + 4*vfChoice(name+".offset", 2))
	l.CommandTime = 7
	return l.GetAofId()
}

func vfH_C12_remote_newer() {
	env, m := vfArbiter(false)
	bp := vfRemote(env, m)
	cur := vfPos("cur")
	env.slock.replicationManager.currentAofId = cur
	m.ownMember.weight = uint32(vfChoice("weight", 3))
	m.ownMember.arbiter = uint32(vfChoice("arbiter", 2))
	// what the acceptor last heard of member C's log, and whether C is reachable at the moment: a member that is
	// known to hold a newer log makes the proposal unacceptable whether or not it can be reached right now
	m.members[2].aofId = vfPos("peer")
	if vfChoice("peerOffline", 2) == 1 {
		m.members[2].status = ARBITER_MEMBER_STATUS_OFFLINE
	}
	v := m.voter
	v.proposalId, v.commitId = 4, 4
	aofId := vfPos("aof")
	if vfRemoteProposal(m, bp, 5, "B", aofId) {
		vfReach("accepted")
		vfAssert(m.ownMember.arbiter != 0 || m.CompareAofId(cur, aofId) <= 0, "C12: (remote) a data-bearing member accepted a proposal although its own log is newer")
		for _, mem := range m.members {
			vfAssert(m.CompareAofId(mem.aofId, aofId) <= 0, "C12: (remote) a proposal was accepted although a known member's log is newer")
		}
	} else {
		vfAssert(v.proposalId == 4 && v.commitId == 4 && v.proposalHost == "", "C12: (remote) a rejected proposal changed the acceptor's state")
	}
	vfReach("end")
}
