package server

// C20_longwait: the bucket queue of the long-wait / long-expiry tables under its maintenance
// operation.  A LongWaitLockQueue with a scaled-down geometry (base 1, 4 node slots, first node of
// 2 entries; the server uses 4 / 64 / 256) goes through c cycles of: push p entries (several
// nodes), remove all but the last r of them (as grants and cancels do), the real
// LockDB.restructuringLongTimeOutQueue / ...ExpriedQueue, pop what is left; finally Reset (what
// returning the bucket to the free list does).  After every step the queue holds exactly the
// model's entries in order, and no step may index outside the node table.

func init() { vfHarnesses["C20_longwait"] = vfH_C20_longwait }

func vfH_C20_longwait() {
	env := vfNewEnv(0)
	q := NewLongWaitLockQueue(1, 4, 2, 0, vfBaseTime+100)
	expiry := vfChoice("table", 2) == 1
	cycles := vfRange("cycles", 1, 6)
	p := [3]int{3, 7, 13}[vfChoice("pushed", 3)]
	keep := vfChoice("kept", 2) // 0 or 1 entries survive the removals
	toks := make([]*Lock, 16)
	for i := range toks {
		toks[i] = &Lock{}
	}
	for c := 0; c < cycles; c++ {
		var model []*Lock
		for i := 0; i < p; i++ {
			vfAssert(q.Push(toks[i]) == nil, "long-wait queue: Push failed")
			model = append(model, toks[i])
		}
		for i := 0; i < p-keep; i++ {
			q.Remove(toks[i])
		}
		model = model[p-keep:]
		// keep the bucket registered so that the restructuring's "empty: give it back" branch finds it
		if expiry {
			env.db.longExpriedLocks[0][q.lockTime] = q
			env.db.restructuringLongExpriedQueue(q)
		} else {
			env.db.longTimeoutLocks[0][q.lockTime] = q
			env.db.restructuringLongTimeOutQueue(q)
		}
		if q.lockCount < 0 {
			// it was empty and went back to the free list (Reset has run): take it into use again
			q.lockCount, q.freeCount = 0, 0
		}
		vfAssert(int(q.Len()) == len(model), "long-wait queue: Len disagrees with the model after restructuring")
		for len(model) > 0 {
			l := q.Pop()
			vfAssert(l == model[0], "long-wait queue: Pop after restructuring returned the wrong entry")
			model = model[1:]
		}
		vfAssert(q.Pop() == nil, "long-wait queue: not empty after its entries were popped")
	}
	vfAssert(q.locks.Reset() == nil, "long-wait queue: Reset failed")
	vfAssert(q.locks.nodeIndex < int32(len(q.locks.queues)), "long-wait queue: the node counter points outside the node table")
	vfReach("end")
}
