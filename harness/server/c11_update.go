package server

// C11_update: an UPDATE of a held lock (update-when-locked flag) that carries a value operation
// and the require-ack flag.  The hold was taken with SET v1 and acknowledged.  The update carries
// SET v2; its acknowledgement fails (negative follower ack).  "Any value change it made is
// undone": the key's value is v1 again; the requester gets exactly one reply, not SUCCED.

import (
	"github.com/snower/slock/protocol"
)

func init() { vfHarnesses["C11_update"] = vfH_C11_update }

func vfH_C11_update() {
	dir := vfFSDir()
	env := vfNewEnv(2)
	vfSetDBTime(env.db, vfBaseTime)
	vfOpenAof(env, dir)
	Config.AofAckMode = 0
	rm := env.slock.replicationManager
	rm.serverChannels = append(rm.serverChannels, nil) // one follower
	key := vfKey(1)
	v1, v2 := vfBytes("v1", 2), vfBytes("v2", 2)
	c := env.newCmd(protocol.COMMAND_LOCK, key, vfLockId(1))
	c.Flag = protocol.LOCK_FLAG_CONTAINS_DATA
	c.TimeoutFlag = protocol.TIMEOUT_FLAG_REQUIRE_ACKED
	c.Timeout, c.Expried, c.Count = 5, 20, 0
	c.Data = protocol.NewLockCommandDataSetData(v1)
	req := c.RequestId
	env.lock(0, c)
	vfDrainAof(env.db)
	ackdb := rm.GetAckDB(0)
	vfAssert(ackdb != nil, "C11: harness: no ack DB")
	aofId, registered := ackdb.commandAofs[0][req]
	vfAssert(registered, "C11: harness: first record not registered")
	env.slock.aof.Flush()
	vfDrainAof(env.db)
	_ = env.slock.aof.loadLockAck(vfAckFrame(c, aofId, protocol.RESULT_SUCCED))
	vfDrainAof(env.db)
	vfAssert(vfCountResult(env.replies, req, protocol.RESULT_SUCCED) == 1, "C11: harness: the hold was not acknowledged")
	vfAssert(vfDecodeMatches(env.manager(key).GetLockData(), vfValue{kind: vfVBytes, b: v1}), "C11: harness: value v1 not stored")
	// the update
	u := env.newCmd(protocol.COMMAND_LOCK, key, vfLockId(1))
	u.Flag = protocol.LOCK_FLAG_CONTAINS_DATA | protocol.LOCK_FLAG_UPDATE_WHEN_LOCKED
	u.TimeoutFlag = protocol.TIMEOUT_FLAG_REQUIRE_ACKED
	u.Timeout, u.Expried, u.Count = 5, 30, 0
	u.Data = protocol.NewLockCommandDataSetData(v2)
	ureq := u.RequestId
	env.lock(0, u)
	vfDrainAof(env.db)
	if len(env.repliesFor(ureq)) != 0 {
		vfReach("answered-at-once") // not treated as ack-required at all: nothing to check here
		return
	}
	vfReach("update-pending")
	uAofId, ok := ackdb.commandAofs[0][ureq]
	vfAssert(ok, "C11: a pending ack-required update is not registered for acknowledgement")
	env.slock.aof.Flush()
	vfDrainAof(env.db)
	_ = env.slock.aof.loadLockAck(vfAckFrame(u, uAofId, protocol.RESULT_ERROR))
	vfDrainAof(env.db)
	rs := env.repliesFor(ureq)
	vfAssert(len(rs) == 1 && rs[0].result != protocol.RESULT_SUCCED, "C11: a negative acknowledgement of an update did not produce exactly one non-SUCCED reply")
	m := env.manager(key)
	vfAssert(m != nil && vfDecodeMatches(m.GetLockData(), vfValue{kind: vfVBytes, b: v1}), "C11: the value change of an update whose acknowledgement failed was not undone")
	vfReach("end")
}
