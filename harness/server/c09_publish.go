package server

// C09_publish: what the leader writes to its log is what it publishes to followers.  A program
// of 4 persisted operations (LOCK, LOCK carrying a value, re-entrant LOCK, UNLOCK, on two keys)
// runs through the real LockDB -> AofChannel -> Aof.PushLock -> AofFile + replication ring,
// with a rotation threshold of two records so that the log spans several files.  The records
// read back from the files (in file order) and the records a follower's cursor pops from the
// ring must be the same sequence: same bytes (so same ids, in ascending order), same values.

import (
	"io"

	"github.com/snower/slock/protocol"
)

func init() { vfHarnesses["C09_publish"] = vfH_C09_publish }

func vfH_C09_publish() {
	dir := vfFSDir()
	env := vfNewEnv(1)
	vfSetDBTime(env.db, vfBaseTime)
	vfOpenAof(env, dir)
	aof := env.slock.aof
	aof.rewriteSize = 12 + 64*2
	aof.isRewriting = true // keeps the rotation's background compaction job from starting: natively it would race with this harness
	held := [2]int{}
	for step := 0; step < 4; step++ {
		k := vfChoice(vfName("key", step), 2)
		key, id := vfKey(uint8(1+k)), vfLockId(uint8(1+k))
		switch vfChoice(vfName("op", step), 3) {
		case 0:
			c := env.newCmd(protocol.COMMAND_LOCK, key, id)
			c.Expried, c.ExpriedFlag, c.Rcount = 0xffff, 0x4100, 5
			env.lock(0, c)
			held[k]++
		case 1:
			c := env.newCmd(protocol.COMMAND_LOCK, key, id)
			c.Flag, c.Expried, c.ExpriedFlag, c.Rcount = protocol.LOCK_FLAG_CONTAINS_DATA, 0xffff, 0x4100, 5
			c.Data = protocol.NewLockCommandDataSetString(string(rune('a' + step)))
			env.lock(0, c)
			held[k]++
		case 2:
			if held[k] == 0 {
				continue
			}
			u := env.newCmd(protocol.COMMAND_UNLOCK, key, id)
			u.Rcount = 1
			env.unlock(0, u)
			held[k]--
		}
		vfDrainAof(env.db)
	}
	aof.Flush()
	vfDropSpawned()
	// the log, file by file
	appendFiles, rewriteFile, err := aof.FindAofFiles()
	vfAssert(err == nil && rewriteFile == "", "C09: harness: unexpected directory content")
	var fileRecs, fileVals [][]byte
	lerr, _ := aof.LoadAofFiles(appendFiles, 0, func(filename string, aofFile *AofFile, lock *AofLock, firstLock bool) (bool, error) {
		fileRecs = append(fileRecs, append([]byte(nil), lock.buf...))
		if lock.data != nil {
			fileVals = append(fileVals, append([]byte(nil), lock.data...))
		} else {
			fileVals = append(fileVals, nil)
		}
		return true, nil
	})
	vfAssert(lerr == nil, "C09: the leader's own log cannot be read back")
	// what a follower that joined at the very beginning is sent
	ring := env.slock.replicationManager.bufferQueue
	cur := NewReplicationBufferQueueCursor(make([]byte, 64))
	var ringRecs, ringVals [][]byte
	for guard := 0; guard < 16; guard++ {
		perr := ring.Pop(cur)
		if perr == io.EOF {
			break
		}
		vfAssert(perr == nil, "C09: the ring reported a gap to a follower that reads from its start")
		ringRecs = append(ringRecs, append([]byte(nil), cur.buf...))
		if cur.data != nil {
			ringVals = append(ringVals, append([]byte(nil), cur.data...))
		} else {
			ringVals = append(ringVals, nil)
		}
	}
	vfAssert(len(ringRecs) == len(fileRecs), "C09: the ring holds a different number of records than the log")
	for i := range fileRecs {
		if i >= len(ringRecs) {
			break
		}
		for j := 0; j < 64; j++ {
			vfAssert(ringRecs[i][j] == fileRecs[i][j], "C09: record published to followers differs from the record in the log (or the order differs)")
		}
		vfAssert((ringVals[i] == nil) == (fileVals[i] == nil) && len(ringVals[i]) == len(fileVals[i]), "C09: value published to followers differs from the value in the log")
		for j := range fileVals[i] {
			if j < len(ringVals[i]) {
				vfAssert(ringVals[i][j] == fileVals[i][j], "C09: value published to followers differs from the value in the log")
			}
		}
	}
	if len(appendFiles) > 1 {
		vfReach("rotated")
	}
	vfReach("end")
}
