package server

// C07: restart recovers exactly the persisted, still-live holds.
// One instance takes holds (real LockDB.Lock), its persistence queue is drained
// through the real AofChannel.Handle -> Aof.PushLock -> AofFile.WriteLock/Flush
// into the file model; a second, fresh instance started dt seconds later loads
// the directory through the real LoadAofFiles -> LoadLock -> HandleLoad ->
// LockDB.Lock(FROM_AOF).  Expiry E is symbolic (16 bit), so the deadline
// conversions (remaining time <-> deadline, minute rounding) are decided for
// every value.

import (
	"os"

	"github.com/snower/slock/protocol"
)

func init() {
	vfHarnesses["C07_restart"] = vfH_C07_restart
}

const vfBaseTime = int64(1700000000)

func vfSetDBTime(db *LockDB, t int64) {
	db.currentTime, db.checkTimeoutTime, db.checkExpriedTime = t, t, t
}

func vfOpenAof(env *vfEnv, dir string) {
	aof := env.slock.aof
	aof.dataDir = dir
	aof.rewriteSize = 1 << 30
	aof.aofFileIndex = 1
	f := NewAofFile(aof, dir+"/append.aof.1", os.O_WRONLY, 4096)
	if f.Open() != nil {
		vfFail("C07: cannot open the append file")
	}
	aof.aofFile = f
	aof.inited = true
}

func vfDrainAof(db *LockDB) {
	ch := db.aofChannels[0]
	for i := 0; i < 64; i++ {
		ch.queueGlock.Lock()
		l := ch.pullAofLock()
		ch.queueGlock.Unlock()
		if l == nil {
			return
		}
		ch.Handle(l)
	}
}

type vfHeldInfo struct {
	lockId   [16]byte
	count    uint16
	rcount   uint8
	depth    uint8
	deadline int64
	eflag    uint16
	isAof    bool
}

func vfHeldOf(m *LockManager) []vfHeldInfo {
	var out []vfHeldInfo
	for _, l := range vfHolders(m) {
		out = append(out, vfHeldInfo{l.command.LockId, l.command.Count, l.command.Rcount, l.locked, l.expriedTime, l.command.ExpriedFlag, l.isAof})
	}
	return out
}

func vfH_C07_restart() {
	dir := vfFSDir()
	env := vfNewEnv(1)
	vfSetDBTime(env.db, vfBaseTime)
	vfOpenAof(env, dir)
	key := vfKey(1)
	c := env.newCmd(protocol.COMMAND_LOCK, key, vfLockId(1))
	c.Expried = vfU16("E")
	// seconds / minute / unlimited; aof timing: default (after the configured delay), persist-immediately (0x0100), never (0x0200)
	c.ExpriedFlag = vfU16("eflag") & (0x0040 | 0x4000 | 0x0100 | 0x0200)
	c.Count = vfU16("count")
	c.Rcount = vfU8("rcount")
	vfAssume(c.Expried != 0)
	vfAssume(c.ExpriedFlag&0x0300 != 0x0300) // the two aof-timing flags contradict each other
	env.lock(0, c)
	m := env.manager(key)
	vfAssert(m != nil && len(vfHolders(m)) == 1, "C07: lock not granted on a free key")
	// re-entrant depth 1..2
	if vfChoice("relock", 2) == 1 {
		vfAssume(c.Rcount >= 1)
		r := env.newCmd(protocol.COMMAND_LOCK, key, vfLockId(1))
		r.Expried, r.ExpriedFlag, r.Count, r.Rcount = c.Expried, c.ExpriedFlag, c.Count, c.Rcount
		env.lock(0, r)
		vfAssert(vfHolders(m)[0].locked == 2, "C07: re-entrant lock refused")
	}
	// let the configured persistence delay (1 s) pass: two ticks of the real sweeps
	age := int64(vfChoice("age", 3))
	if age > 0 {
		vfTick(env, age)
	}
	vfDrainAof(env.db)
	env.slock.aof.aofFile.Flush()
	m = env.manager(key)
	orig := vfHeldOf(m)
	t1 := env.db.currentTime

	// ---- restart dt seconds later on the same directory
	dt := [5]int64{0, 1, 2, 61, 4000}[vfChoice("outage", 5)]
	t2 := t1 + dt
	env2 := vfNewEnv(1)
	vfSetDBTime(env2.db, t2)
	aof2 := env2.slock.aof
	aof2.dataDir = dir
	err, _ := aof2.LoadAofFiles([]string{"append.aof.1"}, t2, func(filename string, aofFile *AofFile, lock *AofLock, firstLock bool) (bool, error) {
		return true, aof2.LoadLock(lock)
	})
	vfAssert(err == nil, "C07: loading the log fails")
	vfDrainAof(env2.db)
	rest := vfHeldOf(env2.manager(key))

	vfAssert(len(rest) <= len(orig), "C07: a restart produced a hold that did not exist")
	if len(orig) == 0 {
		vfReach("expired-before-stop")
		return
	}
	o := orig[0]
	unit := int64(1)
	if o.eflag&0x0040 != 0 {
		unit = 60
	}
	unlimited := o.eflag&0x4000 != 0
	persisted := o.isAof
	if c.ExpriedFlag&0x0200 != 0 {
		vfAssert(!persisted, "C07: a hold taken with the never-persist flag was persisted")
	}
	if c.ExpriedFlag&0x0100 != 0 && c.ExpriedFlag&0x0200 == 0 {
		vfAssert(persisted, "C07: a hold taken with the persist-immediately flag was not persisted")
	}
	if age >= 2 && c.ExpriedFlag&0x0300 == 0 {
		vfAssert(persisted, "C07: a hold older than the persistence delay was not persisted")
	}
	if !persisted {
		vfReach("not-persisted")
		vfAssert(len(rest) == 0, "C07: a hold that was never persisted was restored")
		return
	}
	if len(rest) == 0 {
		vfReach("not-restored")
		// allowed only if it had (almost) run out: less than one unit plus a second left at restart
		vfAssert(!unlimited && o.deadline <= t2+unit+1, "C07: a persisted hold with time left was not restored")
		return
	}
	vfReach("restored")
	r := rest[0]
	vfAssert(unlimited || o.deadline > t2, "C07: a hold whose deadline had passed was restored (the outage renewed it)")
	vfAssert(r.lockId == o.lockId && r.count == o.count && r.rcount == o.rcount, "C07: restored hold differs in LockId / Count / Rcount")
	vfAssert(r.depth == o.depth, "C07: restored hold has a different re-entrant depth")
	if unlimited {
		vfAssert(r.deadline == 0x7fffffffffffffff, "C07: an unlimited hold came back with a deadline")
	} else {
		d := r.deadline - o.deadline
		if d < 0 {
			d = -d
		}
		vfAssert(d <= unit+1, "C07: restored hold's deadline differs from the original by more than one unit plus a second")
	}
	vfReach("end")
}

// C07_history: a history of lock / re-lock / partial unlock / full unlock on a re-entrant hold
// (persisted immediately) plus a plain hold on a second key; the instance is stopped after any
// prefix of the history and restarted: the restored holds (key, LockId, depth) must be exactly
// the live persisted ones.
func init() { vfHarnesses["C07_history"] = vfH_C07_history }

func vfH_C07_history() {
	dir := vfFSDir()
	env := vfNewEnv(1)
	vfSetDBTime(env.db, vfBaseTime)
	vfOpenAof(env, dir)
	k1, k2 := vfKey(1), vfKey(2)
	lockCmd := func(key [16]byte, id uint8) *protocol.LockCommand {
		c := env.newCmd(protocol.COMMAND_LOCK, key, vfLockId(id))
		c.Expried, c.ExpriedFlag, c.Count, c.Rcount = 1000, 0x0100, 0, 3
		return c
	}
	unlockCmd := func(key [16]byte, id uint8, rcount uint8) *protocol.LockCommand {
		c := env.newCmd(protocol.COMMAND_UNLOCK, key, vfLockId(id))
		c.Rcount = rcount
		return c
	}
	steps := vfRange("steps", 1, 6)
	// the order of the middle operations is a choice, so that several interleavings of the two keys are covered
	variant := vfChoice("variant", 2)
	for s := 0; s < steps; s++ {
		switch s {
		case 0:
			env.lock(0, lockCmd(k1, 1))
		case 1:
			env.lock(0, lockCmd(k1, 1)) // re-entrant: depth 2
		case 2:
			if variant == 0 {
				env.lock(0, lockCmd(k2, 2))
			} else {
				env.lock(0, lockCmd(k1, 1)) // depth 3
			}
		case 3:
			env.unlock(0, unlockCmd(k1, 1, 1)) // one level
		case 4:
			if variant == 0 {
				env.unlock(0, unlockCmd(k1, 1, 1))
			} else {
				env.unlock(0, unlockCmd(k1, 1, 0)) // all remaining levels
			}
		case 5:
			env.unlock(0, unlockCmd(k1, 1, 0))
		}
		vfDrainAof(env.db)
	}
	env.slock.aof.aofFile.Flush()
	type held struct {
		id    [16]byte
		depth uint8
	}
	live := func(e *vfEnv, key [16]byte) (held, bool) {
		hs := vfHolders(e.manager(key))
		if len(hs) == 0 {
			return held{}, false
		}
		return held{hs[0].command.LockId, hs[0].locked}, true
	}
	env2 := vfNewEnv(1)
	vfSetDBTime(env2.db, vfBaseTime+2)
	aof2 := env2.slock.aof
	aof2.dataDir = dir
	err, _ := aof2.LoadAofFiles([]string{"append.aof.1"}, vfBaseTime+2, func(filename string, aofFile *AofFile, lock *AofLock, firstLock bool) (bool, error) {
		return true, aof2.LoadLock(lock)
	})
	vfAssert(err == nil, "C07: loading the log fails")
	vfDrainAof(env2.db)
	for _, key := range [2][16]byte{k1, k2} {
		a, oka := live(env, key)
		b, okb := live(env2, key)
		vfAssert(oka == okb, "C07: a restart restored a hold that had been released, or lost one that was live and persisted")
		if oka && okb {
			vfAssert(a.id == b.id && a.depth == b.depth, "C07: a restored hold differs in LockId or re-entrant depth")
		}
	}
	vfReach("end")
}
