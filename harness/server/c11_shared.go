package server

// C11_shared: an ack-required lock on a key that already has a holder.  Holder A (Count 5) took
// the key with its own persistence timing (default / persist-immediately / never-persist); B
// then asks for the same key with the require-ack flag and default timing, one follower
// configured.  B must not be reported SUCCED before its record was written and acknowledged,
// whatever A's flags were.

import (
	"github.com/snower/slock/protocol"
)

func init() { vfHarnesses["C11_shared"] = vfH_C11_shared }

func vfH_C11_shared() {
	dir := vfFSDir()
	env := vfNewEnv(2)
	vfSetDBTime(env.db, vfBaseTime)
	vfOpenAof(env, dir)
	Config.AofAckMode = 0
	rm := env.slock.replicationManager
	rm.serverChannels = append(rm.serverChannels, nil)
	key := vfKey(1)
	fa := [3]uint16{0, 0x0100, 0x0200}[vfChoice("aofA", 3)]
	a := env.newCmd(protocol.COMMAND_LOCK, key, vfLockId(1))
	a.Expried, a.ExpriedFlag, a.Count = 50, fa, 5
	n := len(env.replies)
	env.lock(0, a)
	vfAssume(len(env.replies) == n+1 && env.replies[n].result == protocol.RESULT_SUCCED)
	vfDrainAof(env.db)
	b := env.newCmd(protocol.COMMAND_LOCK, key, vfLockId(2))
	b.TimeoutFlag = protocol.TIMEOUT_FLAG_REQUIRE_ACKED
	b.Timeout, b.Expried, b.Count = 5, 20, 5
	breq := b.RequestId
	env.lock(1, b)
	vfDrainAof(env.db)
	vfAssert(vfCountResult(env.replies, breq, protocol.RESULT_SUCCED) == 0, "C11: an ack-required lock on a key that already had a holder was reported SUCCED before anything was written or acknowledged")
	ackdb := rm.GetAckDB(0)
	vfAssert(ackdb != nil, "C11: no ack DB after pushing an ack-required record")
	_, registered := ackdb.commandAofs[0][breq]
	vfAssert(registered, "C11: the ack-required record was not registered for acknowledgement")
	vfReach("end")
}
