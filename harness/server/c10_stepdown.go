package server

// C10_stepdown: the window of a leader's step-down.  SLock.updateState(non-leader) announces the new
// role and then waits for the persistence queue, the followers' streams and the subscribers to drain.
// During that wait the node is already not the leader: whatever happens to a database in the window —
// a hold reaching its deadline with a client request queued behind it, a client LOCK, a client UNLOCK —
// must be handled as a non-leader handles it (nothing granted, queued or released on its own;
// STATE_ERROR to the client).  The executor replaces ReplicationManager.WaitServerSynced (second of the
// waits) by the harness function below, which runs the window's event; executor only.

import (
	"github.com/snower/slock/protocol"
)

func init() { vfHarnesses["C10_stepdown"] = vfH_C10_stepdown }

var vfStepdownWindow func()

func vfStub_ReplicationManager_WaitServerSynced(m *ReplicationManager) error {
	if len(m.serverChannels) != 0 {
		vfFail("harness: WaitServerSynced with follower channels is outside the executor's stub")
	}
	if vfStepdownWindow != nil {
		w := vfStepdownWindow
		vfStepdownWindow = nil
		w()
	}
	return nil
}

func vfH_C10_stepdown() {
	env := vfNewEnv(2)
	vfSetDBTime(env.db, vfBaseTime)
	key := vfKey(1)
	a := env.newCmd(protocol.COMMAND_LOCK, key, vfLockId(1))
	a.Expried, a.ExpriedFlag = 3, 0x0200
	env.lock(0, a)
	w := env.newCmd(protocol.COMMAND_LOCK, key, vfLockId(2))
	w.Timeout, w.Expried, w.ExpriedFlag = 50, 100, 0x0200
	wreq := w.RequestId
	env.lock(1, w)
	vfAssert(len(env.repliesFor(wreq)) == 0, "C10: harness: the second request is not queued")
	// the databases a node has need not be numbered densely: optionally a second one with id 3 (1 and 2 never used)
	var db3 *LockDB
	if vfChoice("sparse", 2) == 1 {
		db3 = NewLockDB(env.slock, 3)
		env.slock.dbs[3] = db3
		vfDropSpawned()
	}
	ev := vfChoice("event", 3)
	ran := false
	vfStepdownWindow = func() {
		ran = true
		n0 := len(env.replies)
		switch ev {
		case 0: // the holder's deadline passes
			vfTick(env, 6)
			vfAssert(vfCountResult(env.replies, wreq, protocol.RESULT_SUCCED) == 0, "C10: a node that is stepping down granted a queued client request on its own")
			for _, h := range vfHolders(env.manager(key)) {
				vfAssert(h.command.LockId != vfLockId(2), "C10: a node that is stepping down granted a queued client request on its own")
			}
		case 1: // a client LOCK on another key
			c := env.newCmd(protocol.COMMAND_LOCK, vfKey(2), vfLockId(3))
			c.Expried, c.ExpriedFlag = 100, 0x0200
			env.lock(0, c)
			vfAssert(len(env.replies) == n0+1 && env.replies[n0].result == protocol.RESULT_STATE_ERROR, "C10: a client LOCK reaching a node that is stepping down was not refused with STATE_ERROR")
			vfAssert(env.manager(vfKey(2)) == nil || len(vfHolders(env.manager(vfKey(2)))) == 0, "C10: a node that is stepping down granted a client request on its own")
		case 2: // the holder's client unlocks
			u := env.newCmd(protocol.COMMAND_UNLOCK, key, vfLockId(1))
			env.unlock(0, u)
			vfAssert(len(env.replies) == n0+1 && env.replies[n0].result == protocol.RESULT_STATE_ERROR, "C10: a client UNLOCK reaching a node that is stepping down was not refused with STATE_ERROR")
			hs := vfHolders(env.manager(key))
			vfAssert(len(hs) == 1 && hs[0].command.LockId == vfLockId(1), "C10: a node that is stepping down released or granted on its own")
		}
	}
	target := vfNonLeaderStatus("status")
	env.slock.updateState(target)
	vfAssert(ran, "C10: harness: the step-down never reached its wait")
	for _, db := range env.slock.dbs {
		if db != nil {
			vfAssert(db.status == target, "C10: after a step-down a database of the node still has its old role")
		}
	}
	if db3 != nil {
		vfReach("sparse")
		c := env.newCmd(protocol.COMMAND_LOCK, vfKey(7), vfLockId(7))
		c.DbId, c.Expried, c.ExpriedFlag = 3, 100, 0x0200
		n0 := len(env.replies)
		_ = db3.Lock(env.protos[0], c, 0)
		vfAssert(len(env.replies) == n0+1 && env.replies[n0].result == protocol.RESULT_STATE_ERROR, "C10: a database of a node that stepped down still answers client requests on its own")
	}
	vfReach("end")
}
