package server

// C15_pipeline: a PIPELINE frame carries several value operations; the property says it leaves
// exactly the value a sequential interpreter computes (each sub-operation applied, in order, to
// the result of the one before) and the reply carries the value from before the whole pipeline.
// An optional first LOCK establishes a prior value; then one LOCK carries a pipeline of
// vfPipeLen sub-operations, each built with the real constructors and chosen to match the
// kind of the running reference value; the frame is assembled with the real
// NewLockCommandDataPipelineData.

import (
	"github.com/snower/slock/protocol"
)

func init() {
	vfHarnesses["C15_pipeline"] = vfH_C15_pipeline
	vfHarnesses["C15_pipeline3"] = vfH_C15_pipeline3
}

var vfPipeLen = 2

func vfH_C15_pipeline()  { vfPipeLen = 2; vfC15Pipeline() }
func vfH_C15_pipeline3() { vfPipeLen = 3; vfC15Pipeline() }

func vfC15Pipeline() {
	vfWithProps = false
	env := vfNewEnv(1)
	key := vfKey(1)
	cur := vfValue{kind: vfVNone}
	step := 0
	if vfBool("prior") {
		data, next := vfNextOp(step, cur)
		c := env.newCmd(protocol.COMMAND_LOCK, key, vfLockId(1))
		c.Flag = protocol.LOCK_FLAG_CONTAINS_DATA
		c.Count, c.Expried, c.ExpriedFlag = 0xffff, 100, 0x0200
		c.Data = data
		env.lock(0, c)
		cur = next
		step++
	}
	before := cur
	subs := make([]*protocol.LockCommandData, 0, vfPipeLen)
	for i := 0; i < vfPipeLen; i++ {
		data, next := vfNextOp(step, cur)
		subs = append(subs, data)
		cur = next
		step++
	}
	c := env.newCmd(protocol.COMMAND_LOCK, key, vfLockId(7))
	c.Flag = protocol.LOCK_FLAG_CONTAINS_DATA
	c.Count, c.Expried, c.ExpriedFlag = 0xffff, 100, 0x0200
	c.Data = protocol.NewLockCommandDataPipelineData(subs)
	n := len(env.replies)
	env.lock(0, c)
	vfAssert(len(env.replies) == n+1 && env.replies[n].result == protocol.RESULT_SUCCED, "C15: a lock carrying a pipeline was not granted")
	r := env.replies[n]
	var shown []byte
	if r.hasData {
		shown = r.data
	}
	vfAssert(vfDecodeMatches(shown, before), "C15: the reply to a pipeline does not carry the value from immediately before it")
	m := env.manager(key)
	vfAssert(m != nil, "C15: key vanished")
	vfAssert(vfDecodeMatches(m.GetLockData(), cur), "C15: after a pipeline the stored value differs from what a sequential interpreter computes")
	vfReach("end")
}
