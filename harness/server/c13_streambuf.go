package server

// C13_streambuf: the read buffer every connection's bytes go through (StreamReaderBuffer) hands
// out exactly the bytes that arrived, in order, whatever the sizes of the reads.  A buffer of 64
// bytes is filled from a connection that delivers n bytes (n in 1..64, numbered 0, 1, 2, ...), then
// any program of 4 reads — Read into a slice of 8 / 24 / 40 bytes or ReadBytesSize(8 / 24 / 40)
// — is compared with a plain byte queue.  A read past what is buffered is a crash of the
// connection's goroutine (no recover in Server.handle).

func init() { vfHarnesses["C13_streambuf"] = vfH_C13_streambuf }

func vfH_C13_streambuf() {
	n := vfRange("arrived", 1, 64)
	in := make([]byte, n)
	for i := range in {
		in[i] = byte(i)
	}
	conn := &vfScriptConn{in: in}
	b := NewStreamReaderBuffer(64)
	got, err := b.ReadFromConn(conn, -1)
	vfAssert(err == nil && got == n && b.GetSize() == n, "C13: the stream buffer did not take what the connection delivered")
	next := 0 // the next byte the model hands out
	sizes := [3]int{8, 24, 40}
	for step := 0; step < 4; step++ {
		l := sizes[vfChoice(vfName("size", step), 3)]
		want := n - next
		if want > l {
			want = l
		}
		var out []byte
		if vfChoice(vfName("how", step), 2) == 0 {
			buf := make([]byte, l)
			k := b.Read(buf)
			out = buf[:k]
		} else {
			out = b.ReadBytesSize(l)
		}
		vfAssert(len(out) == want, "C13: a read from the stream buffer returned a different number of bytes than are buffered (up to the size asked)")
		for i := range out {
			vfAssert(out[i] == byte(next+i), "C13: a read from the stream buffer returned other bytes than those that arrived (stale or out of order)")
		}
		next += len(out)
		vfAssert(b.GetSize() == n-next, "C13: the stream buffer's size disagrees with what is left")
	}
	vfReach("end")
}
