package server

// C07_shorten: a hold whose deadline was moved by an update before the outage.  LOCK with E1 (persisted
// at once); one second later the same LockId sends an update (update-when-locked flag, Count changed so
// that it is not ignored) with E2; (E1, E2) = (100, 2): shortened, (2, 100): lengthened, (100, 50).  The
// instance stops at once and a fresh one starts 0 / 2 / 6 s later.  The hold is held again exactly if its
// CURRENT deadline has not passed (a hold that expired during the outage must not come back), with that
// deadline.

import (
	"github.com/snower/slock/protocol"
)

func init() { vfHarnesses["C07_shorten"] = vfH_C07_shorten }

func vfH_C07_shorten() {
	dir := vfFSDir()
	env := vfNewEnv(1)
	vfSetDBTime(env.db, vfBaseTime)
	vfOpenAof(env, dir)
	key := vfKey(1)
	es := [3][2]uint16{{100, 2}, {2, 100}, {100, 50}}[vfChoice("terms", 3)]
	a := env.newCmd(protocol.COMMAND_LOCK, key, vfLockId(1))
	a.Expried, a.ExpriedFlag, a.Count = es[0], 0x0100, 1
	env.lock(0, a)
	vfTick(env, 1)
	b := env.newCmd(protocol.COMMAND_LOCK, key, vfLockId(1))
	b.Flag, b.Expried, b.ExpriedFlag, b.Count = protocol.LOCK_FLAG_UPDATE_WHEN_LOCKED, es[1], 0x0100, 2
	n := len(env.replies)
	env.lock(0, b)
	vfAssert(env.replies[n].result == protocol.RESULT_LOCKED_ERROR, "C07: harness: the update was not answered LOCKED_ERROR")
	vfDrainAof(env.db)
	env.slock.aof.aofFile.Flush()
	orig := vfHeldOf(env.manager(key))
	vfAssert(len(orig) == 1 && orig[0].isAof, "C07: harness: the hold is not a persisted hold")
	t1 := env.db.currentTime
	vfAssert(orig[0].deadline == t1+int64(es[1])+1, "C07: harness: the update did not move the deadline")
	dt := [3]int64{0, 2, 6}[vfChoice("outage", 3)]
	t2 := t1 + dt
	env2 := vfNewEnv(1)
	vfSetDBTime(env2.db, t2)
	aof2 := env2.slock.aof
	aof2.dataDir = dir
	err, _ := aof2.LoadAofFiles([]string{"append.aof.1"}, t2, func(filename string, aofFile *AofFile, lock *AofLock, firstLock bool) (bool, error) {
		e := aof2.LoadLock(lock)
		vfDrainAof(env2.db)
		return true, e
	})
	vfAssert(err == nil, "C07: loading the log fails")
	vfDrainAof(env2.db)
	rest := vfHeldOf(env2.manager(key))
	if orig[0].deadline <= t2 {
		vfReach("expired-in-outage")
		vfAssert(len(rest) == 0, "C07: a hold whose (updated) deadline passed during the outage is held again after the restart")
	} else if orig[0].deadline > t2+2 {
		vfAssert(len(rest) == 1, "C07: a persisted hold with time left was not restored")
		d := rest[0].deadline - orig[0].deadline
		if d < 0 {
			d = -d
		}
		vfAssert(d <= 2, "C07: restored hold's deadline differs from the one its last update gave it by more than one unit plus a second")
	}
	vfReach("end")
}
