package server

// C18_textwills: the same disconnect semantics for a text connection.  Wills are
// registered with the text form (LOCK / UNLOCK ... WILL 1), the connection takes a hold
// with a plain text LOCK, then TextServerProtocol.Close runs (twice).

func init() { vfHarnesses["C18_textwills"] = vfH_C18_textwills }

func vfH_C18_textwills() {
	env := vfNewEnv(1)
	vfSetDBTime(env.db, vfBaseTime)
	tp, conn := vfNewText(env)
	// keys and ids as text: 16 raw bytes are taken as they are
	k1, k9 := string(vfKeyBytes(1)), string(vfKeyBytes(9))
	id9 := string(vfIdBytes(9))
	_ = vfTextRun(tp, []string{"LOCK", k9, "LOCK_ID", id9, "EXPRIED", "100", "TIMEOUT", "0"})
	vfAssert(vfHeldBy(env, vfKey(9), vfLockId(9)) == 1, "C18: harness: the text connection's hold was not taken")
	n := vfChoice("wills", 7) // 0..6: more wills than the connection's result channel holds (4)
	unlockWill := -1
	for i := 0; i < n; i++ {
		w0 := conn.writes
		if vfChoice(vfName("willkind", i), 2) == 1 && unlockWill < 0 {
			_ = vfTextRun(tp, []string{"UNLOCK", k9, "LOCK_ID", id9, "WILL", "1"})
			unlockWill = i
		} else {
			_ = vfTextRun(tp, []string{"LOCK", k1, "LOCK_ID", string(vfIdBytes(uint8(50 + i))), "EXPRIED", "100", "TIMEOUT", "0", "WILL", "1"})
		}
		vfAssert(conn.writes == w0+1, "C18: registering a will was not answered exactly once")
	}
	vfAssert(env.manager(vfKey(1)) == nil, "C18: a will command was executed before the connection ended")
	vfAssert(vfHeldBy(env, vfKey(9), vfLockId(9)) == 1, "C18: the connection's hold is not there before close")
	_ = tp.Close()
	firstLock := -1
	for i := 0; i < n; i++ {
		if i != unlockWill && firstLock < 0 {
			firstLock = i
		}
	}
	check := func(when string) {
		hs := vfHolders(env.manager(vfKey(1)))
		if firstLock >= 0 {
			vfAssert(len(hs) == 1 && hs[0].command.LockId == vfLockId(uint8(50+firstLock)) && hs[0].locked == 1,
				"C18: (text) will commands were not executed exactly once in registration order "+when)
		} else {
			vfAssert(len(hs) == 0, "C18: (text) a will command ran that was never registered "+when)
		}
		if unlockWill >= 0 {
			vfAssert(vfHeldBy(env, vfKey(9), vfLockId(9)) == 0, "C18: (text) the will UNLOCK did not run "+when)
		} else {
			vfAssert(vfHeldBy(env, vfKey(9), vfLockId(9)) == 1, "C18: (text) a hold taken by the closed connection did not stay valid "+when)
		}
	}
	check("after close")
	vfReach("closed")
	_ = tp.Close()
	check("after a second close")
	vfAssert(conn.closed, "C18: (text) the connection was not closed")
	vfAssert(len(env.replies) == 0, "C18: (text) a reply addressed to the closed connection was delivered to an unrelated client")
	vfReach("end")
}

func vfKeyBytes(n uint8) []byte {
	k := vfKey(n)
	return k[:]
}

func vfIdBytes(n uint8) []byte {
	k := vfLockId(n)
	return k[:]
}
