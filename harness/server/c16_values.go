package server

// C16_values: compaction must not change the VALUE a restart recovers.  Key 5 is held by A
// (Count 1, value v1 set with the lock); then, by choice: nothing more / a zero-expiry LOCK sets v2 / B locks it too setting
// v2 and stays / B locks setting v2 and unlocks again (A keeps the key alive, the value stays
// v2) / B's unlock itself sets v3.  The log is rotated and compacted; a fresh instance recovers
// from the directory before and after the compaction: same holders and same value.

import (
	"github.com/snower/slock/protocol"
)

func init() { vfHarnesses["C16_values"] = vfH_C16_values }

type vfRecValue struct {
	n      int
	ids    [4][16]byte
	has    bool
	val    [8]byte
	valLen int
}

func vfRecoverValue(dir string, key [16]byte) (vfRecValue, bool) {
	var out vfRecValue
	env := vfNewEnv(0)
	vfSetDBTime(env.db, vfBaseTime+1)
	aof := env.slock.aof
	aof.dataDir = dir
	appendFiles, rewriteFile, err := aof.FindAofFiles()
	if err != nil {
		return out, false
	}
	var files []string
	if rewriteFile != "" {
		files = append(files, rewriteFile)
	}
	files = append(files, appendFiles...)
	lerr, _ := aof.LoadAofFiles(files, vfBaseTime+1, func(filename string, aofFile *AofFile, lock *AofLock, firstLock bool) (bool, error) {
		return true, aof.LoadLock(lock)
	})
	if lerr != nil {
		return out, false
	}
	vfDrainAof(env.db)
	m := env.manager(key)
	for _, l := range vfHolders(m) {
		if out.n < 4 {
			out.ids[out.n] = l.command.LockId
			out.n++
		}
	}
	if m != nil {
		if d := m.GetLockData(); d != nil && len(d) >= 6 && d[4]&0x3f != protocol.LOCK_DATA_COMMAND_TYPE_UNSET {
			v := protocol.NewLockResultCommandDataFromOriginBytes(d).GetBytesValue()
			out.has = true
			out.valLen = len(v)
			for i := 0; i < len(v) && i < 8; i++ {
				out.val[i] = v[i]
			}
		}
	}
	return out, true
}

func vfH_C16_values() {
	dir := vfFSDir()
	env := vfNewEnv(1)
	vfSetDBTime(env.db, vfBaseTime)
	vfOpenAof(env, dir)
	key := vfKey(5)
	a := env.newCmd(protocol.COMMAND_LOCK, key, vfLockId(1))
	a.Flag, a.Expried, a.ExpriedFlag, a.Count = protocol.LOCK_FLAG_CONTAINS_DATA, 0xffff, 0x4100, 1
	a.Data = protocol.NewLockCommandDataSetString("v1")
	env.lock(0, a)
	hist := vfChoice("hist", 5)
	if hist == 4 {
		// a zero-expiry LOCK by another LockId sets v2 and leaves no hold behind
		z := env.newCmd(protocol.COMMAND_LOCK, key, vfLockId(3))
		z.Flag, z.Expried, z.ExpriedFlag, z.Count = protocol.LOCK_FLAG_CONTAINS_DATA, 0, 0x0100, 1
		z.Data = protocol.NewLockCommandDataSetString("v2")
		n := len(env.replies)
		env.lock(0, z)
		vfAssert(env.replies[n].result == protocol.RESULT_SUCCED, "C16: harness: zero-expiry lock refused")
	} else if hist >= 1 {
		b := env.newCmd(protocol.COMMAND_LOCK, key, vfLockId(2))
		b.Flag, b.Expried, b.ExpriedFlag, b.Count = protocol.LOCK_FLAG_CONTAINS_DATA, 0xffff, 0x4100, 1
		b.Data = protocol.NewLockCommandDataSetString("v2")
		n := len(env.replies)
		env.lock(0, b)
		vfAssert(env.replies[n].result == protocol.RESULT_SUCCED, "C16: harness: second holder refused")
	}
	if hist == 2 || hist == 3 {
		u := env.newCmd(protocol.COMMAND_UNLOCK, key, vfLockId(2))
		if hist == 3 {
			u.Flag = protocol.UNLOCK_FLAG_CONTAINS_DATA
			u.Data = protocol.NewLockCommandDataSetString("v3")
		}
		n := len(env.replies)
		env.unlock(0, u)
		vfAssert(env.replies[n].result == protocol.RESULT_SUCCED, "C16: harness: unlock refused")
	}
	vfDrainAof(env.db)
	env.slock.aof.Flush()
	env.slock.aof.aofGlock.Lock()
	_ = env.slock.aof.RewriteAofFile(false)
	env.slock.aof.aofGlock.Unlock()
	vfDropSpawned()
	before, ok := vfRecoverValue(dir, key)
	vfAssert(ok, "C16: recovery from the pre-compaction directory fails")
	vfAssert(before.n >= 1 && before.has, "C16: harness: the hold and its value were not persisted")
	env.slock.aof.rewriteAofFiles()
	after, ok2 := vfRecoverValue(dir, key)
	vfAssert(ok2, "C16: recovery from the compacted directory fails")
	vfAssert(before.n == after.n && before.ids == after.ids, "C16: recovering from the compacted files gives different holders on a key with a value")
	vfAssert(after.has && before.valLen == after.valLen && before.val == after.val, "C16: recovering from the compacted files gives a different value than recovering from the files they replaced")
	vfReach("end")
}
