package server

// C10_relaybin: "forwarded to the leader, whose reply is relayed unchanged" for the binary protocol, for
// every frame.  A follower's binary connection wrapped in TransparencyBinaryServerProtocol with an
// in-memory link to the leader.  Any LOCK or UNLOCK frame (every field symbolic; no value frame) through
// the wrapper's own hand-inlined decoder (ProcessParse): exactly one frame goes out on the link and it is,
// byte for byte, the frame the client sent.  Any lock result frame coming back on the link
// (processBinaryProcotol): exactly those 64 bytes are written to the client.  Executor only.

import (
	"sync"

	"github.com/snower/slock/client"
	"github.com/snower/slock/protocol"
)

func init() { vfHarnesses["C10_relaybin"] = vfH_C10_relaybin }

func vfH_C10_relaybin() {
	follower := vfNewEnv(0)
	follower.slock.state = STATE_FOLLOWER
	follower.db.status = STATE_FOLLOWER
	cconn := &vfConnIn{}
	cstream := NewStream(cconn)
	inner := NewBinaryServerProtocol(follower.slock, cstream)
	tw := NewTransparencyBinaryServerProtocol(follower.slock, cstream, inner)
	link := &vfLinkConn{}
	lstream := client.NewStream(link)
	tc := &TransparencyBinaryClientProtocol{manager: follower.slock.replicationManager.transparencyManager, glock: &sync.Mutex{},
		stream: lstream, clientProtocol: client.NewBinaryClientProtocol(lstream), serverProtocol: tw}
	tw.clientProtocol = tc

	frame := vfBytes("frame", 64)
	vfAssume(frame[0] == protocol.MAGIC && frame[1] == protocol.VERSION)
	if vfChoice("unlock", 2) == 1 {
		vfAssume(frame[2] == protocol.COMMAND_UNLOCK)
	} else {
		vfAssume(frame[2] == protocol.COMMAND_LOCK)
	}
	vfAssume(frame[19]&protocol.LOCK_FLAG_CONTAINS_DATA == 0) // no value frame follows
	vfAssume(frame[20] == 0)                                    // database 0 (the table is indexed by this byte)
	vfAssume(frame[19]&0x08 == 0)                               // (the concurrent-check shortcut a non-leader answers itself is a recorded finding, C10_refuse)
	sent := append([]byte(nil), frame...)
	_ = tw.ProcessParse(frame)
	vfAssert(len(link.frames) == 1 && len(link.frames[0]) == 64, "C10: a follower did not forward a client's LOCK / UNLOCK as exactly one frame")
	if len(link.frames) == 1 && len(link.frames[0]) == 64 {
		for i := 0; i < 64; i++ {
			vfAssert(link.frames[0][i] == sent[i], "C10: the frame a follower forwards to the leader differs from the frame its client sent")
		}
	}
	vfAssert(follower.manager(vfKey(1)) == nil && len(cconn.written) == 0, "C10: a follower answered or applied a client's request itself")
	vfReach("forwarded")

	res := vfBytes("result", 64)
	vfAssume(res[0] == protocol.MAGIC && res[1] == protocol.VERSION && (res[2] == protocol.COMMAND_LOCK || res[2] == protocol.COMMAND_UNLOCK))
	vfAssume(res[20]&protocol.LOCK_FLAG_CONTAINS_DATA == 0)
	vfAssume(res[60] == 0 && res[61] == 0 && res[62] == 0 && res[63] == 0) // the four bytes the format leaves undefined
	r := &protocol.LockResultCommand{}
	vfAssume(r.Decode(res) == nil)
	_ = tc.processBinaryProcotol(r)
	vfAssert(len(cconn.written) == 64, "C10: the leader's reply was not relayed to the client as one 64-byte frame")
	if len(cconn.written) == 64 {
		for i := 0; i < 64; i++ {
			vfAssert(cconn.written[i] == res[i], "C10: the reply a follower relays differs from the reply the leader sent")
		}
	}
	vfReach("end")
}
