package server

// C03_textpush: the text command PUSH sends a LOCK and answers +OK without waiting for the lock's
// result.  After 0..6 PUSH commands (each on its own key, granted at once) the connection sends an
// ordinary LOCK and UNLOCK: every PUSH is answered (none may block the connection), and the LOCK
// and the UNLOCK are answered with their own result and LockId, not with a PUSH's left-over result.

func init() { vfHarnesses["C03_textpush"] = vfH_C03_textpush }

func vfH_C03_textpush() {
	env := vfNewEnv(1)
	vfSetDBTime(env.db, vfBaseTime)
	tp, conn := vfNewText(env)
	n := vfChoice("pushes", 7)
	for i := 0; i < n; i++ {
		w0 := conn.writes
		_ = vfTextRun(tp, []string{"PUSH", string(vfKeyBytes(uint8(10 + i))), "LOCK_ID", string(vfIdBytes(uint8(10 + i))), "EXPRIED", "100", "TIMEOUT", "0"})
		vfAssert(conn.writes == w0+1, "C03: (text) a PUSH was not answered exactly once")
		vfAssert(vfHeldBy(env, vfKey(uint8(10+i)), vfLockId(uint8(10+i))) == 1, "C03: harness: the pushed lock was not taken")
	}
	vfReach("pushed")
	k2 := string(vfKeyBytes(2))
	n1 := len(conn.out)
	_ = vfTextRun(tp, []string{"LOCK", k2, "LOCK_ID", string(vfIdBytes(22)), "EXPRIED", "100", "TIMEOUT", "0"})
	r, id, ok := vfTextLockReply(conn.out, n1)
	vfAssert(ok && r == '0' && id == 22, "C03: (text) a LOCK sent after PUSH commands was answered with another request's reply")
	n2 := len(conn.out)
	_ = vfTextRun(tp, []string{"UNLOCK", k2, "LOCK_ID", string(vfIdBytes(22))})
	r, id, ok = vfTextLockReply(conn.out, n2)
	vfAssert(ok && r == '0' && id == 22, "C03: (text) an UNLOCK sent after PUSH commands was answered with another request's reply")
	vfAssert(len(tp.lockWaiter) == 0, "C03: (text) a reply was left over on the connection")
	vfReach("end")
}
