package server

// C09_sendstream: the leader's live stream to a follower (ReplicationServer.SendProcess) sends the
// records of the replication ring in ring order, whatever their sizes.  Four persisted records, one
// of which (the first, a middle one, the last, or none) carries a value too large for the sender's
// 4096-byte batch buffer, are pushed through the real LockDB -> Aof.PushLock path; the real
// SendProcess then drains the ring into a capturing connection.  The captured stream, cut into
// records the way the follower reads it, is the ring's sequence: same positions, same order, each
// value behind its record.

import (
	"io"
	"net"
	"time"

	"github.com/snower/slock/protocol"
)

func init() { vfHarnesses["C09_sendstream"] = vfH_C09_sendstream }

// vfStopConn captures what is written and flips *stop once `want` bytes have arrived.
type vfStopConn struct {
	out  []byte
	want int
	stop *bool
}

func (c *vfStopConn) Read(b []byte) (int, error) { return 0, io.EOF }
func (c *vfStopConn) Write(b []byte) (int, error) {
	c.out = append(c.out, b...)
	if len(c.out) >= c.want {
		*c.stop = true
	}
	return len(b), nil
}
func (c *vfStopConn) Close() error                       { return nil }
func (c *vfStopConn) LocalAddr() net.Addr                { return vfTAddr{} }
func (c *vfStopConn) RemoteAddr() net.Addr               { return vfTAddr{} }
func (c *vfStopConn) SetDeadline(t time.Time) error      { return nil }
func (c *vfStopConn) SetReadDeadline(t time.Time) error  { return nil }
func (c *vfStopConn) SetWriteDeadline(t time.Time) error { return nil }

func vfH_C09_sendstream() {
	dir := vfFSDir()
	env := vfNewEnv(1)
	vfSetDBTime(env.db, vfBaseTime)
	vfOpenAof(env, dir)
	big := vfChoice("bigAt", 5) // 4: none
	env.slock.replicationManager.bufferQueue.bufferSize = 1 << 20 // room for all four: the ring drops nothing here
	large := make([]byte, 5000)
	for i := range large {
		large[i] = byte('a' + i%7)
	}
	for i := 0; i < 4; i++ {
		c := env.newCmd(protocol.COMMAND_LOCK, vfKey(uint8(1+i)), vfLockId(uint8(1+i)))
		c.Expried, c.ExpriedFlag = 0xffff, 0x4100
		if i == big {
			c.Flag = protocol.LOCK_FLAG_CONTAINS_DATA
			c.Data = protocol.NewLockCommandDataSetData(large)
		} else if i == 1 {
			c.Flag = protocol.LOCK_FLAG_CONTAINS_DATA
			c.Data = protocol.NewLockCommandDataSetString("small")
		}
		env.lock(0, c)
		vfDrainAof(env.db)
	}
	env.slock.aof.Flush()
	vfDropSpawned()
	// the ring's own sequence
	ring := env.slock.replicationManager.bufferQueue
	cur := NewReplicationBufferQueueCursor(make([]byte, 64))
	var wantPos [][2]uint32
	var wantLen []int
	total := 0
	for guard := 0; guard < 8; guard++ {
		if ring.Pop(cur) != nil {
			break
		}
		rec := NewAofLock()
		copy(rec.buf, cur.buf)
		vfAssert(rec.Decode() == nil, "C09: harness: ring record does not decode")
		wantPos = append(wantPos, [2]uint32{rec.AofIndex, rec.AofOffset})
		wantLen = append(wantLen, len(cur.data))
		total += 64 + len(cur.data)
	}
	vfAssert(len(wantPos) == 4, "C09: harness: the ring does not hold the four records")
	// the real sender
	conn := &vfStopConn{want: total}
	bp := NewBinaryServerProtocol(env.slock, NewStream(conn))
	rs := NewReplicationServer(env.slock.replicationManager, bp)
	conn.stop = &rs.closed
	rs.sendedFiles = true
	rs.pulledWaiter <- struct{}{} // the wake-up the sender waits for once the ring is drained
	err := rs.SendProcess()
	vfAssert(err == nil, "C09: the sender failed")
	vfAssert(len(conn.out) == total, "C09: the live stream carries a different number of bytes than the ring's records")
	off := 0
	for i := range wantPos {
		vfAssert(off+64 <= len(conn.out), "C09: the live stream ends inside a record")
		rec := NewAofLock()
		copy(rec.buf, conn.out[off:off+64])
		vfAssert(rec.Decode() == nil, "C09: a record of the live stream does not decode (the stream is out of step)")
		vfAssert(rec.AofIndex == wantPos[i][0] && rec.AofOffset == wantPos[i][1], "C09: the live stream sends the ring's records in a different order (or skips / repeats one)")
		off += 64
		if rec.AofFlag&AOF_FLAG_CONTAINS_DATA != 0 {
			vfAssert(off+wantLen[i] <= len(conn.out), "C09: the live stream ends inside a value")
			off += wantLen[i]
		} else {
			vfAssert(wantLen[i] == 0, "C09: a record lost its value mark on the way")
		}
	}
	vfReach("end")
}
