package server

// C18: disconnect semantics.  A real BinaryServerProtocol on a harness-defined
// net.Conn registers WILL commands through the real ProcessCommad path, takes a
// hold and leaves a queued request behind; Close() is then called (twice).
// Observed through a second, unrelated client and through the key states.

import (
	"io"
	"net"
	"time"

	"github.com/snower/slock/protocol"
)

func init() {
	vfHarnesses["C18_wills"] = vfH_C18_wills
	vfHarnesses["C18_route"] = vfH_C18_route
}

type vfConn struct {
	written []byte
	closed  int
}

func (c *vfConn) Read(b []byte) (int, error)         { return 0, io.EOF }
func (c *vfConn) Write(b []byte) (int, error)        { c.written = append(c.written, b...); return len(b), nil }
func (c *vfConn) Close() error                       { c.closed++; return nil }
func (c *vfConn) LocalAddr() net.Addr                { return &net.TCPAddr{} }
func (c *vfConn) RemoteAddr() net.Addr               { return &net.TCPAddr{} }
func (c *vfConn) SetDeadline(t time.Time) error      { return nil }
func (c *vfConn) SetReadDeadline(t time.Time) error  { return nil }
func (c *vfConn) SetWriteDeadline(t time.Time) error { return nil }

func vfHeldBy(env *vfEnv, key [16]byte, id [16]byte) uint8 {
	for _, l := range vfHolders(env.manager(key)) {
		if l.command.LockId == id {
			return l.locked
		}
	}
	return 0
}

func vfH_C18_wills() {
	env := vfNewEnv(1)
	vfSetDBTime(env.db, vfBaseTime)
	conn := &vfConn{}
	bp := NewBinaryServerProtocol(env.slock, NewStream(conn))
	if vfChoice("inited", 2) == 1 {
		// the client announced a client id first (as every real client does): the connection is registered
		// in the client table, through which replies for a closed connection are re-routed
		ic := &protocol.InitCommand{}
		ic.Magic, ic.Version, ic.CommandType = protocol.MAGIC, protocol.VERSION, protocol.COMMAND_INIT
		ic.ClientId[0], ic.ClientId[15] = 0xc1, 0x1d
		_ = bp.ProcessCommad(ic)
		vfAssert(bp.inited, "C18: harness: INIT was not accepted")
		conn.written = nil
		vfReach("inited")
	}
	// the connection takes a hold on key 9 and queues on key 8 behind the other client
	h := env.newCmd(protocol.COMMAND_LOCK, vfKey(9), vfLockId(9))
	h.Expried, h.ExpriedFlag = 100, 0x0200
	_ = bp.ProcessCommad(h)
	o := env.newCmd(protocol.COMMAND_LOCK, vfKey(8), vfLockId(80))
	o.Expried, o.ExpriedFlag = 100, 0x0200
	env.lock(0, o)
	q := env.newCmd(protocol.COMMAND_LOCK, vfKey(8), vfLockId(81))
	q.Timeout, q.Expried, q.ExpriedFlag = 3, 100, 0x0200
	_ = bp.ProcessCommad(q)
	// wills: n in 0..3; will i locks key 1 with LockId 50+i and Count 0 — only the first registered can get it —
	// except that a will may instead be an UNLOCK of the connection's hold on key 9
	n := vfChoice("wills", 4)
	unlockWill := -1
	for i := 0; i < n; i++ {
		if vfChoice(vfName("willkind", i), 2) == 1 && unlockWill < 0 {
			w := env.newCmd(protocol.COMMAND_WILL_UNLOCK, vfKey(9), vfLockId(9))
			_ = bp.ProcessCommad(w)
			unlockWill = i
			continue
		}
		w := env.newCmd(protocol.COMMAND_WILL_LOCK, vfKey(1), vfLockId(uint8(50+i)))
		w.Expried, w.ExpriedFlag, w.Count = 100, 0x0200, 0
		_ = bp.ProcessCommad(w)
	}
	vfAssert(env.manager(vfKey(1)) == nil, "C18: a will command was executed before the connection ended")
	vfAssert(vfHeldBy(env, vfKey(9), vfLockId(9)) == 1, "C18: the connection's hold is not there before close")
	state := env.db.states[0]

	_ = bp.Close()
	firstLock := -1
	for i := 0; i < n; i++ {
		if i != unlockWill && firstLock < 0 {
			firstLock = i
		}
	}
	check := func(when string) {
		hs := vfHolders(env.manager(vfKey(1)))
		if firstLock >= 0 {
			vfAssert(len(hs) == 1 && hs[0].command.LockId == vfLockId(uint8(50+firstLock)) && hs[0].locked == 1,
				"C18: will commands were not executed exactly once in registration order "+when)
		} else {
			vfAssert(len(hs) == 0, "C18: a will command ran that was never registered "+when)
		}
		if unlockWill >= 0 {
			vfAssert(vfHeldBy(env, vfKey(9), vfLockId(9)) == 0, "C18: the will UNLOCK did not run "+when)
		} else {
			vfAssert(vfHeldBy(env, vfKey(9), vfLockId(9)) == 1, "C18: a hold taken by the closed connection did not stay valid "+when)
		}
	}
	check("after close")
	vfReach("closed")
	_ = bp.Close()
	check("after a second close")
	vfAssert(conn.closed == 1, "C18: the connection was not closed exactly once")
	// the request it left queued still ends, without leaking state
	vfTick(env, 5)
	vfAssert(state.WaitCount == 0, "C18: the request left queued by the closed connection never ended")
	vfAssert(len(vfLiveWaiters(env.manager(vfKey(8)))) == 0, "C18: the queued request of the closed connection is still queued after its timeout")
	// nothing was delivered to the unrelated client except its own reply
	for _, r := range env.replies {
		vfAssert(r.reqId == o.RequestId, "C18: a reply addressed to the closed connection was delivered to an unrelated client")
	}
	vfReach("end")
}

// C18_route: replies for a closed client's proxy are dropped, or delivered to the client that
// announced the same client id — never to another one.
func vfH_C18_route() {
	env := vfNewEnv(2)
	idA, idB := vfArr16("idA"), vfArr16("idB")
	proxyId := vfArr16("proxyId")
	env.slock.clients[idA] = env.protos[0]
	if idB != idA {
		env.slock.clients[idB] = env.protos[1]
	}
	px := &ProxyServerProtocol{proxyId, defaultServerProtocol} // a proxy whose connection has closed
	c := env.newCmd(protocol.COMMAND_LOCK, vfKey(1), vfLockId(1))
	err := px.ProcessLockResultCommandLocked(c, protocol.RESULT_SUCCED, 1, 1, nil)
	if len(env.replies) == 0 {
		vfReach("dropped")
		vfAssert(err != nil, "C18: a dropped reply was reported as delivered")
		vfAssert(proxyId != idA && proxyId != idB, "C18: a reply was dropped although a client with the same client id is connected")
	} else {
		vfReach("rerouted")
		vfAssert(len(env.replies) == 1, "C18: a reply was delivered more than once")
		r := env.replies[0]
		if r.proto == 0 {
			vfAssert(proxyId == idA, "C18: a reply was delivered to a client with a different client id")
		} else {
			vfAssert(proxyId == idB, "C18: a reply was delivered to a client with a different client id")
		}
	}
	vfReach("end")
}
