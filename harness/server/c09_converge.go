package server

// C09_converge: a follower that applies the records it is sent (ring -> Aof.LoadLock, the path a
// connected follower's replication client uses) ends with the same keys, LockIds, depths and
// values as the leader.  Leader program: 4 persisted operations on two keys (LOCK, LOCK carrying
// a value, one-level UNLOCK, full UNLOCK).

import (
	"io"

	"github.com/snower/slock/protocol"
)

func init() { vfHarnesses["C09_converge"] = vfH_C09_converge }

func vfH_C09_converge() {
	vfWithProps = false
	dir := vfFSDir()
	env := vfNewEnv(1)
	vfSetDBTime(env.db, vfBaseTime)
	vfOpenAof(env, dir)
	held := [2]int{}
	for step := 0; step < 4; step++ {
		k := vfChoice(vfName("key", step), 2)
		key, id := vfKey(uint8(1+k)), vfLockId(uint8(1+k))
		switch vfChoice(vfName("op", step), 4) {
		case 0:
			c := env.newCmd(protocol.COMMAND_LOCK, key, id)
			c.Expried, c.ExpriedFlag, c.Rcount = 0xffff, 0x4100, 5
			env.lock(0, c)
			held[k]++
		case 1:
			c := env.newCmd(protocol.COMMAND_LOCK, key, id)
			c.Flag, c.Expried, c.ExpriedFlag, c.Rcount = protocol.LOCK_FLAG_CONTAINS_DATA, 0xffff, 0x4100, 5
			c.Data = protocol.NewLockCommandDataSetString(string(rune('a' + step)))
			env.lock(0, c)
			held[k]++
		case 2:
			if held[k] == 0 {
				continue
			}
			u := env.newCmd(protocol.COMMAND_UNLOCK, key, id)
			u.Rcount = 1
			env.unlock(0, u)
			held[k]--
		case 3:
			if held[k] == 0 {
				continue
			}
			u := env.newCmd(protocol.COMMAND_UNLOCK, key, id)
			env.unlock(0, u)
			held[k] = 0
		}
		vfDrainAof(env.db)
	}
	vfDropSpawned()
	// the follower
	fenv := vfNewEnv(0)
	vfSetDBTime(fenv.db, vfBaseTime)
	fenv.slock.state, fenv.db.status = STATE_FOLLOWER, STATE_FOLLOWER
	ring := env.slock.replicationManager.bufferQueue
	cur := NewReplicationBufferQueueCursor(make([]byte, 64))
	for guard := 0; guard < 16; guard++ {
		perr := ring.Pop(cur)
		if perr == io.EOF {
			break
		}
		vfAssert(perr == nil, "C09: the ring reported a gap to a follower that reads from its start")
		al := NewAofLock()
		copy(al.buf, cur.buf)
		vfAssert(al.Decode() == nil, "C09: a published record does not decode")
		if cur.data != nil {
			al.data = append([]byte(nil), cur.data...)
		}
		vfAssert(fenv.slock.aof.LoadLock(al) == nil, "C09: the follower could not apply a record")
		vfDrainAof(fenv.db)
	}
	for k := uint8(1); k <= 2; k++ {
		lm, fm := env.manager(vfKey(k)), fenv.manager(vfKey(k))
		lh, fh := vfHolders(lm), vfHolders(fm)
		if len(lh) > 0 {
			vfReach("held")
		}
		vfAssert(len(lh) == len(fh), "C09: the follower holds a different number of holds on a key than the leader")
		for i := range lh {
			if i < len(fh) {
				vfAssert(lh[i].command.LockId == fh[i].command.LockId && lh[i].locked == fh[i].locked, "C09: the follower's hold differs from the leader's (LockId or depth)")
			}
		}
		var lv, fv []byte
		if lm != nil {
			lv = lm.GetLockData()
		}
		if fm != nil {
			fv = fm.GetLockData()
		}
		if lv != nil {
			vfReach("valued")
		}
		vfAssert((lv == nil) == (fv == nil) && len(lv) == len(fv), "C09: the follower's value of a key differs from the leader's")
		for i := range lv {
			if i < len(fv) {
				vfAssert(lv[i] == fv[i], "C09: the follower's value of a key differs from the leader's")
			}
		}
	}
	vfReach("end")
}
