package server

// C10_forward: "... or forwarded to the leader, whose reply is relayed unchanged, so a client gets the same
// outcome from any node" — the text protocol through the forwarding wrapper.  Three real instances: a
// FOLLOWER whose text connection is wrapped in TransparencyTextServerProtocol and whose link to the leader
// is an in-memory connection; a LEADER that executes every frame the follower forwards (real
// BinaryServerProtocol.ProcessParse) and whose result frames go back through the link's real
// processTextProcotol; and a REFERENCE leader that a plain text connection talks to directly.  Every
// program of 3 commands out of {LOCK k, UNLOCK k, LOCK k by another id, UNLOCK by that id, PUSH j, UNLOCK j}
// (explicit LOCK_IDs, TIMEOUT 0) runs on both; the leader's results reach the follower either right after
// each command (before the next one is read) or only when the follower's handler waits for them
// (vfBlockHook).  Every reply the follower's client reads equals, byte for byte, what the reference client
// reads; the follower holds nothing itself.  Executor only.

import (
	"sync"

	"github.com/snower/slock/client"
	"github.com/snower/slock/protocol"
)

func init() { vfHarnesses["C10_forward"] = vfH_C10_forward }

type vfLinkConn struct {
	vfTConn
	frames [][]byte // 64-byte command frames the follower forwarded, not yet executed by the leader
}

func (c *vfLinkConn) Write(b []byte) (int, error) {
	c.frames = append(c.frames, append([]byte(nil), b...))
	return len(b), nil
}

func vfH_C10_forward() {
	follower := vfNewEnv(0)
	follower.slock.state = STATE_FOLLOWER
	follower.db.status = STATE_FOLLOWER
	leader := vfNewEnv(0)
	reference := vfNewEnv(0)
	vfNoBackground = true

	// the follower's client connection, wrapped
	fconn := &vfTConn{}
	fstream := NewStream(fconn)
	inner := NewTextServerProtocol(follower.slock, fstream)
	tw := NewTransparencyTextServerProtocol(follower.slock, fstream, inner)
	// its link to the leader
	link := &vfLinkConn{}
	lstream := client.NewStream(link)
	tc := &TransparencyBinaryClientProtocol{manager: follower.slock.replicationManager.transparencyManager, glock: &sync.Mutex{},
		stream: lstream, clientProtocol: client.NewBinaryClientProtocol(lstream), serverProtocol: tw}
	tw.clientProtocol = tc
	// the leader's end of the link
	lconn := &vfConnIn{}
	lp := NewBinaryServerProtocol(leader.slock, NewStream(lconn))
	// the reference: a text client of a leader
	rp, rconn := vfNewText(reference)

	deliver := func() bool {
		did := false
		for len(link.frames) > 0 {
			f := link.frames[0]
			link.frames = link.frames[1:]
			w0 := len(lconn.written)
			_ = lp.ProcessParse(f)
			for off := w0; off+64 <= len(lconn.written); off += 64 {
				r := &protocol.LockResultCommand{}
				if r.Decode(lconn.written[off:off+64]) == nil {
					_ = tc.processTextProcotol(r)
					did = true
					vfReach("relayed")
				}
			}
		}
		return did
	}
	eager := vfChoice("eager", 2) == 1
	vfBlockHook(func() bool {
		vfReach("handler-waited")
		return deliver()
	})
	run := func(p interface {
		FindHandler(string) (TextServerProtocolCommandHandler, error)
	}, tp *TextServerProtocol, args []string) {
		h, err := p.FindHandler(args[0])
		if err == nil {
			_ = h(tp, args)
		}
	}
	k, j := string(vfKeyBytes(1)), string(vfKeyBytes(2))
	ida, idb, idc := string(vfIdBytes(1)), string(vfIdBytes(2)), string(vfIdBytes(3))
	for step := 0; step < 3; step++ {
		var args []string
		switch vfChoice(vfName("c", step), 6) {
		case 0:
			args = []string{"LOCK", k, "LOCK_ID", ida, "TIMEOUT", "0", "EXPRIED", "100"}
		case 1:
			args = []string{"UNLOCK", k, "LOCK_ID", ida}
		case 2:
			args = []string{"LOCK", k, "LOCK_ID", idb, "TIMEOUT", "0", "EXPRIED", "100"}
		case 3:
			args = []string{"UNLOCK", k, "LOCK_ID", idb}
		case 4:
			args = []string{"PUSH", j, "LOCK_ID", idc, "TIMEOUT", "0", "EXPRIED", "100"}
		case 5:
			args = []string{"UNLOCK", j, "LOCK_ID", idc}
		}
		f0, r0 := len(fconn.out), len(rconn.out)
		run(tw, inner, args)
		if eager {
			deliver()
		}
		run(rp, rp, args)
		got, want := fconn.out[f0:], rconn.out[r0:]
		vfAssert(len(got) == len(want), "C10: a client of a follower was answered differently from a client of the leader (length of the reply)")
		for i := range want {
			if i < len(got) {
				vfAssert(got[i] == want[i], "C10: a client of a follower was answered differently from a client of the leader")
			}
		}
	}
	deliver()
	for n := uint8(1); n <= 2; n++ {
		m := follower.manager(vfKey(n))
		vfAssert(m == nil || len(vfHolders(m)) == 0, "C10: a follower took a hold itself in answer to a client")
	}
	vfReach("end")
}
