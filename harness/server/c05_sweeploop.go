package server

// C05_sweeploop / C06_sweeploop: the sweeper LOOPS themselves (LockDB.checkTimeOut /
// checkExpried), which every other harness replaces by its own tick helper.  One real round of
// the loop is run (hook vfSingleRound, build tag verif) after the server's clock has moved on by
// k seconds at once — a stalled process, a stepped clock — and the sweeps it started (recorded
// goroutines) are run.  Every second in between must have been visited: a wait / hold whose
// deadline fell into the gap is answered TIMEOUT / EXPRIED by this round, not a wheel turn later.
// No native replay (the sweeps are goroutines natively).

import (
	"github.com/snower/slock/protocol"
)

func init() {
	vfHarnesses["C05_sweeploop"] = vfH_C05_sweeploop
	vfHarnesses["C06_sweeploop"] = vfH_C06_sweeploop
}

func vfRealRound(env *vfEnv, expiry bool) {
	w := make(chan struct{}, 1)
	w <- struct{}{}
	vfSingleRound = true
	vfDropSpawned()
	if expiry {
		env.db.checkExpried(w)
	} else {
		env.db.checkTimeOut(w)
	}
	vfSingleRound = false
	vfRunSweepers(0)
	vfDropSpawned()
}

func vfH_C05_sweeploop() {
	env := vfNewEnv(2)
	t0 := vfBaseTime
	vfSetDBTime(env.db, t0)
	key := vfKey(1)
	a := env.newCmd(protocol.COMMAND_LOCK, key, vfLockId(1))
	a.Expried, a.ExpriedFlag = 1000, 0x0200
	env.lock(0, a)
	T := uint16(vfRange("T", 1, 4))
	b := env.newCmd(protocol.COMMAND_LOCK, key, vfLockId(2))
	b.Timeout, b.Expried, b.ExpriedFlag = T, 1000, 0x0200
	breq := b.RequestId
	env.lock(1, b)
	// the clock moves on by k seconds at once, past the deadline t0 + T + 1
	k := int64(T) + 1 + int64(vfRange("beyond", 0, 2))
	env.db.currentTime = t0 + k
	vfRealRound(env, false)
	vfAssert(vfCountResult(env.replies, breq, protocol.RESULT_TIMEOUT) == 1, "C05: after the clock moved on by several seconds at once, a wait whose deadline lay in between was not answered TIMEOUT by the sweeper's next round")
	vfAssert(env.db.checkTimeoutTime == t0+k+1, "C05: the sweeper's position is not the second after the one it has just swept")
	vfReach("end")
}

func vfH_C06_sweeploop() {
	env := vfNewEnv(2)
	t0 := vfBaseTime
	vfSetDBTime(env.db, t0)
	key := vfKey(1)
	E := uint16(vfRange("E", 1, 4))
	a := env.newCmd(protocol.COMMAND_LOCK, key, vfLockId(1))
	a.Expried, a.ExpriedFlag = E, 0x0200
	areq := a.RequestId
	env.lock(0, a)
	k := int64(E) + 1 + int64(vfRange("beyond", 0, 2))
	env.db.currentTime = t0 + k
	vfRealRound(env, true)
	vfAssert(vfCountResult(env.replies, areq, protocol.RESULT_EXPRIED) == 1, "C06: after the clock moved on by several seconds at once, a hold whose deadline lay in between was not ended by the sweeper's next round")
	vfAssert(vfHeldBy(env, key, vfLockId(1)) == 0, "C06: the hold is still there")
	vfReach("end")
}
