package server

// C02_many: ownership on a key with more holders than the per-key holder queue keeps inline
// (beyond ~225 it switches to a node queue with a LockId map).  300 LockIds hold a key of
// unlimited capacity; the oldest is released again and again (k times, k chosen so that the
// successor comes from the inline part, from the boundary, or from the map-backed part); the
// LockId released last is then unlocked a second time: UNOWN_ERROR, nothing changes; the next
// holder's own unlock is still accepted.
// C17_outoforder: holders of a shared key released out of order while the holder queue is full
// and has to compact: after everything is released and the wheel swept, every counter is back
// and the key has no live manager.

import (
	"github.com/snower/slock/protocol"
)

func init() {
	vfHarnesses["C02_many"] = vfH_C02_many
	vfHarnesses["C17_outoforder"] = vfH_C17_outoforder
}

func vfWideId(n int) [16]byte {
	var k [16]byte
	k[0], k[14], k[15] = 'L', byte(n>>8), byte(n)
	return k
}

func vfH_C02_many() {
	env := vfNewEnv(1)
	vfSetDBTime(env.db, vfBaseTime)
	key := vfKey(1)
	const N = 300 // the switch depends on how append grows the inline slice: ~225 holders natively, 256 in the executor's model
	for i := 0; i < N; i++ {
		c := env.newCmd(protocol.COMMAND_LOCK, key, vfWideId(i))
		c.Count, c.Expried, c.ExpriedFlag = 0xffff, 1000, 0x0200
		n := len(env.replies)
		env.lock(0, c)
		vfAssert(env.replies[n].result == protocol.RESULT_SUCCED, "C02: harness: lock not granted")
	}
	k := [9]int{1, 100, 223, 225, 227, 254, 256, 258, 290}[vfChoice("released", 9)]
	for i := 0; i < k; i++ {
		n := len(env.replies)
		env.unlock(0, env.newCmd(protocol.COMMAND_UNLOCK, key, vfWideId(i)))
		vfAssert(env.replies[n].result == protocol.RESULT_SUCCED, "C02: unlock by the owning LockId was refused")
	}
	m := env.manager(key)
	vfAssert(m != nil && m.locked == uint32(N-k), "C02: the key's holds are not the holders that are left")
	// the LockId released last: a second unlock must be refused and change nothing
	n := len(env.replies)
	env.unlock(0, env.newCmd(protocol.COMMAND_UNLOCK, key, vfWideId(k-1)))
	vfAssert(env.replies[n].result == protocol.RESULT_UNOWN_ERROR, "C02: an unlock by a LockId that holds nothing (it was released before) was not refused with UNOWN_ERROR")
	vfAssert(m.locked == uint32(N-k), "C02: a refused unlock changed the key's holds")
	// the oldest remaining holder's own unlock is accepted
	n = len(env.replies)
	env.unlock(0, env.newCmd(protocol.COMMAND_UNLOCK, key, vfWideId(k)))
	vfAssert(env.replies[n].result == protocol.RESULT_SUCCED && m.locked == uint32(N-k-1), "C02: unlock by the owning LockId was refused after a refused one")
	// and the newest holder's too
	n = len(env.replies)
	env.unlock(0, env.newCmd(protocol.COMMAND_UNLOCK, key, vfWideId(N-1)))
	vfAssert(env.replies[n].result == protocol.RESULT_SUCCED && m.locked == uint32(N-k-2), "C02: unlock by the newest holder was refused")
	vfReach("end")
}

func vfH_C17_outoforder() {
	env := vfNewEnv(1)
	vfSetDBTime(env.db, vfBaseTime)
	sum := func() (keys, locked, wait uint32) {
		for _, st := range env.db.states {
			if st != nil {
				keys, locked, wait = keys+st.KeyCount, locked+st.LockedCount, wait+st.WaitCount
			}
		}
		return
	}
	keys0, _, _ := sum()
	key := vfKey(1)
	lock := func(i int) {
		c := env.newCmd(protocol.COMMAND_LOCK, key, vfWideId(i))
		c.Count, c.Expried, c.ExpriedFlag = 0xffff, 100, 0x0200
		n := len(env.replies)
		env.lock(0, c)
		vfAssert(env.replies[n].result == protocol.RESULT_SUCCED, "C17: harness: lock not granted")
	}
	unlock := func(i int) {
		n := len(env.replies)
		env.unlock(0, env.newCmd(protocol.COMMAND_UNLOCK, key, vfWideId(i)))
		vfAssert(env.replies[n].result == protocol.RESULT_SUCCED, "C17: unlock by a holder was refused")
	}
	H := 7 + vfChoice("holders", 3) // 7..9 holders: the inline part of the holder queue is full at 1 + 6, 1 + 8
	for i := 0; i < H; i++ {
		lock(i)
	}
	out := 1 + vfChoice("released", 4) // a holder that is not the oldest
	unlock(out)
	more := 1 + vfChoice("more", 2)
	for i := 0; i < more; i++ {
		lock(H + i)
	}
	_, l1, _ := sum()
	vfAssert(l1 == uint32(H-1+more), "C17: LockedCount is not the number of outstanding holds")
	for i := 0; i < H+more; i++ {
		if i != out {
			unlock(i)
		}
	}
	vfTick(env, 120)
	k2, l2, w2 := sum()
	vfAssert(l2 == 0 && w2 == 0, "C17: LockedCount / WaitCount not back to zero after everything was released")
	vfAssert(k2 == keys0, "C17: KeyCount did not return after the key drained (a finished hold is still referenced)")
	vfAssert(env.manager(key) == nil, "C17: the drained key still has a live manager")
	vfReach("end")
}
