package server

// C10_wire: what a CLIENT can reach on a node that is no longer the leader.  A binary connection
// accepted while the node led stays a plain BinaryServerProtocol after the demotion; a LOCK or
// UNLOCK frame with ANY flag byte (8 symbolic bits — including bit 0x04, which marks commands
// applied from the leader's stream) goes through the real ProcessCommad.  The request must be
// refused with STATE_ERROR and change nothing.

import (
	"github.com/snower/slock/protocol"
)

func init() { vfHarnesses["C10_wire"] = vfH_C10_wire }

func vfH_C10_wire() {
	env := vfNewEnv(1)
	conn := &vfConn{}
	bp := NewBinaryServerProtocol(env.slock, NewStream(conn))
	key := vfKey(1)
	held := vfChoice("held", 2) == 1
	if held {
		h := env.newCmd(protocol.COMMAND_LOCK, key, vfLockId(1))
		h.Expried, h.ExpriedFlag, h.Count = 100, 0x0200, 5
		env.lock(0, h)
	}
	st := vfNonLeaderStatus("status")
	env.db.status = st
	env.slock.state = st
	pre := vfTakeSnap(env.manager(key))
	state := env.db.states[0]
	preLocked, preWait := state.LockedCount, state.WaitCount
	var c *protocol.LockCommand
	if vfChoice("op", 2) == 0 {
		c = env.newCmd(protocol.COMMAND_LOCK, key, vfLockId(2))
		c.Expried, c.ExpriedFlag, c.Count, c.Timeout = 100, 0x0200, 5, 0
	} else {
		c = env.newCmd(protocol.COMMAND_UNLOCK, key, vfLockId(1))
	}
	c.Flag = vfU8("flag")
	vfAssume(c.Flag&protocol.LOCK_FLAG_CONTAINS_DATA == 0) // no value frame follows
	n := len(conn.written)
	_ = bp.ProcessCommad(c)
	out := conn.written[n:]
	vfAssert(len(out) == 64, "C10: a non-leader did not answer a client's request exactly once")
	if len(out) == 64 {
		r := out[19]
		if c.CommandType == protocol.COMMAND_UNLOCK && !pre.exists {
			vfAssert(r == protocol.RESULT_STATE_ERROR || r == protocol.RESULT_UNLOCK_ERROR, "C10: a non-leader answered a client's unlock with something other than a refusal")
		} else if c.CommandType == protocol.COMMAND_LOCK && c.Flag&0x08 != 0 {
			// the concurrent-check shortcut (recorded finding of C10_refuse) may answer TIMEOUT
			vfAssert(r == protocol.RESULT_STATE_ERROR || r == protocol.RESULT_TIMEOUT, "C10: a non-leader answered a client's request on its own")
		} else {
			vfAssert(r == protocol.RESULT_STATE_ERROR, "C10: a non-leader answered a client's request on its own instead of refusing with STATE_ERROR (the client's flag byte selected the stream's path)")
		}
	}
	post := vfTakeSnap(env.manager(key))
	if pre.exists {
		vfAssert(vfUnchanged(&pre, &post), "C10: a client's request changed the key's state on a non-leader")
	} else {
		vfAssert(!post.exists || (len(post.holders) == 0 && len(post.waiters) == 0), "C10: a client's request created state on a non-leader")
	}
	vfAssert(state.LockedCount == preLocked && state.WaitCount == preWait, "C10: a client's request changed the counters on a non-leader")
	vfReach("end")
}
