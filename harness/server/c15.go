package server

// C15: the value attached to a key behaves as an atomic register.  A sequence of
// three value operations (built with the REAL client-side constructors, payload
// bytes symbolic) is carried by LOCK requests on one key; after each one the
// stored value — decoded with the REAL result accessors — must equal what a
// small sequential reference interpreter computes, and the reply must carry the
// value from immediately before the operation.  A refused request leaves it
// unchanged.  Operation kinds follow the value's kind (bytes: SET / UNSET /
// APPEND / SHIFT, number: SET / UNSET / INCR, array: SET / UNSET / PUSH / POP);
// what the server does with mismatched kinds is not specified and not asserted.

import (
	"github.com/snower/slock/protocol"
)

func init() {
	vfHarnesses["C15_ops"] = vfH_C15_ops
	vfHarnesses["C15_props"] = vfH_C15_props
	vfHarnesses["C15_ops4"] = vfH_C15_ops4
	vfHarnesses["C15_refused"] = vfH_C15_refused
}

const (
	vfVNone = iota
	vfVBytes
	vfVNum
	vfVArray
)

type vfValue struct {
	kind  int
	b     []byte
	num   int64
	items [][]byte
}

func vfSameBytes(a, b []byte) bool {
	if len(a) != len(b) {
		return false
	}
	for i := range a {
		if a[i] != b[i] {
			return false
		}
	}
	return true
}

// vfDecodeMatches: does the stored / replied frame decode to the reference value?
func vfDecodeMatches(frame []byte, v vfValue) bool {
	if v.kind == vfVNone {
		return frame == nil || (len(frame) >= 6 && frame[4]&0x3f == protocol.LOCK_DATA_COMMAND_TYPE_UNSET)
	}
	if frame == nil || len(frame) < 6 {
		return false
	}
	d := protocol.NewLockResultCommandDataFromOriginBytes(frame)
	switch v.kind {
	case vfVBytes:
		return vfSameBytes(d.GetBytesValue(), v.b)
	case vfVNum:
		return d.GetIncrValue() == v.num
	case vfVArray:
		got := d.GetArrayValue()
		if len(got) != len(v.items) {
			return false
		}
		for i := range got {
			if !vfSameBytes(got[i], v.items[i]) {
				return false
			}
		}
		return true
	}
	return false
}

// vfWithProps: when set (C15_props), each SET / INCR / APPEND / PUSH frame carries, or
// does not carry, a property block (the key property the Redis-style commands attach),
// decided per operation; the value semantics must not depend on it.
var vfWithProps bool

func vfProps(p string) []*protocol.LockCommandDataProperty {
	if !vfWithProps || !vfBool(p+".prop") {
		return nil
	}
	return []*protocol.LockCommandDataProperty{protocol.NewLockCommandDataProperty(protocol.LOCK_DATA_PROPERTY_CODE_KEY, vfBytes(p+".pv", vfRange(p+".pn", 1, 2)))}
}

func vfSetData(p string, b []byte) *protocol.LockCommandData {
	if ps := vfProps(p); ps != nil {
		return protocol.NewLockCommandDataSetDataWithProperty(b, ps)
	}
	return protocol.NewLockCommandDataSetData(b)
}

func vfIncrData(p string, d int64) *protocol.LockCommandData {
	if ps := vfProps(p); ps != nil {
		return protocol.NewLockCommandDataIncrDataWithProperty(d, ps)
	}
	return protocol.NewLockCommandDataIncrData(d)
}

func vfAppendData(p string, b []byte) *protocol.LockCommandData {
	if ps := vfProps(p); ps != nil {
		return protocol.NewLockCommandDataAppendDataWithProperty(b, ps)
	}
	return protocol.NewLockCommandDataAppendData(b)
}

func vfPushData(p string, b []byte) *protocol.LockCommandData {
	if ps := vfProps(p); ps != nil {
		return protocol.NewLockCommandDataPushDataWithProperty(b, ps)
	}
	return protocol.NewLockCommandDataPushData(b)
}

// vfNextOp chooses an operation compatible with the current kind, applies it to the
// reference value and returns the frame to send.
func vfNextOp(step int, cur vfValue) (*protocol.LockCommandData, vfValue) {
	p := vfName("op", step)
	switch cur.kind {
	case vfVNone:
		switch vfChoice(p+".k", 4) {
		case 0:
			b := vfBytes(p+".v", vfRange(p+".n", 1, 3))
			return vfSetData(p, b), vfValue{kind: vfVBytes, b: b}
		case 1:
			d := vfI64(p + ".d")
			return vfIncrData(p, d), vfValue{kind: vfVNum, num: d}
		case 2:
			b := vfBytes(p+".v", vfRange(p+".n", 1, 3))
			return vfAppendData(p, b), vfValue{kind: vfVBytes, b: b}
		default:
			b := vfBytes(p+".v", vfRange(p+".n", 1, 2))
			return vfPushData(p, b), vfValue{kind: vfVArray, items: [][]byte{b}}
		}
	case vfVBytes:
		switch vfChoice(p+".k", 4) {
		case 0:
			b := vfBytes(p+".v", vfRange(p+".n", 1, 3))
			return vfSetData(p, b), vfValue{kind: vfVBytes, b: b}
		case 1:
			return protocol.NewLockCommandDataUnsetData(), vfValue{kind: vfVNone}
		case 2:
			b := vfBytes(p+".v", vfRange(p+".n", 1, 3))
			nb := append(append([]byte(nil), cur.b...), b...)
			return vfAppendData(p, b), vfValue{kind: vfVBytes, b: nb}
		default:
			if len(cur.b) == 0 {
				return protocol.NewLockCommandDataUnsetData(), vfValue{kind: vfVNone}
			}
			n := vfRange(p+".n", 1, len(cur.b)) // shifting beyond the value is a recorded crash (C13)
			return protocol.NewLockCommandDataShiftData(uint32(n)), vfValue{kind: vfVBytes, b: append([]byte(nil), cur.b[n:]...)}
		}
	case vfVNum:
		switch vfChoice(p+".k", 3) {
		case 0:
			b := vfBytes(p+".v", vfRange(p+".n", 1, 3))
			return vfSetData(p, b), vfValue{kind: vfVBytes, b: b}
		case 1:
			return protocol.NewLockCommandDataUnsetData(), vfValue{kind: vfVNone}
		default:
			d := vfI64(p + ".d")
			return vfIncrData(p, d), vfValue{kind: vfVNum, num: cur.num + d}
		}
	default:
		switch vfChoice(p+".k", 4) {
		case 0:
			b := vfBytes(p+".v", vfRange(p+".n", 1, 3))
			return vfSetData(p, b), vfValue{kind: vfVBytes, b: b}
		case 1:
			return protocol.NewLockCommandDataUnsetData(), vfValue{kind: vfVNone}
		case 2:
			b := vfBytes(p+".v", vfRange(p+".n", 1, 2))
			ni := append(append([][]byte(nil), cur.items...), b)
			return vfPushData(p, b), vfValue{kind: vfVArray, items: ni}
		default:
			n := vfRange(p+".n", 1, 2)
			k := n
			if k > len(cur.items) {
				k = len(cur.items)
			}
			return protocol.NewLockCommandDataPopData(uint32(n)), vfValue{kind: vfVArray, items: append([][]byte(nil), cur.items[k:]...)}
		}
	}
}

var vfC15Steps = 3

func vfH_C15_ops()   { vfWithProps, vfC15Steps = false, 3; vfC15Ops() }
func vfH_C15_ops4()  { vfWithProps, vfC15Steps = false, 4; vfC15Ops() }
func vfH_C15_props() { vfWithProps, vfC15Steps = true, 3; vfC15Ops() }

func vfC15Ops() {
	env := vfNewEnv(1)
	key := vfKey(1)
	cur := vfValue{kind: vfVNone}
	for step := 0; step < vfC15Steps; step++ {
		data, next := vfNextOp(step, cur)
		c := env.newCmd(protocol.COMMAND_LOCK, key, vfLockId(uint8(1+step)))
		c.Flag = protocol.LOCK_FLAG_CONTAINS_DATA
		c.Count, c.Expried, c.ExpriedFlag = 0xffff, 100, 0x0200
		c.Data = data
		n := len(env.replies)
		env.lock(0, c)
		vfAssert(len(env.replies) == n+1 && env.replies[n].result == protocol.RESULT_SUCCED, "C15: a lock carrying a value operation was not granted")
		r := env.replies[n]
		var before []byte
		if r.hasData {
			before = r.data
		}
		vfAssert(vfDecodeMatches(before, cur), "C15: the reply does not carry the value from immediately before the operation")
		m := env.manager(key)
		vfAssert(m != nil, "C15: key vanished")
		vfAssert(vfDecodeMatches(m.GetLockData(), next), "C15: the stored value differs from what a sequential interpreter computes")
		cur = next
	}
	vfReach("end")
}

// C15_refused: a request that is refused (TIMEOUT at once / UNOWN_ERROR unlock) leaves the value unchanged
// and reports the current value.
func vfH_C15_refused() {
	env := vfNewEnv(1)
	key := vfKey(1)
	b := vfBytes("v", vfRange("n", 1, 3))
	c := env.newCmd(protocol.COMMAND_LOCK, key, vfLockId(1))
	c.Flag, c.Count, c.Expried, c.ExpriedFlag = protocol.LOCK_FLAG_CONTAINS_DATA, 0, 100, 0x0200
	c.Data = protocol.NewLockCommandDataSetData(b)
	env.lock(0, c)
	cur := vfValue{kind: vfVBytes, b: b}
	nb := vfBytes("w", 2)
	n := len(env.replies)
	if vfChoice("how", 2) == 0 {
		x := env.newCmd(protocol.COMMAND_LOCK, key, vfLockId(2))
		x.Flag, x.Count, x.Expried, x.ExpriedFlag = protocol.LOCK_FLAG_CONTAINS_DATA, 0, 100, 0x0200
		x.Data = protocol.NewLockCommandDataSetData(nb)
		env.lock(0, x)
		vfAssert(env.replies[n].result == protocol.RESULT_TIMEOUT, "C15: harness: expected an immediate TIMEOUT")
	} else {
		x := env.newCmd(protocol.COMMAND_UNLOCK, key, vfLockId(2))
		x.Flag = protocol.UNLOCK_FLAG_CONTAINS_DATA
		x.Data = protocol.NewLockCommandDataSetData(nb)
		env.unlock(0, x)
		vfAssert(env.replies[n].result == protocol.RESULT_UNOWN_ERROR, "C15: harness: expected UNOWN_ERROR")
	}
	vfAssert(vfDecodeMatches(env.manager(key).GetLockData(), cur), "C15: a refused request changed the key's value")
	r := env.replies[n]
	var shown []byte
	if r.hasData {
		shown = r.data
	}
	vfAssert(vfDecodeMatches(shown, cur), "C15: the reply to a refused request does not carry the current value")
	vfReach("end")
}

// C15_unlock: value operations carried by UNLOCK and by re-entrant LOCK requests: on every such
// path the reply must carry the value from before the operation and the stored value must be the
// interpreter's result.  Paths: plain unlock (depth 1); re-entrant re-lock; unlock of one level of
// a depth-2 hold; unlock of all levels of a depth-2 hold at once.
func init() { vfHarnesses["C15_unlock"] = vfH_C15_unlock }

func vfH_C15_unlock() {
	env := vfNewEnv(1)
	key := vfKey(1)
	v0 := vfBytes("v0", vfRange("n0", 1, 3))
	c := env.newCmd(protocol.COMMAND_LOCK, key, vfLockId(1))
	c.Count, c.Rcount, c.Expried, c.ExpriedFlag = 0xffff, 3, 100, 0x0200
	// the first lock of that LockId carries the initial value, or is a plain lock (then the other
	// holder sets the initial value): what a later request of the LockId may carry must not depend on it
	firstPlain := vfChoice("firstPlain", 2) == 1
	if !firstPlain {
		c.Flag = protocol.LOCK_FLAG_CONTAINS_DATA
		c.Data = protocol.NewLockCommandDataSetData(v0)
	}
	env.lock(0, c)
	// a second holder keeps the key (and its value) alive whatever the first one does
	k := env.newCmd(protocol.COMMAND_LOCK, key, vfLockId(9))
	k.Count, k.Expried, k.ExpriedFlag = 0xffff, 100, 0x0200
	if firstPlain {
		k.Flag = protocol.LOCK_FLAG_CONTAINS_DATA
		k.Data = protocol.NewLockCommandDataSetData(v0)
	}
	env.lock(0, k)
	cur := vfValue{kind: vfVBytes, b: v0}
	opData := func(name string) (*protocol.LockCommandData, vfValue) {
		b := vfBytes(name, vfRange(name+".n", 1, 2))
		if vfChoice(name+".k", 2) == 0 {
			return protocol.NewLockCommandDataSetData(b), vfValue{kind: vfVBytes, b: b}
		}
		return protocol.NewLockCommandDataAppendData(b), vfValue{kind: vfVBytes, b: append(append([]byte(nil), cur.b...), b...)}
	}
	check := func(what string, n int, next vfValue) {
		vfAssert(len(env.replies) == n+1 && env.replies[n].result == protocol.RESULT_SUCCED, "C15: "+what+" carrying a value operation was refused")
		r := env.replies[n]
		var before []byte
		if r.hasData {
			before = r.data
		}
		vfAssert(vfDecodeMatches(before, cur), "C15: the reply to "+what+" does not carry the value from immediately before the operation")
		vfAssert(vfDecodeMatches(env.manager(key).GetLockData(), next), "C15: after "+what+" the stored value differs from the sequential interpreter's")
		cur = next
	}
	path := vfChoice("path", 4)
	if path >= 1 {
		// re-entrant re-lock carrying an operation: depth 2
		d, next := opData("relock")
		r := env.newCmd(protocol.COMMAND_LOCK, key, vfLockId(1))
		r.Flag, r.Count, r.Rcount, r.Expried, r.ExpriedFlag = protocol.LOCK_FLAG_CONTAINS_DATA, 0xffff, 3, 100, 0x0200
		r.Data = d
		n := len(env.replies)
		env.lock(0, r)
		check("a re-entrant re-lock", n, next)
	}
	d, next := opData("unlock")
	u := env.newCmd(protocol.COMMAND_UNLOCK, key, vfLockId(1))
	u.Flag = protocol.UNLOCK_FLAG_CONTAINS_DATA
	u.Data = d
	what := "an unlock"
	switch path {
	case 2:
		u.Rcount = 1
		what = "an unlock of one re-entrant level"
	case 3:
		u.Rcount = 0
		what = "an unlock of all re-entrant levels at once"
	}
	n := len(env.replies)
	env.unlock(0, u)
	check(what, n, next)
	vfReach("end")
}
