package server

// C11_followerack: the follower's half of "acknowledged".  A follower answers an ack-required record when it
// has BOTH applied it (replay) and written it to its own log (flush report), whichever comes second, with
// the flush result folded in.  Four records one after the other through the real ReplicationAckDB follower
// functions (the entries are pooled and recycled from the second record on), each with its two events in
// either order and the flush succeeding or failing: nothing is written to the leader after the first
// event alone, exactly one 64-byte acknowledgement after the second, positive only if the replay AND the
// flush succeeded.

import (
	"github.com/snower/slock/client"
	"github.com/snower/slock/protocol"
)

func init() { vfHarnesses["C11_followerack"] = vfH_C11_followerack }

func vfH_C11_followerack() {
	env := vfNewEnv(0)
	env.slock.state = STATE_FOLLOWER
	env.db.status = STATE_FOLLOWER
	rm := env.slock.replicationManager
	conn := &vfScriptConn{}
	rc := NewReplicationClient(rm)
	rc.stream = client.NewStream(conn)
	rc.protocol = client.NewBinaryClientProtocol(rc.stream)
	rm.clientChannel = rc
	ackdb := rm.GetOrNewAckDB(0)
	vfAssert(ackdb != nil, "C11: harness: no ack DB")
	for r := 0; r < 4; r++ {
		rec := NewAofLock()
		rec.CommandType = protocol.COMMAND_LOCK
		rec.AofIndex, rec.AofOffset, rec.CommandTime = 1, uint32(1+r), 7
		rec.LockKey, rec.LockId = vfKey(uint8(1+r)), vfLockId(uint8(1+r))
		id := rec.GetAofId()
		cmd := env.newCmd(protocol.COMMAND_LOCK, rec.LockKey, rec.LockId)
		cmd.RequestId = id
		replayFirst := vfChoice(vfName("replayFirst", r), 2) == 1
		flushOk := vfChoice(vfName("flushOk", r), 2) == 1
		rec.Result = 0
		if !flushOk {
			rec.Result = protocol.RESULT_ERROR
		}
		_ = ackdb.ProcessFollowerPushAckLock(0, rec)
		n0 := len(conn.out)
		if replayFirst {
			_ = ackdb.ProcessFollowerAckLocked(0, cmd, protocol.RESULT_SUCCED, 1, 1)
		} else {
			_ = ackdb.ProcessFollowerAckAofed(0, rec)
		}
		vfAssert(len(conn.out) == n0, "C11: a follower acknowledged a record before it had both applied it and written it to its own log")
		if replayFirst {
			_ = ackdb.ProcessFollowerAckAofed(0, rec)
		} else {
			_ = ackdb.ProcessFollowerAckLocked(0, cmd, protocol.RESULT_SUCCED, 1, 1)
		}
		vfAssert(len(conn.out) == n0+64, "C11: a follower did not send exactly one acknowledgement after applying and flushing a record")
		res := conn.out[n0+19]
		if flushOk {
			vfAssert(res == protocol.RESULT_SUCCED, "C11: a follower sent a negative acknowledgement for a record it applied and flushed")
		} else {
			vfAssert(res != protocol.RESULT_SUCCED, "C11: a follower sent a positive acknowledgement although its log write failed")
		}
		for k := 0; k < 16; k++ {
			vfAssert(conn.out[n0+3+k] == id[k], "C11: the acknowledgement names another record")
		}
	}
	vfReach("end")
}
