package server

// C17_zerowaiter: a queued request with Expried = 0 asks for the lock and gives it back at once:
// when it is granted it is answered SUCCED and holds nothing.  A holder, 1..2 queued requests of
// which the first, the second or both have Expried 0 (the others 100 s); the holder unlocks and
// the queue is served; everything that holds is released.  STATE counters equal the census after
// each phase and are back to zero at the end.

import (
	"github.com/snower/slock/protocol"
)

func init() { vfHarnesses["C17_zerowaiter"] = vfH_C17_zerowaiter }

func vfH_C17_zerowaiter() {
	env := vfNewEnv(2)
	vfSetDBTime(env.db, vfBaseTime)
	sum := func() (keys, locked, wait uint32) {
		for _, st := range env.db.states {
			if st != nil {
				keys, locked, wait = keys+st.KeyCount, locked+st.LockedCount, wait+st.WaitCount
			}
		}
		return
	}
	key := vfKey(1)
	a := env.newCmd(protocol.COMMAND_LOCK, key, vfLockId(1))
	a.Expried, a.ExpriedFlag = 100, 0x0200
	env.lock(0, a)
	W := 1 + vfChoice("waiters", 2)
	zero := 1 + vfChoice("zeroMask", 3) // bit i: waiter i has Expried 0
	var reqs [2][16]byte
	for i := 0; i < W; i++ {
		w := env.newCmd(protocol.COMMAND_LOCK, key, vfLockId(uint8(11+i)))
		w.Timeout, w.Expried, w.ExpriedFlag = 50, 100, 0x0200
		if zero&(1<<uint(i)) != 0 {
			w.Expried = 0
		}
		reqs[i] = w.RequestId
		env.lock(1, w)
	}
	_, l0, w0 := sum()
	vfAssert(l0 == 1 && w0 == uint32(W), "C17: counters differ from one hold and the queued requests")
	preSnap := vfTakeSnap(env.manager(key))
	env.unlock(0, env.newCmd(protocol.COMMAND_UNLOCK, key, vfLockId(1)))
	// C04: the wake-up pass went on until the next queued request is not admissible (a request with Expried 0
	// that was served holds nothing, so the one behind it is served too)
	postSnap := vfTakeSnap(env.manager(key))
	vfC04Quiescent(env, env.manager(key), &preSnap, &postSnap)
	// census: who holds now
	holders := uint32(0)
	for _, h := range vfHolders(env.manager(key)) {
		holders += uint32(h.locked)
	}
	queued := uint32(len(vfLiveWaiters(env.manager(key))))
	_, l1, w1 := sum()
	vfAssert(l1 == holders, "C17: LockedCount differs from the outstanding holds after the queue was served (a request with Expried 0 holds nothing)")
	vfAssert(w1 == queued, "C17: WaitCount differs from the live queued requests after the queue was served")
	// release whatever holds, in turn
	for i := 0; i < W; i++ {
		if vfHeldBy(env, key, vfLockId(uint8(11+i))) > 0 {
			env.unlock(1, env.newCmd(protocol.COMMAND_UNLOCK, key, vfLockId(uint8(11+i))))
		}
	}
	vfTick(env, 120)
	_, l2, w2 := sum()
	vfAssert(l2 == 0 && w2 == 0, "C17: LockedCount / WaitCount not back to zero after everything was released")
	for i := 0; i < W; i++ {
		vfAssert(len(env.repliesFor(reqs[i])) >= 1, "C17: a queued request was never answered")
	}
	vfReach("end")
}
