package server

// C16_twodb: compaction over a log that holds the records of two databases (ids 0 and 1, or 0 and 3),
// interleaved: every program of 4 persisted operations out of {LOCK in the first database, LOCK in the
// second, UNLOCK in the first, UNLOCK in the second} (one key per database), rotation, the real compaction,
// then a restart: each database holds exactly what it held before the compaction.

import (
	"github.com/snower/slock/protocol"
)

func init() { vfHarnesses["C16_twodb"] = vfH_C16_twodb }

func vfH_C16_twodb() {
	dir := vfFSDir()
	env := vfNewEnv(1)
	vfSetDBTime(env.db, vfBaseTime)
	vfOpenAof(env, dir)
	other := [2]uint8{1, 3}[vfChoice("otherDb", 2)]
	db2 := env.slock.GetOrNewDB(other)
	vfSetDBTime(db2, vfBaseTime)
	vfDropSpawned()
	dbs := [2]*LockDB{env.db, db2}
	ids := [2]uint8{0, other}
	held := [2]bool{}
	for step := 0; step < 4; step++ {
		op := vfChoice(vfName("op", step), 4)
		w := op & 1
		if op < 2 {
			if held[w] {
				continue
			}
			c := env.newCmd(protocol.COMMAND_LOCK, vfKey(uint8(1+w)), vfLockId(uint8(1+w)))
			c.DbId, c.Expried, c.ExpriedFlag = ids[w], 0xffff, 0x4100
			_ = dbs[w].Lock(env.protos[0], c, 0)
			held[w] = true
		} else {
			if !held[w] {
				continue
			}
			u := env.newCmd(protocol.COMMAND_UNLOCK, vfKey(uint8(1+w)), vfLockId(uint8(1+w)))
			u.DbId = ids[w]
			_ = dbs[w].UnLock(env.protos[0], u, 0)
			held[w] = false
		}
		vfDrainAof(env.db)
		vfDrainAof(db2)
	}
	env.slock.aof.Flush()
	env.slock.aof.aofGlock.Lock()
	_ = env.slock.aof.RewriteAofFile(false)
	env.slock.aof.aofGlock.Unlock()
	vfDropSpawned()
	env.slock.aof.rewriteAofFiles()
	// restart
	env2 := vfNewEnv(0)
	vfSetDBTime(env2.db, vfBaseTime+1)
	aof := env2.slock.aof
	aof.dataDir = dir
	appendFiles, rewriteFile, err := aof.FindAofFiles()
	vfAssert(err == nil, "C16: the compacted directory cannot be listed")
	var files []string
	if rewriteFile != "" {
		files = append(files, rewriteFile)
	}
	files = append(files, appendFiles...)
	lerr, _ := aof.LoadAofFiles(files, vfBaseTime+1, func(filename string, aofFile *AofFile, lock *AofLock, firstLock bool) (bool, error) {
		e := aof.LoadLock(lock)
		for _, d := range env2.slock.dbs {
			if d != nil {
				vfDrainAof(d)
			}
		}
		return true, e
	})
	vfAssert(lerr == nil, "C16: recovery from the compacted directory fails")
	for w := 0; w < 2; w++ {
		n := 0
		if d := env2.slock.dbs[ids[w]]; d != nil {
			c := &protocol.LockCommand{LockKey: vfKey(uint8(1 + w))}
			if m := d.GetLockManager(c); m != nil {
				n = len(vfHolders(m))
			}
		}
		if held[w] {
			vfReach("held")
			vfAssert(n == 1, "C16: a hold of one of two databases sharing the log is gone after compaction and restart")
		} else {
			vfAssert(n == 0, "C16: a released hold came back after compaction and restart")
		}
	}
	vfReach("end")
}
