package server

// C10: only the leader decides.  The key's state is built while the database
// is the leader; then the role changes to an arbitrary non-leader state and one
// arbitrary client request (no from-aof flag) arrives: it must be refused with
// STATE_ERROR and change nothing.  Replicated holds (applied from the leader's
// stream) are not ended by the follower's own clock for 300 s past the deadline.

import (
	"github.com/snower/slock/protocol"
)

func init() {
	vfHarnesses["C10_refuse"] = vfH_C10_refuse
	vfHarnesses["C10_defer"] = vfH_C10_defer
	vfHarnesses["C10_apply"] = vfH_C10_apply
}

func vfNonLeaderStatus(name string) uint8 {
	return [5]uint8{STATE_INIT, STATE_FOLLOWER, STATE_SYNC, STATE_CONFIG, STATE_VOTE}[vfChoice(name, 5)]
}

func vfH_C10_refuse() {
	env := vfNewEnv(2)
	key := vfKey(1)
	H := vfChoice("H", 3)
	W := 0
	if H > 0 {
		W = vfChoice("W", 2)
	}
	st := vfBuildState(env, key, H, W, 0, 1)
	if H == 0 && vfChoice("idlewaiter", 2) == 1 {
		// an unheld key that nevertheless has a manager: a wait-when-unlocked request queued while this node led
		q := env.newCmd(protocol.COMMAND_LOCK, key, vfLockId(11))
		q.Timeout, q.TimeoutFlag, q.Expried, q.ExpriedFlag = 50, protocol.TIMEOUT_FLAG_LOCK_WAIT_WHEN_UNLOCK, 3, 0x0200
		n := len(env.replies)
		env.lock(1, q)
		vfAssume(len(env.replies) == n)
		st.m = env.manager(key)
		W = 1
		vfReach("idle-waiter")
	}
	env.db.status = vfNonLeaderStatus("status")
	pre := vfTakeSnap(st.m)
	state := env.db.states[0]
	preLocked, preWait := state.LockedCount, state.WaitCount
	nReplies := len(env.replies)
	aofQueued := env.db.aofChannels[0].queueCount
	op := vfChoice("op", 2)
	var cmd *protocol.LockCommand
	if op == 0 {
		cmd = env.symLock("c", key, vfStepLockId("lid", H, W), vfPCore)
		env.lock(0, cmd)
	} else {
		cmd = env.symUnlock("c", key, vfStepLockId("lid", H, W))
		env.unlock(0, cmd)
	}
	replies := env.replies[nReplies:]
	vfAssert(len(replies) == 1, "C10: a non-leader did not answer the request exactly once")
	// (a first version accepted UNLOCK_ERROR for a key this node knows nothing about; the statement says
	// STATE_ERROR, and a lagging follower that has not applied the key's LOCK yet must not answer from its own state)
	vfAssert(replies[0].result == protocol.RESULT_STATE_ERROR, "C10: a non-leader answered a client request on its own instead of refusing with STATE_ERROR")
	post := vfTakeSnap(env.manager(key))
	if pre.exists {
		vfAssert(vfUnchanged(&pre, &post), "C10: a refused request changed the key's state on a non-leader")
	} else {
		vfAssert(!post.exists || (len(post.holders) == 0 && len(post.waiters) == 0), "C10: a refused request created state on a non-leader")
	}
	vfAssert(state.LockedCount == preLocked && state.WaitCount == preWait, "C10: a refused request changed the counters on a non-leader")
	vfAssert(env.db.aofChannels[0].queueCount == aofQueued, "C10: a non-leader queued a log record for a client request")
	vfReach("end")
}

// C10_defer: a replicated hold (applied with the from-aof flag) whose deadline
// has passed is kept by a follower for 300 s (it waits for the leader's
// record); only after that may it end it.
func vfH_C10_defer() {
	env := vfNewEnv(1)
	key := vfKey(1)
	env.db.status = vfNonLeaderStatus("status") // every non-leader state, not only "follower"
	c := env.newCmd(protocol.COMMAND_LOCK, key, vfLockId(1))
	c.Flag = protocol.LOCK_FLAG_FROM_AOF
	// one holder of an exclusive key, or 2..3 replicated holders of a shared key
	H := 1 + vfChoice("holders", 3)
	c.Expried, c.Count = 3, uint16(H-1)
	env.lock(0, c)
	for i := 1; i < H; i++ {
		o := env.newCmd(protocol.COMMAND_LOCK, key, vfLockId(uint8(1+i)))
		o.Flag = protocol.LOCK_FLAG_FROM_AOF
		o.Expried, o.Count = 3, uint16(H-1)
		env.lock(0, o)
	}
	m := env.manager(key)
	vfAssert(m != nil && len(vfHolders(m)) == H, "C10: a from-aof LOCK was not applied on the follower")
	n := len(env.replies)
	late := vfChoice("late", 3)
	switch late {
	case 0:
		vfTick(env, 10)
	case 1:
		vfTick(env, 200)
	case 2:
		vfTick(env, 303)
	}
	m = env.manager(key)
	vfAssert(m != nil && len(vfHolders(m)) == H, "C10: a follower ended a replicated hold on its own clock less than 300 s after the deadline")
	for _, r := range env.replies[n:] {
		vfAssert(r.result != protocol.RESULT_EXPRIED, "C10: a follower sent EXPRIED for a replicated hold it must keep")
	}
	vfReach("kept")
	// the same hold on a leader ends at its deadline
	vfReach("end")
}

// C10_apply: a from-aof LOCK / UNLOCK is applied on a follower exactly as on the leader.
func vfH_C10_apply() {
	var snaps [2]vfSnap
	for k := 0; k < 2; k++ {
		env := vfNewEnv(1)
		key := vfKey(1)
		if k == 1 {
			env.db.status = STATE_FOLLOWER
		}
		nl := vfChoice("nlocks", 3)
		for i := 0; i <= nl; i++ {
			c := env.newCmd(protocol.COMMAND_LOCK, key, vfLockId(uint8(1+i)))
			c.Flag = protocol.LOCK_FLAG_FROM_AOF
			c.Expried, c.ExpriedFlag = 3, vfU16(vfName("eflag", i))&0x4040
			c.Count, c.Rcount = vfU16(vfName("count", i)), vfU8(vfName("rcount", i))
			env.lock(0, c)
		}
		if vfChoice("unlock", 2) == 1 {
			u := env.newCmd(protocol.COMMAND_UNLOCK, key, vfLockId(1))
			u.Flag = protocol.UNLOCK_FLAG_FROM_AOF
			env.unlock(0, u)
		}
		snaps[k] = vfTakeSnap(env.manager(key))
	}
	a, b := snaps[0], snaps[1]
	vfAssert(a.exists == b.exists && a.locked == b.locked && len(a.holders) == len(b.holders), "C10: the leader's stream applied on a follower gives different holds than on the leader")
	for i := range a.holders {
		if i < len(b.holders) {
			vfAssert(a.holders[i].lockId == b.holders[i].lockId && a.holders[i].depth == b.holders[i].depth && a.holders[i].count == b.holders[i].count,
				"C10: a replicated hold differs between leader and follower")
		}
	}
	vfReach("end")
}
