package server

// C06_expirewake: a hold that ends by EXPIRY frees capacity like any other release: the request queued
// behind it is served in that same sweep — also when another hold stays on the key (shared key: the
// expiry does not leave the key empty), and also when the expiring hold carries the rare
// "lock the reversed key when expired" flag (0x0080), whose extra step comes after the wake-up.
// Capacity 1 or 2 (Count 0 / 1); holder A (E = 3 s; with or without 0x0080), on the shared key a second
// holder B (E = 30 s) before or after A; W queues (T = 20 s); the clock runs 5 s through the real
// sweeps: A drew exactly one EXPRIED, W was granted exactly once and holds the key.

import (
	"github.com/snower/slock/protocol"
)

func init() { vfHarnesses["C06_expirewake"] = vfH_C06_expirewake }

func vfH_C06_expirewake() {
	env := vfNewEnv(3)
	vfSetDBTime(env.db, vfBaseTime)
	key := vfKey(1)
	count := uint16(vfChoice("shared", 2))
	a := env.newCmd(protocol.COMMAND_LOCK, key, vfLockId(1))
	a.Count, a.Expried, a.ExpriedFlag = count, 3, 0x0200|(vfU16("eflag")&protocol.EXPRIED_FLAG_REVERSE_KEY_LOCK_WHEN_EXPRIED)
	a.Timeout = 2
	areq := a.RequestId
	b := env.newCmd(protocol.COMMAND_LOCK, key, vfLockId(2))
	b.Count, b.Expried, b.ExpriedFlag = count, 30, 0x0200
	bFirst := count == 1 && vfChoice("bfirst", 2) == 1
	if bFirst {
		env.lock(1, b)
	}
	env.lock(0, a)
	if count == 1 && !bFirst {
		env.lock(1, b)
	}
	w := env.newCmd(protocol.COMMAND_LOCK, key, vfLockId(3))
	w.Count, w.Timeout, w.Expried, w.ExpriedFlag = count, 20, 50, 0x0200
	wreq := w.RequestId
	env.lock(2, w)
	vfAssert(len(env.repliesFor(wreq)) == 0 && vfHeldBy(env, key, vfLockId(1)) == 1, "C06: harness: the key is not full with a request queued behind it")
	vfTick(env, 5)
	vfAssert(vfCountResult(env.replies, areq, protocol.RESULT_EXPRIED) == 1, "C06: a hold was not ended with exactly one EXPRIED at its deadline")
	vfAssert(vfHeldBy(env, key, vfLockId(1)) == 0, "C06: the expired hold is still there")
	ws := env.repliesFor(wreq)
	vfAssert(len(ws) == 1 && ws[0].result == protocol.RESULT_SUCCED && vfHeldBy(env, key, vfLockId(3)) == 1, "C04: the request queued behind a hold that ended by expiry was not served although the key has room")
	if count == 1 {
		vfAssert(vfHeldBy(env, key, vfLockId(2)) == 1, "C06: the other holder of the shared key lost its hold")
	}
	vfReach("end")
}
