package server

// C19 (kernel): the packaged client primitives keep their textbook guarantees.
// The REAL client library objects (client.Lock, RLock, RWLock, Semaphore,
// MaxConcurrentFlow) build their commands; the transport is replaced by a
// harness IClient whose ExecuteCommand hands the command to the real
// LockDB.Lock / UnLock of an in-process database and turns the reply into the
// result command.  Acquire/release sequences are sequential (timeout 0), with
// n symbolic where a primitive takes one.

import (
	"errors"

	"github.com/snower/slock/client"
	"github.com/snower/slock/protocol"
)

func init() {
	vfHarnesses["C19_primitives"] = vfH_C19_primitives
}

type vfClient struct {
	*client.Client
	env *vfEnv
}

func (c *vfClient) ExecuteCommand(command protocol.ICommand, timeout int) (protocol.ICommand, error) {
	lc, ok := command.(*protocol.LockCommand)
	if !ok {
		return nil, errors.New("unsupported command")
	}
	env := c.env
	n := len(env.replies)
	cp := *lc // the server recycles command objects
	switch lc.CommandType {
	case protocol.COMMAND_LOCK:
		env.lock(0, &cp)
	case protocol.COMMAND_UNLOCK:
		env.unlock(0, &cp)
	}
	for _, r := range env.replies[n:] {
		if r.reqId == lc.RequestId {
			return protocol.NewLockResultCommand(lc, r.result, 0, r.lcount, lc.Count, r.lrcount, lc.Rcount, nil), nil
		}
	}
	return nil, errors.New("timeout")
}

func vfOK(r *protocol.LockResultCommand, err error) bool {
	return err == nil && r != nil && r.Result == protocol.RESULT_SUCCED
}

func vfH_C19_primitives() {
	env := vfNewEnv(1)
	cl := &vfClient{client.NewClient("127.0.0.1", 1), env}
	db := client.NewDatabase(0, cl)
	key := vfKey(1)
	switch vfChoice("primitive", 5) {
	case 0: // Lock: exclusive
		// the upper halves of the two time arguments are flag words (units, unlimited, ...): what the
		// client sends must carry each of them in its own field
		tf := [3]uint32{0, uint32(protocol.TIMEOUT_FLAG_MILLISECOND_TIME), uint32(protocol.TIMEOUT_FLAG_MINUTE_TIME)}[vfChoice("timeoutFlag", 3)]
		ef := [3]uint32{0, uint32(protocol.EXPRIED_FLAG_MINUTE_TIME), uint32(protocol.EXPRIED_FLAG_UNLIMITED_EXPRIED_TIME)}[vfChoice("expriedFlag", 3)]
		a, b := db.Lock(key, 0|tf<<16, 10|ef<<16), db.Lock(key, 0, 10)
		vfAssert(vfOK(a.Lock()), "C19: Lock on a free key failed")
		if hs := vfHolders(env.manager(key)); len(hs) == 1 {
			vfAssert(uint32(hs[0].command.TimeoutFlag) == tf && uint32(hs[0].command.ExpriedFlag) == ef, "C19: the hold the server took does not carry the wait / hold flags the Lock was built with")
		}
		vfAssert(!vfOK(b.Lock()), "C19: two Lock objects hold the same key at once")
		vfAssert(!vfOK(b.Unlock()), "C19: a Lock object released a key it does not hold")
		vfAssert(vfOK(a.Unlock()), "C19: the holder could not unlock")
		vfAssert(vfOK(b.Lock()), "C19: the key is not free after unlock")
	case 1: // RLock: re-entrant for its holder only, as many unlocks as locks
		a, b := db.RLock(key, 0, 10), db.RLock(key, 0, 10)
		k := vfRange("depth", 1, 3)
		for i := 0; i < k; i++ {
			vfAssert(vfOK(a.Lock()), "C19: RLock is not re-entrant for its holder")
		}
		vfAssert(!vfOK(b.Lock()), "C19: another RLock object got a key that is held")
		for i := 0; i < k; i++ {
			vfAssert(!vfOK(b.Lock()), "C19: the key became free before as many unlocks as locks")
			vfAssert(vfOK(a.Unlock()), "C19: RLock unlock failed")
		}
		vfAssert(vfOK(b.Lock()), "C19: the key is not free after as many unlocks as locks")
	case 2, 3: // Semaphore(n) / MaxConcurrentFlow(n): at most n at a time
		n := vfU16("n")
		vfAssume(n >= 1 && n <= 4)
		acquire := func() bool { return false }
		release := func() bool { return false }
		if vfChoice("flow", 2) == 0 {
			s := db.Semaphore(key, 0, 10, n)
			acquire = func() bool { return vfOK(s.Acquire()) }
			release = func() bool { return vfOK(s.Release()) }
		} else {
			f := db.MaxConcurrentFlow(key, n, 0, 10)
			_ = f
			s := db.Semaphore(key, 0, 10, n)
			acquire = func() bool { fl := db.MaxConcurrentFlow(key, n, 0, 10); return vfOK(fl.Acquire()) }
			release = func() bool { return vfOK(s.Release()) }
		}
		held := 0
		for i := 0; i < 6; i++ {
			if acquire() {
				held++
			}
			vfAssert(held <= int(n), "C19: Semaphore(n) / MaxConcurrentFlow(n) admitted more than n at a time")
			if i == 3 && held > 0 {
				vfAssert(release(), "C19: release failed")
				held--
			}
		}
		vfAssert(held == int(n), "C19: Semaphore(n) / MaxConcurrentFlow(n) admitted fewer than n although free")
		// several permits given back at once (Semaphore.ReleaseN): exactly that many become free
		if k := vfRange("releaseN", 0, 2); k > 0 && k <= held {
			s2 := db.Semaphore(key, 0, 10, n)
			got, rerr := s2.ReleaseN(k)
			vfAssert(rerr == nil && got == k, "C19: Semaphore.ReleaseN did not report the permits it was asked to give back")
			held -= k
			for i := 0; i < 4; i++ {
				if acquire() {
					held++
				}
				vfAssert(held <= int(n), "C19: after Semaphore.ReleaseN(k) more than n were admitted at a time")
			}
			vfAssert(held == int(n), "C19: after Semaphore.ReleaseN(k) fewer than n are admitted although free")
		}
	case 4: // RWLock: one writer or any number of readers; plain calls or the ...WithData variants
		rw1, rw2 := db.RWLock(key, 0, 10), db.RWLock(key, 0, 10)
		wd := vfChoice("withData", 2) == 1
		val := func() *protocol.LockCommandData { return protocol.NewLockCommandDataSetString("v") }
		wlock := func(rw *client.RWLock) bool {
			if wd {
				return vfOK(rw.LockWithData(val()))
			}
			return vfOK(rw.Lock())
		}
		wunlock := func(rw *client.RWLock) bool {
			if wd {
				return vfOK(rw.UnlockWithData(val()))
			}
			return vfOK(rw.Unlock())
		}
		rlock := func(rw *client.RWLock) bool {
			if wd {
				return vfOK(rw.RLockWithData(val()))
			}
			return vfOK(rw.RLock())
		}
		runlock := func(rw *client.RWLock) bool {
			if wd {
				return vfOK(rw.RUnlockWithData(val()))
			}
			return vfOK(rw.RUnlock())
		}
		if vfChoice("first", 2) == 0 {
			vfAssert(wlock(rw1), "C19: RWLock write lock on a free key failed")
			vfAssert(!rlock(rw2), "C19: a reader was admitted while a writer holds the key")
			vfAssert(!wlock(rw2), "C19: a second writer was admitted")
			vfAssert(wunlock(rw1), "C19: writer unlock failed")
			vfAssert(rlock(rw2), "C19: reader not admitted after the writer left")
		} else {
			vfAssert(rlock(rw1) && rlock(rw2) && rlock(rw1), "C19: readers are not admitted together")
			vfAssert(!wlock(rw2), "C19: a writer was admitted while readers hold the key")
			vfAssert(runlock(rw1) && runlock(rw1), "C19: reader unlock failed")
			vfAssert(!wlock(rw1), "C19: a writer was admitted while a reader still holds the key")
			vfAssert(runlock(rw2), "C19: reader unlock failed")
			vfAssert(wlock(rw1), "C19: writer not admitted after all readers left")
		}
	}
	vfReach("end")
}
