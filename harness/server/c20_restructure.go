package server

// C20_restructure: Restructuring on a queue whose allocated nodes reach beyond its tail (the tail
// moved back by PopRight, or the queue was drained and Reset, which keeps the base nodes), with
// most of the content already popped from the front so that the compaction frees nodes.  Then the
// queue is used on: pushes across several node boundaries, drain.  Against a plain deque.

var vfDequeToks = 16

func init() { vfHarnesses["C20_restructure"] = vfH_C20_restructure }

func vfH_C20_restructure() {
	vfDequeToks = 120
	kind := vfChoice("kind", 3)
	geo := vfChoice("geo", 2)
	base, nodes, size := int32(1), int32(8), int32(2)
	if geo == 1 {
		base = 4
	}
	var q *vfDeque
	switch kind {
	case 0:
		q = vfDequeLock(base, nodes, size)
	case 1:
		q = vfDequeCommand(base, nodes, size)
	default:
		q = vfDequeManager(base, nodes, size)
	}
	var model []int
	next := 0
	push := func(n int) {
		for i := 0; i < n; i++ {
			q.push(next)
			model = append(model, next)
			next++
		}
	}
	pop := func(n int) {
		for i := 0; i < n && len(model) > 0; i++ {
			vfAssert(q.pop() == model[0], "C20: Pop returned the wrong element")
			model = model[1:]
		}
	}
	if vfChoice("viaReset", 2) == 1 {
		push(40)
		pop(40)
		q.reset()
		push([3]int{3, 8, 14}[vfChoice("refill", 3)])
	} else {
		push([3]int{7, 15, 30}[vfChoice("fill", 3)])
		for i, r := 0, [3]int{0, 1, 3}[vfChoice("popRight", 3)]; i < r; i++ {
			vfAssert(q.popRight() == model[len(model)-1], "C20: PopRight returned the wrong element")
			model = model[:len(model)-1]
		}
	}
	keep := vfChoice("keep", 3) // how many elements stay in the queue
	pop(len(model) - keep)
	q.restruct()
	vfAssert(q.length() == len(model), "C20: Len after Restructuring disagrees with the model")
	push([3]int{5, 20, 45}[vfChoice("more", 3)])
	vfAssert(q.length() == len(model), "C20: Len disagrees with the model")
	pop(len(model))
	vfAssert(q.pop() == -1, "C20: queue not empty at the end")
	vfReach("end")
}
