package server

// C13_bufresult: the buffered reply path of the binary protocol (several commands arrive in
// one read: results are collected in the stream's 4096-byte writer buffer and flushed when
// it fills).  One inductive step: the buffer's fill level is arbitrary within its invariant
// (after every reply index + 64 <= len(buf)), one more result with a value frame of one of
// several sizes is produced; nothing may index past the buffer, and every byte produced so
// far is either in the buffer or written to the connection, in order.

import (
	"github.com/snower/slock/protocol"
)

func init() { vfHarnesses["C13_bufresult"] = vfH_C13_bufresult }

func vfH_C13_bufresult() {
	env := vfNewEnv(0)
	conn := &vfConn{}
	stream := NewStream(conn)
	stream.EnsureWriterBuffer()
	bp := NewBinaryServerProtocol(env.slock, stream)
	bp.buffered = 2
	wb := stream.writerBuffer
	size := len(wb.buf)
	// fill level: within 320 bytes of the last position the invariant allows (every boundary the reply sizes
	// below can straddle), or one of a few low values
	idx := size - 64 - vfRange("gap", 0, 320)
	if low := vfChoice("low", 4); low > 0 {
		idx = [4]int{0, 0, 64, 164}[low]
	}
	wb.index = idx
	// value frame sizes: none, small, about a reply, large but below the direct-write threshold (size-128), at and above it
	var data []byte
	switch vfChoice("data", 8) {
	case 1:
		data = make([]byte, 8)
	case 2:
		data = make([]byte, 63)
	case 3:
		data = make([]byte, 64)
	case 4:
		data = make([]byte, 100)
	case 5:
		data = make([]byte, size-129)
	case 6:
		data = make([]byte, size-128)
	case 7:
		data = make([]byte, size)
	}
	for i := range data {
		data[i] = byte(i)
	}
	cmd := &protocol.LockCommand{}
	cmd.Magic, cmd.Version, cmd.CommandType = protocol.MAGIC, protocol.VERSION, protocol.COMMAND_LOCK
	cmd.RequestId[0] = 0x5a
	_ = bp.ProcessLockResultCommand(cmd, 0, 1, 1, data)
	vfAssert(wb.index >= 0 && wb.index+64 <= size, "C13: the writer buffer's fill level left its range after a reply")
	vfAssert(len(conn.written)+wb.index == idx+64+len(data), "C13: bytes of a buffered reply were lost or duplicated")
	vfReach("end")
}
