package server

// C07_valexpired: values stay with their holds when an earlier valued hold has run out.  Three
// keys take holds that carry a value (persisted at once), one of them — the first, the middle or
// the last, or none — with E = 1 s, the others with E = 120 s.  The instance restarts 5 s later:
// the short hold is gone, every other key is held again with ITS OWN value.  (The value file is a
// sequence of frames matched to the records only by reading in step.)

import (
	"github.com/snower/slock/protocol"
)

func init() { vfHarnesses["C07_valexpired"] = vfH_C07_valexpired }

func vfH_C07_valexpired() {
	dir := vfFSDir()
	env := vfNewEnv(1)
	vfSetDBTime(env.db, vfBaseTime)
	vfOpenAof(env, dir)
	short := vfChoice("short", 4) // 3: none
	vals := [3]string{"value-one", "v2", "third"}
	for i := 0; i < 3; i++ {
		c := env.newCmd(protocol.COMMAND_LOCK, vfKey(uint8(1+i)), vfLockId(uint8(1+i)))
		c.Flag, c.Expried, c.ExpriedFlag = protocol.LOCK_FLAG_CONTAINS_DATA, 120, 0x0100
		if i == short {
			c.Expried = 1
		}
		c.Data = protocol.NewLockCommandDataSetString(vals[i])
		n := len(env.replies)
		env.lock(0, c)
		vfAssert(env.replies[n].result == protocol.RESULT_SUCCED, "C07: harness: lock not granted")
	}
	vfDrainAof(env.db)
	env.slock.aof.Flush()
	t2 := vfBaseTime + 5
	env2 := vfNewEnv(1)
	vfSetDBTime(env2.db, t2)
	aof2 := env2.slock.aof
	aof2.dataDir = dir
	err, _ := aof2.LoadAofFiles([]string{"append.aof.1"}, t2, func(filename string, aofFile *AofFile, lock *AofLock, firstLock bool) (bool, error) {
		e := aof2.LoadLock(lock)
		vfDrainAof(env2.db)
		return true, e
	})
	vfAssert(err == nil, "C07: loading the log fails")
	vfDrainAof(env2.db)
	for i := 0; i < 3; i++ {
		k := vfKey(uint8(1 + i))
		if i == short {
			vfAssert(vfHeldBy(env2, k, vfLockId(uint8(1+i))) == 0, "C07: a hold whose time had run out was restored")
			continue
		}
		vfAssert(vfHeldBy(env2, k, vfLockId(uint8(1+i))) == 1, "C07: a persisted hold with time left was not restored")
		m := env2.manager(k)
		vfAssert(m != nil && vfDecodeMatches(m.GetLockData(), vfValue{kind: vfVBytes, b: []byte(vals[i])}), "C07: a hold was restored with another hold's value (or none)")
	}
	vfReach("end")
}
