package server

// C05_msfrac / C06_msfrac: millisecond waits and holds that start at a moment which is not on
// a second boundary.  The request arrives f ms after the server's second t0 (db.currentTime =
// t0); the slot sweeper of the millisecond wheel wakes at f + (T mod 3000) ms and hands values
// of 3000 ms and more to the second wheel, whose sweep for second c cannot run before real
// time c.  The answer must not come before f + T ms and not after f + T + 2000 ms.
// C06_msrelock: a millisecond hold that is re-locked re-entrantly at r ms must not be ended at
// its original deadline (the period restarts).
// No native replay (the sweepers are sleeping goroutines natively).

import (
	"github.com/snower/slock/protocol"
)

func init() {
	vfHarnesses["C05_msfrac"] = vfH_C05_msfrac
	vfHarnesses["C06_msfrac"] = vfH_C06_msfrac
	vfHarnesses["C06_msrelock"] = vfH_C06_msrelock
}

var vfMsFracValues = [6]uint16{2999, 3000, 3300, 3999, 6001, 7900}
var vfMsFracs = [4]int64{0, 150, 850, 999}

func vfSetClockMs(t0 int64, ms int64) { vfSetClock(t0+ms/1000, (ms%1000)*1000000) }

func vfH_C05_msfrac() {
	env := vfNewEnv(2)
	t0 := vfBaseTime
	vfSetDBTime(env.db, t0)
	f := vfMsFracs[vfChoice("f", len(vfMsFracs))]
	vfSetClockMs(t0, f)
	vfDropSpawned()
	key := vfKey(1)
	a := env.newCmd(protocol.COMMAND_LOCK, key, vfLockId(1))
	a.Expried, a.ExpriedFlag = 1000, 0x0200
	env.lock(0, a)
	T := vfMsFracValues[vfChoice("T", len(vfMsFracValues))]
	b := env.newCmd(protocol.COMMAND_LOCK, key, vfLockId(2))
	b.Timeout, b.TimeoutFlag = T, protocol.TIMEOUT_FLAG_MILLISECOND_TIME
	b.Expried, b.ExpriedFlag = 1000, 0x0200
	breq := b.RequestId
	env.lock(1, b)
	vfAssert(len(env.repliesFor(breq)) == 0, "C05: a request that has to wait was answered at once")
	wake := f + int64(T%3000)
	due := f + int64(T)
	ran, next := false, 0
	answered := int64(-1)
	note := func(at int64) {
		if answered < 0 && len(env.repliesFor(breq)) > 0 {
			answered = at
		}
	}
	secs := (due+2000)/1000 + 1
	for s := int64(1); s <= secs; s++ {
		if !ran && wake <= s*1000 {
			vfSetClockMs(t0, wake)
			next = vfRunSweepers(next)
			ran = true
			note(wake)
		}
		vfSetClockMs(t0, s*1000)
		vfTick(env, 1)
		if ran {
			next = vfRunSweepers(next)
		}
		note(s * 1000)
	}
	rs := env.repliesFor(breq)
	vfAssert(len(rs) == 1 && rs[0].result == protocol.RESULT_TIMEOUT, "C05: a millisecond wait did not end with exactly one TIMEOUT")
	vfAssert(answered >= due, "C05: TIMEOUT before the requested millisecond wait had passed (request queued off the second boundary)")
	vfAssert(answered <= due+2000, "C05: TIMEOUT more than 2 s after the requested millisecond wait")
	vfReach("end")
}

func vfH_C06_msfrac() {
	env := vfNewEnv(2)
	t0 := vfBaseTime
	vfSetDBTime(env.db, t0)
	f := vfMsFracs[vfChoice("f", len(vfMsFracs))]
	vfSetClockMs(t0, f)
	vfDropSpawned()
	key := vfKey(1)
	E := vfMsFracValues[vfChoice("E", len(vfMsFracValues))]
	a := env.newCmd(protocol.COMMAND_LOCK, key, vfLockId(1))
	a.Expried, a.ExpriedFlag = E, protocol.EXPRIED_FLAG_MILLISECOND_TIME|0x0200
	areq := a.RequestId
	env.lock(0, a)
	vfAssert(vfCountResult(env.replies, areq, protocol.RESULT_SUCCED) == 1, "C06: harness: lock not granted")
	wake := f + int64(E%3000)
	due := f + int64(E)
	ran, next := false, 0
	ended := int64(-1)
	note := func(at int64) {
		if ended < 0 && vfCountResult(env.replies, areq, protocol.RESULT_EXPRIED) > 0 {
			ended = at
		}
	}
	secs := (due+2000)/1000 + 1
	for s := int64(1); s <= secs; s++ {
		if !ran && wake <= s*1000 {
			vfSetClockMs(t0, wake)
			next = vfRunSweepers(next)
			ran = true
			note(wake)
		}
		vfSetClockMs(t0, s*1000)
		vfTick(env, 1)
		if ran {
			next = vfRunSweepers(next)
		}
		note(s * 1000)
	}
	vfAssert(vfCountResult(env.replies, areq, protocol.RESULT_EXPRIED) == 1, "C06: a millisecond hold did not end with exactly one EXPRIED")
	vfAssert(ended >= due, "C06: EXPRIED before the requested millisecond time had passed (hold granted off the second boundary)")
	vfAssert(ended <= due+2000, "C06: EXPRIED more than 2 s after the requested millisecond time")
	vfReach("end")
}

// C06_msrelock: hold of E ms (below 3 s) granted at t0; re-entrant re-lock with the same terms
// at r ms < E; the slot sweeper of the ORIGINAL deadline runs at E ms: the hold must survive it;
// it must end, exactly once, in [r+E, r+E+2000].
func vfH_C06_msrelock() {
	env := vfNewEnv(2)
	t0 := vfBaseTime
	vfSetDBTime(env.db, t0)
	vfSetClockMs(t0, 0)
	vfDropSpawned()
	key := vfKey(1)
	Es := [3]uint16{500, 1500, 2999}
	E := Es[vfChoice("E", 3)]
	a := env.newCmd(protocol.COMMAND_LOCK, key, vfLockId(1))
	a.Rcount = 3
	a.Expried, a.ExpriedFlag = E, protocol.EXPRIED_FLAG_MILLISECOND_TIME|0x0200
	areq := a.RequestId
	env.lock(0, a)
	vfAssert(vfCountResult(env.replies, areq, protocol.RESULT_SUCCED) == 1, "C06: harness: lock not granted")
	r := int64(E) / 2
	if vfBool("late") {
		r = int64(E) - 1
	}
	vfSetClockMs(t0, r)
	b := env.newCmd(protocol.COMMAND_LOCK, key, vfLockId(1))
	b.Rcount = 3
	b.Expried, b.ExpriedFlag = E, protocol.EXPRIED_FLAG_MILLISECOND_TIME|0x0200
	breq := b.RequestId
	env.lock(0, b)
	vfAssert(vfCountResult(env.replies, breq, protocol.RESULT_SUCCED) == 1, "C06: harness: re-entrant re-lock not granted")
	vfReach("relocked")
	expired := func() int {
		return vfCountResult(env.replies, areq, protocol.RESULT_EXPRIED) + vfCountResult(env.replies, breq, protocol.RESULT_EXPRIED)
	}
	due := r + int64(E)
	next := 0
	ended := int64(-1)
	note := func(at int64) {
		if ended < 0 && expired() > 0 {
			ended = at
		}
	}
	// the sweeper of the original slot
	vfSetClockMs(t0, int64(E))
	next = vfRunSweepersUpTo(next, 1)
	note(int64(E))
	ranNew := false
	secs := (due+2000)/1000 + 1
	for s := int64(1); s <= secs; s++ {
		if !ranNew && due <= s*1000 {
			vfSetClockMs(t0, due)
			next = vfRunSweepers(next)
			ranNew = true
			note(due)
		}
		if s*1000 > int64(E) {
			vfSetClockMs(t0, s*1000)
			vfTick(env, 1)
			note(s * 1000)
		} else {
			env.db.currentTime++
		}
	}
	vfAssert(expired() == 1, "C06: a re-locked millisecond hold did not end with exactly one EXPRIED")
	vfAssert(ended >= due, "C06: a millisecond hold was ended before E had passed since its last successful re-lock")
	vfAssert(ended <= due+2000, "C06: a re-locked millisecond hold ended more than 2 s after its deadline")
	vfReach("end")
}

// vfRunSweepersUpTo runs the recorded sweepers from..min(n, upto)-1.
func vfRunSweepersUpTo(from, upto int) int {
	n := vfSpawnCount()
	if n > upto {
		n = upto
	}
	for i := from; i < n; i++ {
		vfRunSpawned(i)
	}
	if n < from {
		return from
	}
	return n
}
