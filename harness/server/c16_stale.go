package server

// C16_stale: a compaction that runs AFTER an interrupted one.  The first compaction dies right
// after any one of its file-system mutations (so rewrite.aof.tmp may be left behind, complete or
// not); a new instance starts on that directory (real FindAofFiles + LoadAofFiles + LoadLock),
// continues the newest append file, rotates and compacts again.  What a restart recovers after
// this second compaction must be what a restart recovered from the crash image it started on.

import (
	"os"

	"github.com/snower/slock/protocol"
)

func init() {
	vfHarnesses["C16_stale"] = vfH_C16_stale
	vfHarnesses["C16_staletmp"] = vfH_C16_staletmp
}

func vfH_C16_stale() {
	dir := vfFSDir()
	vfC16Valued = vfChoice("valued", 2) == 1
	defer func() { vfC16Valued = false }()
	env := vfC16History(dir, vfChoice("third", 2) == 1)
	mark := vfFSMark()
	env.slock.aof.rewriteAofFiles()
	n := vfFSMutations()
	vfAssert(n > mark+1, "C16: harness: compaction performed no file-system mutation")
	i := mark + vfChoice("crashAfter", n-mark)
	vfFSRestore(i)
	vfC16NextProcess(dir)
}

// C16_staletmp: one of those crash images, produced without a crash so that it replays natively: the
// first compaction wrote rewrite.aof.tmp completely (real findRewriteAofFiles + loadRewriteAofFiles)
// and died before it removed its inputs.
func vfH_C16_staletmp() {
	dir := vfFSDir()
	vfC16Valued = vfChoice("valued", 2) == 1
	defer func() { vfC16Valued = false }()
	env := vfC16History(dir, vfChoice("third", 2) == 1)
	names, err := env.slock.aof.findRewriteAofFiles()
	vfAssert(err == nil && len(names) > 0, "C16: harness: nothing to compact")
	_, _, lerr := env.slock.aof.loadRewriteAofFiles(names)
	vfAssert(lerr == nil, "C16: harness: first compaction failed")
	vfAssert(vfFSExists(dir+"/rewrite.aof.tmp"), "C16: harness: no rewrite.aof.tmp")
	vfC16NextProcess(dir)
}

func vfC16NextProcess(dir string) {
	stale := vfFSExists(dir + "/rewrite.aof.tmp")
	mid, ok := vfRecover(dir)
	vfAssert(ok, "C16: the directory left by a crash during compaction cannot be recovered (start fails)")
	// the next process
	env2 := vfNewEnv(1)
	vfSetDBTime(env2.db, vfBaseTime+1)
	aof := env2.slock.aof
	aof.dataDir = dir
	aof.rewriteSize = 1 << 30
	appendFiles, rewriteFile, err := aof.FindAofFiles()
	vfAssert(err == nil, "C16: harness: directory unreadable")
	var files []string
	if rewriteFile != "" {
		files = append(files, rewriteFile)
	}
	files = append(files, appendFiles...)
	lerr, _ := aof.LoadAofFiles(files, vfBaseTime+1, func(filename string, aofFile *AofFile, lock *AofLock, firstLock bool) (bool, error) {
		e := aof.LoadLock(lock)
		vfDrainAof(env2.db)
		return true, e
	})
	vfAssert(lerr == nil, "C16: harness: load failed")
	vfDrainAof(env2.db)
	index := uint32(1)
	if len(appendFiles) > 0 {
		last := appendFiles[len(appendFiles)-1]
		index = uint32(last[len(last)-1] - '0')
	}
	aof.aofFileIndex = index
	name := dir + "/append.aof." + string(rune('0'+index))
	f := NewAofFile(aof, name, os.O_WRONLY, 4096)
	vfAssert(f.Open() == nil, "C16: harness: cannot open the append file")
	aof.aofFile = f
	aof.inited = true
	// one more persisted hold, then rotation and the second compaction
	c := env2.newCmd(protocol.COMMAND_LOCK, vfKey(3), vfLockId(9))
	c.Expried, c.ExpriedFlag, c.Count = 0xffff, 0x4100, 5
	if vfC16Valued {
		// with values in play the new hold carries one and STAYS: the second compaction keeps a value record the
		// interrupted one never saw (what it recovers is then compared with the live state)
		c.Flag = protocol.LOCK_FLAG_CONTAINS_DATA
		c.Data = protocol.NewLockCommandDataSetString("zz")
	}
	env2.lock(0, c)
	if !vfC16Valued {
		u := env2.newCmd(protocol.COMMAND_UNLOCK, vfKey(3), vfLockId(9))
		env2.unlock(0, u)
	}
	vfDrainAof(env2.db)
	vfRotate(env2)
	aof.rewriteAofFiles()
	after, ok2 := vfRecover(dir)
	vfAssert(ok2, "C16: the directory left by a compaction that followed an interrupted one cannot be recovered")
	if vfC16Valued {
		var live vfRecovered
		for k := uint8(1); k <= 4; k++ {
			m := env2.manager(vfKey(k))
			for _, l := range vfHolders(m) {
				if live.n < 6 {
					live.keys[live.n], live.ids[live.n], live.depth[live.n] = l.command.LockKey, l.command.LockId, l.locked
					live.vals[live.n] = string(m.GetLockData())
					live.n++
				}
			}
		}
		vfReach("valued")
		vfAssert(vfSameRecovered(live, after), "C16: after a compaction that followed an interrupted one, a restart does not recover the live holds with their values")
		vfReach("end")
		return
	}
	if stale {
		vfReach("stale-tmp")
		vfAssert(vfSameRecovered(mid, after), "C16: a compaction that found a left-over rewrite.aof.tmp changed what a restart recovers")
	} else {
		vfAssert(vfSameRecovered(mid, after), "C16: a compaction after an interrupted one changed what a restart recovers")
	}
	vfReach("end")
}
