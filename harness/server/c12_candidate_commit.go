package server

// C12_candidate_commit: the candidate's commit round fails (answers lost) after its own acceptor
// has, in the meantime, accepted the proposal AND the commit of a foreign candidate (real remote
// handlers, delivered while the candidate waits for an answer).  The acceptor's pending commit
// is what keeps it from accepting a further candidacy before an announcement settles the
// election: it must survive the candidate's own failed round, and a third candidacy must still
// be refused.
// No native replay (natively Request needs a connection).

func init() { vfHarnesses["C12_candidate_commit"] = vfH_C12_candidate_commit }

var vfCandForeignCommit bool

func vfH_C12_candidate_commit() {
	env, m := vfArbiter(false)
	vfCandMgr = m
	// the other two members are data nodes, or arbiters (they vote but hold no data): a majority is
	// a majority of ALL members either way
	if vfChoice("othersAreArbiters", 2) == 1 {
		m.members[1].arbiter, m.members[2].arbiter = 1, 1
	}
	vfCandBp = NewBinaryServerProtocol(env.slock, NewStream(&vfConn{}))
	m.members[2].server = NewArbiterServer(vfCandBp)
	bpB := vfRemote(env, m)
	v := m.voter
	// the candidate's proposal round (number 5) has succeeded
	v.proposalId, v.commitId, v.proposalIndex = 5, 4, 5
	v.voteHost = "A"
	// both remote answers to the commit are lost; while waiting for B's, the foreign candidate C
	// gets its proposal 6 and its commit 6 accepted by this member's own acceptor
	vfCandLost = map[string]bool{"B": true, "C": true}
	vfCandForeignAt = ""
	vfCandMax = v.proposalId
	var aofId [16]byte
	when := vfChoice("foreignWhen", 2) // 0: before the round starts, 1: nothing foreign (control)
	foreign := false
	// the foreign candidate C proposes itself, or this member (whose log it found to be the newest)
	fhost := [2]string{"C", "A"}[vfChoice("foreignHost", 2)]
	if when == 0 {
		foreign = vfRemoteProposal(m, vfCandBp, 6, fhost, aofId) && vfRemoteCommit(m, vfCandBp, 6, fhost, aofId)
		vfAssert(foreign && v.proposalHost == fhost && v.commitId == 6, "C12: harness: the foreign candidacy was not accepted")
	}
	vfGoInline(true)
	err := v.DoCommit()
	vfGoInline(false)
	vfAssert(err != nil, "C12: a commit round succeeded with the candidate's own acknowledgement only: no majority of the members")
	if foreign {
		vfReach("foreign-committed")
		vfAssert(v.proposalHost == fhost && v.commitId == 6, "C12: a failed commit round of its own made the member forget the commit it had given to another candidate")
		// a third candidacy (B, number 7) must still be refused
		third := vfRemoteProposal(m, bpB, 7, "B", aofId) && vfRemoteCommit(m, bpB, 7, "B", aofId)
		vfAssert(!third, "C12: one member accepted the commits of two candidacies with no announcement in between")
	}
	vfReach("end")
}
