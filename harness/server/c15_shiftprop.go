package server

// C15_shiftprop (also registered under C13; every frame here is well-formed — built by the real client-side
// constructors — so none of the recorded hostile-frame crash sites of the C13_ harnesses applies and any
// crash is a violation): SHIFT by ANY 32-bit length (one solver variable) on a stored value that carries a
// property block (as every value written by the Redis-style SET does) or none: the server does not
// crash, and the stored value is what a sequential interpreter computes — the payload without its
// first min(n, len) bytes.  The stored frame's value offset depends on the property block; a clamp
// computed against the wrong offset lets the rebuild copy run out of the frame.

import (
	"github.com/snower/slock/protocol"
)

func init() { vfHarnesses["C15_shiftprop"] = vfH_C15_shiftprop }

func vfH_C15_shiftprop() {
	env := vfNewEnv(1)
	key := vfKey(1)
	ln := vfRange("len", 1, 3)
	b := vfBytes("v", ln)
	var props []*protocol.LockCommandDataProperty
	if vfChoice("prop", 2) == 1 {
		props = []*protocol.LockCommandDataProperty{protocol.NewLockCommandDataProperty(protocol.LOCK_DATA_PROPERTY_CODE_KEY, vfBytes("pv", vfRange("pn", 1, 3)))}
		vfReach("with-property")
	}
	c := env.newCmd(protocol.COMMAND_LOCK, key, vfLockId(1))
	c.Flag = protocol.LOCK_FLAG_CONTAINS_DATA
	c.Count, c.Expried, c.ExpriedFlag = 5, 100, 0x0200
	if props != nil {
		c.Data = protocol.NewLockCommandDataSetDataWithProperty(b, props)
	} else {
		c.Data = protocol.NewLockCommandDataSetData(b)
	}
	env.lock(0, c)
	n := vfU32("shift")
	s := env.newCmd(protocol.COMMAND_LOCK, key, vfLockId(2))
	s.Flag = protocol.LOCK_FLAG_CONTAINS_DATA
	s.Count, s.Expried, s.ExpriedFlag = 5, 100, 0x0200
	s.Data = protocol.NewLockCommandDataShiftData(n)
	k := len(env.replies)
	env.lock(0, s)
	vfAssert(len(env.replies) == k+1 && env.replies[k].result == protocol.RESULT_SUCCED, "C15: a lock carrying a SHIFT was not granted")
	cut := ln
	if n < uint32(ln) {
		cut = int(n)
	}
	want := vfValue{kind: vfVBytes, b: b[cut:]}
	got := env.manager(key).GetLockData()
	if n == 0 {
		vfAssert(vfDecodeMatches(got, vfValue{kind: vfVBytes, b: b}), "C15: SHIFT 0 changed the value")
	} else if cut == ln {
		vfReach("emptied")
		vfAssert(got == nil || len(got) < 6 || len(protocol.NewLockResultCommandDataFromOriginBytes(got).GetBytesValue()) == 0, "C15: a SHIFT by at least the value's length did not leave an empty value")
	} else {
		vfAssert(vfDecodeMatches(got, want), "C15: the stored value after SHIFT differs from what a sequential interpreter computes")
	}
	vfReach("end")
}
