package server

// C15_textttl: the Redis-style commands and a key's time to live.  On a real TextServerProtocol every
// program of 3 commands over a string key s and a counter key n out of {SET s v, SET s v EX 5,
// SETEX s 5 v, APPEND s x, EXPIRE s 5, PERSIST s, INCR n, DECR n, INCRBY n 3, DECRBY n 2, EXPIRE n 5,
// PERSIST n} (EXPIRE / PERSIST only on a key that exists: the absent-key form is a recorded finding),
// then 8 s pass through the real sweeps.  A plain key-value store: SET / SETEX / SET EX / EXPIRE / PERSIST
// set the time to live, the other writers keep it; a key with a time to live of 5 s is gone after 8 s
// (EXISTS 0, GET nil), a key without one is still there.

func init() { vfHarnesses["C15_textttl"] = vfH_C15_textttl }

func vfH_C15_textttl() {
	env := vfNewEnv(0)
	vfSetDBTime(env.db, vfBaseTime)
	tp, conn := vfNewText(env)
	_ = vfTextRun(tp, []string{"TIMEOUT", "SET", "0"})
	has := map[string]bool{}
	ttl := map[string]bool{} // true: the key has a time to live (5 s)
	for i := 0; i < 3; i++ {
		var args []string
		switch vfChoice("c"+string(rune('0'+i)), 12) {
		case 0:
			args = []string{"SET", "s", "v"}
			has["s"], ttl["s"] = true, false
		case 1:
			args = []string{"SET", "s", "v", "EX", "5"}
			has["s"], ttl["s"] = true, true
		case 2:
			args = []string{"SETEX", "s", "5", "v"}
			has["s"], ttl["s"] = true, true
		case 3:
			args = []string{"APPEND", "s", "x"}
			has["s"] = true
		case 4:
			if !has["s"] {
				return
			}
			args = []string{"EXPIRE", "s", "5"}
			ttl["s"] = true
		case 5:
			if !has["s"] {
				return
			}
			args = []string{"PERSIST", "s"}
			ttl["s"] = false
		case 6:
			args = []string{"INCR", "n"}
			has["n"] = true
		case 7:
			args = []string{"DECR", "n"}
			has["n"] = true
		case 8:
			args = []string{"INCRBY", "n", "3"}
			has["n"] = true
		case 9:
			args = []string{"DECRBY", "n", "2"}
			has["n"] = true
		case 10:
			if !has["n"] {
				return
			}
			args = []string{"EXPIRE", "n", "5"}
			ttl["n"] = true
		case 11:
			if !has["n"] {
				return
			}
			args = []string{"PERSIST", "n"}
			ttl["n"] = false
		}
		o0 := len(conn.out)
		_ = vfTextRun(tp, args)
		got := string(conn.out[o0:])
		vfAssert(len(got) > 0 && got[0] != '-', "C15: "+args[0]+" was refused")
	}
	vfTick(env, 8)
	for _, k := range []string{"s", "n"} {
		o0 := len(conn.out)
		_ = vfTextRun(tp, []string{"EXISTS", k})
		got := string(conn.out[o0:])
		if has[k] && !ttl[k] {
			vfReach("kept")
			vfAssert(got == ":1\r\n", "C15: a key without a time to live is gone after 8 s")
		} else {
			if has[k] {
				vfReach("expired")
			}
			vfAssert(got == ":0\r\n", "C15: a key whose time to live of 5 s has run out still exists (a writer that should keep the time to live removed it)")
		}
	}
	vfReach("end")
}
