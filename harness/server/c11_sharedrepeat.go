package server

// C11_sharedrepeat: "until then other requests for that LockId are answered LOCK_ACK_WAITING" on a
// key that is SHARED.  The hold the rule speaks of is the one of the request's own LockId — not the
// key's first holder.  Capacity 6: a plain holder P and an ack-required lock A that is pending, in
// either order (A first or P first in the holder list).  Before any acknowledgement a further request
// arrives: for A's LockId a plain repeat, a re-entry, an update, or an UNLOCK (one level / all) — each
// must be answered LOCK_ACK_WAITING and change nothing (A's original request stays unanswered, its
// depth stays 1); for P's LockId a re-entry or an UNLOCK — P's hold waits for nothing, so the answer
// is not LOCK_ACK_WAITING.  Then the follower acknowledges: A's own request gets its SUCCED.

import (
	"github.com/snower/slock/protocol"
)

func init() { vfHarnesses["C11_sharedrepeat"] = vfH_C11_sharedrepeat }

func vfH_C11_sharedrepeat() {
	dir := vfFSDir()
	env := vfNewEnv(3)
	vfSetDBTime(env.db, vfBaseTime)
	vfOpenAof(env, dir)
	Config.AofAckMode = 0
	rm := env.slock.replicationManager
	rm.serverChannels = append(rm.serverChannels, nil)
	key := vfKey(1)
	p := env.newCmd(protocol.COMMAND_LOCK, key, vfLockId(9))
	p.Count, p.Rcount, p.Expried = 5, 3, 1000
	a := env.newCmd(protocol.COMMAND_LOCK, key, vfLockId(1))
	a.TimeoutFlag = protocol.TIMEOUT_FLAG_REQUIRE_ACKED
	a.Count, a.Rcount, a.Timeout, a.Expried = 5, 3, 5, 100
	areq := a.RequestId
	pfirst := vfChoice("pfirst", 2) == 1
	if pfirst {
		env.lock(2, p)
		env.lock(0, a)
	} else {
		env.lock(0, a)
		env.lock(2, p)
	}
	vfDrainAof(env.db)
	vfAssert(len(env.repliesFor(areq)) == 0, "C11: the ack-required lock was answered before any acknowledgement")
	vfAssert(vfHeldBy(env, key, vfLockId(9)) == 1, "C11: harness: the plain holder is not a holder")
	ackdb := rm.GetAckDB(0)
	vfAssert(ackdb != nil, "C11: no ack DB after pushing an ack-required record")
	aofId, registered := ackdb.commandAofs[0][areq]
	vfAssert(registered, "C11: the ack-required record was not registered for acknowledgement")

	who := vfChoice("who", 2) // 0: the pending LockId, 1: the plain holder's LockId
	lid := vfLockId(1)
	if who == 1 {
		lid = vfLockId(9)
	}
	conn := vfChoice("conn", 2) // the hold's own connection or another one
	if who == 1 {
		conn = 2 - conn
	}
	kind := vfChoice("kind", 5)
	var req [16]byte
	switch kind {
	case 0, 1, 2: // LOCK: plain repeat / re-entry / update
		c := env.newCmd(protocol.COMMAND_LOCK, key, lid)
		c.Count, c.Rcount, c.Timeout, c.Expried = 5, 3, 0, 50
		if kind == 0 {
			c.Rcount = 0
		}
		if kind == 2 {
			c.Flag = protocol.LOCK_FLAG_UPDATE_WHEN_LOCKED
		}
		if who == 0 { // whatever its terms are: every 16-bit Count / Expried, every Rcount, with or without the require-ack flag
			c.TimeoutFlag = vfU16("tflag") & protocol.TIMEOUT_FLAG_REQUIRE_ACKED
			c.Count, c.Expried = vfU16("count"), vfU16("expried")
			if kind != 0 {
				c.Rcount = vfU8("rcount")
			}
		}
		req = c.RequestId
		env.lock(conn, c)
	default: // UNLOCK: all levels / one level
		u := env.newCmd(protocol.COMMAND_UNLOCK, key, lid)
		if kind == 4 {
			u.Rcount = 1
			if who == 0 {
				u.Rcount = vfU8("rcount")
				u.TimeoutFlag = vfU16("tflag") & protocol.TIMEOUT_FLAG_RCOUNT_IS_PRIORITY
			}
		}
		req = u.RequestId
		env.unlock(conn, u)
	}
	rs := env.repliesFor(req)
	if who == 0 {
		vfReach("pending-lockid")
		vfAssert(len(rs) == 1 && rs[0].result == protocol.RESULT_LOCK_ACK_WAITING, "C11: a request for the LockId of a lock that still waits for its acknowledgement was not answered LOCK_ACK_WAITING")
		vfAssert(len(env.repliesFor(areq)) == 0, "C11: the ack-required lock was answered before any acknowledgement")
		vfAssert(vfHeldBy(env, key, vfLockId(1)) == 1, "C11: a request answered LOCK_ACK_WAITING changed the pending hold")
	} else {
		vfReach("other-lockid")
		vfAssert(len(rs) == 1, "C03: the request was not answered exactly once")
		vfAssert(rs[0].result != protocol.RESULT_LOCK_ACK_WAITING, "C11: a request for a LockId whose hold waits for no acknowledgement was answered LOCK_ACK_WAITING because another holder of the key is pending")
	}
	// the leader's own write and the follower's acknowledgement: the pending request gets its own answer
	env.slock.aof.Flush()
	vfDrainAof(env.db)
	_ = env.slock.aof.loadLockAck(vfAckFrame(a, aofId, protocol.RESULT_SUCCED))
	vfDrainAof(env.db)
	as := env.repliesFor(areq)
	vfAssert(len(as) == 1 && as[0].result == protocol.RESULT_SUCCED, "C11: the acknowledged lock was not answered SUCCED exactly once under its own RequestId")
	vfReach("end")
}
