package server

// C16_second: a SECOND compaction.  rewrite.aof from the first compaction already holds the
// records of live holds; then some of those holds are changed (a re-entrant hold gives back
// a level, or takes one more, or its terms are updated), the log rotates again and the
// second compaction folds the new append file into a new rewrite.aof.  Recovery from the
// compacted directory must equal recovery from the directory it replaced: holds, depths,
// deadlines, Count, Rcount.

import (
	"github.com/snower/slock/protocol"
)

func init() { vfHarnesses["C16_second"] = vfH_C16_second }

func vfRotate(env *vfEnv) {
	vfDrainAof(env.db)
	env.slock.aof.Flush()
	env.slock.aof.aofGlock.Lock()
	_ = env.slock.aof.RewriteAofFile(false)
	env.slock.aof.aofGlock.Unlock()
	vfDropSpawned()
}

func vfH_C16_second() {
	dir := vfFSDir()
	env := vfNewEnv(1)
	vfSetDBTime(env.db, vfBaseTime)
	vfSetClock(vfBaseTime, 0)
	vfOpenAof(env, dir)
	keyA, keyB := vfKey(5), vfKey(6)
	// key A: re-entrant hold at depth 2; key B: a plain hold (control)
	for i := 0; i < 2; i++ {
		c := env.newCmd(protocol.COMMAND_LOCK, keyA, vfLockId(5))
		c.Expried, c.ExpriedFlag, c.Count, c.Rcount = 0xffff, 0x4100, 0, 3
		env.lock(0, c)
	}
	b := env.newCmd(protocol.COMMAND_LOCK, keyB, vfLockId(6))
	b.Expried, b.ExpriedFlag = 0xffff, 0x4100
	env.lock(0, b)
	vfRotate(env)
	env.slock.aof.rewriteAofFiles() // first compaction: rewrite.aof now holds A (twice) and B
	vfAssert(vfFSExists(dir+"/rewrite.aof"), "C16: harness: the first compaction produced no rewrite.aof")
	// the hold recorded in rewrite.aof changes
	switch vfChoice("change", 4) {
	case 0: // gives back one level
		u := env.newCmd(protocol.COMMAND_UNLOCK, keyA, vfLockId(5))
		u.Rcount = 1
		env.unlock(0, u)
	case 1: // takes one more level
		c := env.newCmd(protocol.COMMAND_LOCK, keyA, vfLockId(5))
		c.Expried, c.ExpriedFlag, c.Count, c.Rcount = 0xffff, 0x4100, 0, 3
		env.lock(0, c)
	case 2: // terms updated
		c := env.newCmd(protocol.COMMAND_LOCK, keyA, vfLockId(5))
		c.Flag = protocol.LOCK_FLAG_UPDATE_WHEN_LOCKED
		c.Expried, c.ExpriedFlag, c.Count, c.Rcount = 0xffff, 0x4100, 2, 3
		env.lock(0, c)
	case 3: // released altogether
		u := env.newCmd(protocol.COMMAND_UNLOCK, keyA, vfLockId(5))
		env.unlock(0, u)
	}
	vfRotate(env)
	beforeA, ok1 := vfRecoverTerms(dir, vfBaseTime+1, keyA)
	beforeB, ok2 := vfRecoverTerms(dir, vfBaseTime+1, keyB)
	vfAssert(ok1 && ok2, "C16: recovery from the pre-compaction directory fails")
	env.slock.aof.rewriteAofFiles() // second compaction
	afterA, ok3 := vfRecoverTerms(dir, vfBaseTime+1, keyA)
	afterB, ok4 := vfRecoverTerms(dir, vfBaseTime+1, keyB)
	vfAssert(ok3 && ok4, "C16: recovery from the compacted directory fails")
	same := func(x, y vfRecTerms) bool {
		if x.n != y.n {
			return false
		}
		for i := 0; i < x.n; i++ {
			if x.ids[i] != y.ids[i] || x.depth[i] != y.depth[i] || x.deadline[i] != y.deadline[i] || x.count[i] != y.count[i] || x.rcount[i] != y.rcount[i] {
				return false
			}
		}
		return true
	}
	vfAssert(same(beforeA, afterA), "C16: a second compaction changed what is recovered for a hold that the previous rewrite file already recorded and that changed since")
	vfAssert(same(beforeB, afterB), "C16: a second compaction changed what is recovered for an untouched hold")
	vfReach("end")
}
