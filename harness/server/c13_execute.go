package server

// C13_execute: value frames of type EXECUTE carry a nested 64-byte command, which may itself carry
// a value frame.  A well-formed EXECUTE frame (nested LOCK with a 4-byte SET value, built with the
// real constructors) is damaged the way a hostile client would: the nested frame's length prefix
// becomes any value 0..16 (symbolic), and the outer frame is cut short by 0..6 bytes (its own
// length prefix adjusted, so the connection's frame reader accepts it).  The LOCK carrying it goes
// through the real LockDB.Lock -> ProcessLockData -> DecodeLockCommand: an error or a refusal is
// fine, a crash is not.

import (
	"github.com/snower/slock/protocol"
)

func init() { vfHarnesses["C13_execute"] = vfH_C13_execute }

func vfH_C13_execute() {
	env := vfNewEnv(1)
	vfSetDBTime(env.db, vfBaseTime)
	nested := protocol.NewLockCommand(0, vfKey(2), vfLockId(2), 0, 100, 0)
	nested.ExpriedFlag = 0x0200
	nested.Data = protocol.NewLockCommandDataSetString("abcd")
	stage := [3]uint8{protocol.LOCK_DATA_STAGE_CURRENT, protocol.LOCK_DATA_STAGE_UNLOCK, protocol.LOCK_DATA_STAGE_TIMEOUT}[vfChoice("stage", 3)]
	good := protocol.NewLockCommandDataExecuteData(nested, stage)
	vfAssert(good != nil, "C13: harness: cannot build the frame")
	frame := append([]byte(nil), good.Data...)
	// the nested value frame's length prefix sits right behind the nested command
	nl := vfU32("nestedLen")
	vfAssume(nl <= 16)
	frame[70], frame[71], frame[72], frame[73] = byte(nl), byte(nl>>8), byte(nl>>16), byte(nl>>24)
	cut := vfRange("cut", 0, 6)
	// exactly as long as it claims, with no spare capacity behind it (the connection's frame reader
	// allocates length + 4 bytes): reslicing past the end must not be hidden by a roomy backing array
	short := make([]byte, len(frame)-cut)
	copy(short, frame)
	frame = short
	ol := len(frame) - 4
	frame[0], frame[1], frame[2], frame[3] = byte(ol), byte(ol>>8), byte(ol>>16), byte(ol>>24)
	c := env.newCmd(protocol.COMMAND_LOCK, vfKey(1), vfLockId(1))
	c.Flag, c.Expried, c.ExpriedFlag = protocol.LOCK_FLAG_CONTAINS_DATA, 100, 0x0200
	c.Data = protocol.NewLockCommandDataFromOriginBytes(frame)
	n := len(env.replies)
	env.lock(0, c)
	vfAssert(len(env.replies) >= n+1, "C13: a LOCK carrying an EXECUTE frame was not answered")
	// a frame for a later stage is decoded when the hold is released (a frame for the current stage
	// has been handed to the shard's executor goroutine, which the harness does not run: the shard's
	// mutex stays in the executor's favour, so no further request is made on that path)
	if stage != protocol.LOCK_DATA_STAGE_CURRENT {
		env.unlock(0, env.newCmd(protocol.COMMAND_UNLOCK, vfKey(1), vfLockId(1)))
	}
	vfReach("end")
}
