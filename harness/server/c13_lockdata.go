package server

// C13_lockdata: no value frame a client can attach to LOCK/UNLOCK crashes the
// server.  Two arbitrary frames in sequence on one key: the first (length and
// bytes symbolic) is whatever an earlier request left as the key's value, the
// second is the operation under test.  Frames are exactly what
// Stream.ReadBytesFrame hands over: 4 length bytes (little endian, equal to the
// number of bytes that follow) and then arbitrary bytes.  Every Go run-time
// panic reachable from LockDB.Lock / LockDB.UnLock is a violation.

import (
	"github.com/snower/slock/protocol"
)

func init() {
	vfHarnesses["C13_lockdata"] = vfH_C13_lockdata
	vfHarnesses["C13_lockdata_pop"] = vfH_C13_lockdata_pop
	vfHarnesses["C13_lockdata8"] = vfH_C13_lockdata8
	vfHarnesses["C13_frame"] = vfH_C13_frame
}

func vfH_C13_lockdata()     { vfC13LockData(false, 4, 6) }
func vfH_C13_lockdata8()    { vfC13LockData(false, 8, 8) }
func vfH_C13_lockdata_pop() { vfC13LockData(true, 6, 6) }

func vfFrame(name string, lo, hi int) []byte {
	l := vfRange(name+".len", lo, hi)
	b := vfBytes(name, l+4)
	b[0], b[1], b[2], b[3] = byte(l), 0, 0, 0
	return b
}

// C13_frame: the frame-to-LockCommandData step itself, for every frame length
// 0..8 (this is what BinaryServerProtocol.ProcessParse does with the frame).
func vfH_C13_frame() {
	f := vfFrame("f", 0, 8)
	d := protocol.NewLockCommandDataFromOriginBytes(f)
	_ = d.GetValueSize()
	_ = d.GetBytesValue()
	_ = d.GetIncrValue()
	_ = d.GetShiftLengthValue()
	_ = d.GetPopCountValue()
	vfReach("end")
}

func vfC13LockData(pop bool, curMax int, opMax int) {
	env := vfNewEnv(1)
	key := vfKey(1)
	held := false
	if vfChoice("hascur", 2) == 1 {
		// whatever a SET left behind: SET stores the client's frame verbatim
		f := vfFrame("cur", 2, curMax)
		f[4] = protocol.LOCK_DATA_COMMAND_TYPE_SET
		c := env.newCmd(protocol.COMMAND_LOCK, key, vfLockId(1))
		c.Flag, c.Expried, c.ExpriedFlag, c.Count = 0x20, 3, 0x0200, 0xffff
		c.Data = protocol.NewLockCommandDataFromOriginBytes(f)
		env.lock(0, c)
		held = true
		vfReach("first-frame-done")
	}
	f2 := vfFrame("op", 2, opMax)
	if pop {
		f2[4] = protocol.LOCK_DATA_COMMAND_TYPE_POP
	} else {
		ty := vfChoice("optype", 9)
		if ty < 8 {
			f2[4] = byte(ty) // stage current, that operation (POP has its own harness)
		} else {
			vfAssume(f2[4]&0x3f != protocol.LOCK_DATA_COMMAND_TYPE_POP)
		}
	}
	if held && vfChoice("onunlock", 2) == 1 {
		c := env.newCmd(protocol.COMMAND_UNLOCK, key, vfLockId(1))
		c.Flag = 0x20
		c.Data = protocol.NewLockCommandDataFromOriginBytes(f2)
		env.unlock(0, c)
	} else {
		c := env.newCmd(protocol.COMMAND_LOCK, key, vfLockId(2))
		c.Flag, c.Expried, c.ExpriedFlag, c.Count = 0x20, 3, 0x0200, 0xffff
		c.Data = protocol.NewLockCommandDataFromOriginBytes(f2)
		env.lock(0, c)
	}
	vfReach("end")
}
