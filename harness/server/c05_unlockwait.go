package server

// C05_unlockwait: an UNLOCK with the "then wait for the lock again" flag (0x08) releases the hold
// and queues its owner again with the UNLOCK request's Timeout.  Holder A, a request W queued
// behind it; A unlocks with that flag, Timeout T = 3 s (unit: seconds) and an expiry whose unit
// is seconds, milliseconds or minutes.  W is granted; A's re-queued request must be answered
// TIMEOUT no earlier than T and no later than T + 2 s — the unit of the EXPIRY must not leak into
// the wait.

import (
	"github.com/snower/slock/protocol"
)

func init() { vfHarnesses["C05_unlockwait"] = vfH_C05_unlockwait }

func vfH_C05_unlockwait() {
	env := vfNewEnv(2)
	t0 := vfBaseTime
	vfSetDBTime(env.db, t0)
	vfSetClock(t0, 0)
	vfDropSpawned()
	key := vfKey(1)
	a := env.newCmd(protocol.COMMAND_LOCK, key, vfLockId(1))
	a.Expried, a.ExpriedFlag = 100, 0x0200
	areq := a.RequestId
	env.lock(0, a)
	w := env.newCmd(protocol.COMMAND_LOCK, key, vfLockId(2))
	w.Timeout, w.Expried, w.ExpriedFlag = 100, 100, 0x0200
	wreq := w.RequestId
	env.lock(1, w)
	u := env.newCmd(protocol.COMMAND_UNLOCK, key, vfLockId(1))
	u.Flag = protocol.UNLOCK_FLAG_SUCCED_TO_LOCK_WAIT
	u.Timeout, u.TimeoutFlag = 3, 0
	u.Expried, u.ExpriedFlag = 100, [3]uint16{0x0200, 0x0200 | protocol.EXPRIED_FLAG_MILLISECOND_TIME, 0x0200 | protocol.EXPRIED_FLAG_MINUTE_TIME}[vfChoice("expiryUnit", 3)]
	ureq := u.RequestId
	env.unlock(0, u)
	vfAssert(vfCountResult(env.replies, ureq, protocol.RESULT_SUCCED) == 1, "C05: harness: the unlock was not accepted")
	vfAssert(vfCountResult(env.replies, wreq, protocol.RESULT_SUCCED) == 1, "C05: the queued request was not granted when the holder unlocked")
	timeouts := func() int { return vfCountResult(env.replies, areq, protocol.RESULT_TIMEOUT) }
	vfAssert(timeouts() == 0, "C05: the re-queued request was answered TIMEOUT at once")
	// a millisecond sweeper, if one was started for the re-queued request, runs at its time (3 ms)
	vfSetClock(t0, 3000000)
	next := vfRunSweepers(0)
	vfAssert(timeouts() == 0, "C05: the re-queued request was answered TIMEOUT before its wait had passed (the expiry's unit was applied to the wait)")
	answered := int64(-1)
	for s := int64(1); s <= 6; s++ {
		vfSetClock(t0+s, 0)
		vfTick(env, 1)
		next = vfRunSweepers(next)
		if answered < 0 && timeouts() > 0 {
			answered = s
		}
	}
	vfAssert(timeouts() == 1, "C05: the re-queued request was not answered TIMEOUT exactly once within T + 3 s")
	vfAssert(answered >= 3 && answered <= 5, "C05: the re-queued request's TIMEOUT did not come in [T, T+2s]")
	vfReach("end")
}
