package server

// C08_tail: where a restarting node continues its log.  The position is read from the tail of
// the newest log file (AofFile.ReadTail through Aof.LoadFileMaxAofLock: a follower's Aof.Init and
// the leader's LoadMaxAofId use it).  A log of a header and 1..3 records (symbolic bytes) is cut
// at every byte: the call must not fail on a torn last record, and what it returns must be the
// last COMPLETE record.

import "io"

func init() { vfHarnesses["C08_tail"] = vfH_C08_tail }

func vfH_C08_tail() {
	env := vfNewEnv(0)
	aof := env.slock.aof
	aof.dataDir = vfFSDir()
	k := vfRange("records", 1, 3)
	full := vfAofHeader()
	var recs [][]byte
	for i := 0; i < k; i++ {
		r := vfAofRecord(vfName("rec", i))
		recs = append(recs, r)
		full = append(full, r...)
	}
	cut := vfRange("cut", 12, len(full))
	vfFSWrite(aof.dataDir+"/append.aof.1", full[:cut])
	vfFSWrite(aof.dataDir+"/append.aof.1.dat", nil)
	whole := (cut - 12) / 64
	last, err := aof.LoadFileMaxAofLock("append.aof.1")
	if whole == 0 {
		vfAssert(err == io.EOF || (err == nil && last == nil), "C08: the tail of a log without a complete record was not reported as empty")
		vfReach("empty")
		return
	}
	vfAssert(err == nil && last != nil, "C08: reading the position of a log whose last record is torn fails (a follower's start fails; a leader starts without its replication state)")
	for j := 0; j < 64; j++ {
		vfAssert(last.buf[j] == recs[whole-1][j], "C08: the log position taken from the tail is not the last complete record (read across a torn record)")
	}
	vfReach("end")
}
