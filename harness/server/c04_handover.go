package server

import "github.com/snower/slock/protocol"

// C04_handover: a hot key that is never idle.  An exclusive hold is handed from holder to queued
// request R times (R = 20); before every hand-over w new requests queue (w = 1 or 2, or alternating
// 1, 2, 1, ...; optionally one more of them gives up — cancelled — before the hand-over), so the
// per-key wait queue keeps cycling through its inline buffer (fill, drain, recycle, compact) without
// the key's manager ever being reset.  Every hand-over must grant exactly the oldest live queued
// request; at the end nothing may be left queued.

func init() { vfHarnesses["C04_handover"] = vfH_C04_handover }

func vfH_C04_handover() {
	env := vfNewEnv(2)
	key := vfKey(1)
	pattern := vfChoice("pattern", 3) // 0: one per round, 1: two per round, 2: alternating
	cancel := vfChoice("cancel", 3)   // 0: nobody gives up, 1: the newest of a round does in every third round, 2: the oldest queued does
	h := env.newCmd(protocol.COMMAND_LOCK, key, vfLockId(0))
	h.Expried, h.ExpriedFlag = 0xffff, 0x4200
	env.lock(0, h)
	mkid := func(i int) [16]byte {
		var id [16]byte
		id[0], id[1], id[2] = 'w', byte(i), byte(i>>8)
		return id
	}
	type ent struct {
		req, lid [16]byte
	}
	var queue []ent
	next := 0
	cur := vfLockId(0)
	rounds := 20
	for r := 0; r < rounds; r++ {
		w := 1
		if pattern == 1 || (pattern == 2 && r%2 == 1) {
			w = 2
		}
		for i := 0; i < w; i++ {
			c := env.newCmd(protocol.COMMAND_LOCK, key, mkid(next))
			c.RequestId[8], c.RequestId[9] = byte(next), byte(next>>8)
			c.Timeout, c.Expried, c.ExpriedFlag = 1000, 0xffff, 0x4200
			n0 := len(env.replies)
			env.lock(1, c)
			vfAssert(len(env.replies) == n0, "C04: a request behind an exclusive holder was answered instead of queued")
			queue = append(queue, ent{c.RequestId, mkid(next)})
			next++
		}
		if cancel != 0 && r%3 == 2 && len(queue) >= 2 {
			at := len(queue) - 1
			if cancel == 2 {
				at = 0
			}
			u := env.newCmd(protocol.COMMAND_UNLOCK, key, queue[at].lid)
			u.Flag = protocol.UNLOCK_FLAG_CANCEL_WAIT_LOCK_WHEN_UNLOCKED
			env.unlock(0, u)
			queue = append(queue[:at], queue[at+1:]...)
		}
		n0 := len(env.replies)
		env.unlock(0, env.newCmd(protocol.COMMAND_UNLOCK, key, cur))
		granted := 0
		for _, rp := range env.replies[n0:] {
			if rp.result == protocol.RESULT_SUCCED && rp.ctype == protocol.COMMAND_LOCK {
				granted++
				vfAssert(len(queue) > 0 && rp.reqId == queue[0].req, "C04: the hand-over did not grant the oldest live queued request")
			}
		}
		vfAssert(granted == 1, "C04: a hold ended with requests queued but not exactly one was granted (lost wake-up)")
		if granted != 1 {
			return
		}
		cur = queue[0].lid
		queue = queue[1:]
	}
	// drain what is left
	for len(queue) > 0 {
		n0 := len(env.replies)
		env.unlock(0, env.newCmd(protocol.COMMAND_UNLOCK, key, cur))
		granted := 0
		for _, rp := range env.replies[n0:] {
			if rp.result == protocol.RESULT_SUCCED && rp.ctype == protocol.COMMAND_LOCK {
				granted++
				vfAssert(rp.reqId == queue[0].req, "C04: the hand-over did not grant the oldest live queued request")
			}
		}
		vfAssert(granted == 1, "C04: a hold ended with requests queued but not exactly one was granted (lost wake-up)")
		if granted != 1 {
			return
		}
		cur = queue[0].lid
		queue = queue[1:]
	}
	m := env.manager(key)
	vfAssert(len(vfLiveWaiters(m)) == 0 && env.db.states[0].WaitCount == 0, "C04: requests are still queued after every one of them should have been granted")
	vfReach("end")
}
