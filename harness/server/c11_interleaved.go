package server

// C11_interleaved: the undo of a failed ack-required lock next to another holder's value operation.
// A key of capacity 5 whose value is a counter.  A holds it and has set the counter with INCR a.  B asks
// with the require-ack flag and INCR b: the counter is a+b while B is pending.  A then updates its hold
// with INCR c (answered, shown a+b: the register is atomic) — counter a+b+c.  B's acknowledgement fails.
// Only B's change is undone: the counter is a+c, for all 64-bit a, b, c.

import (
	"github.com/snower/slock/protocol"
)

func init() { vfHarnesses["C11_interleaved"] = vfH_C11_interleaved }

func vfCounter(b []byte) (uint64, bool) {
	// stored frame: 4 length bytes, type, flag, then the 8-byte little-endian number
	if len(b) != 14 {
		return 0, false
	}
	v := uint64(0)
	for i := 0; i < 8; i++ {
		v |= uint64(b[6+i]) << (8 * uint(i))
	}
	return v, true
}

func vfH_C11_interleaved() {
	dir := vfFSDir()
	env := vfNewEnv(2)
	vfSetDBTime(env.db, vfBaseTime)
	vfOpenAof(env, dir)
	Config.AofAckMode = 0
	rm := env.slock.replicationManager
	rm.serverChannels = append(rm.serverChannels, nil)
	key := vfKey(1)
	ia, ib, ic := int64(vfU64("a")), int64(vfU64("b")), int64(vfU64("c"))
	a := env.newCmd(protocol.COMMAND_LOCK, key, vfLockId(1))
	a.Flag, a.Count, a.Expried = protocol.LOCK_FLAG_CONTAINS_DATA, 5, 100
	a.Data = protocol.NewLockCommandDataIncrData(ia)
	env.lock(0, a)
	vfDrainAof(env.db)
	vfAssert(len(env.replies) == 1 && env.replies[0].result == protocol.RESULT_SUCCED, "C11: harness: the first holder was refused")
	b := env.newCmd(protocol.COMMAND_LOCK, key, vfLockId(2))
	b.Flag, b.TimeoutFlag = protocol.LOCK_FLAG_CONTAINS_DATA, protocol.TIMEOUT_FLAG_REQUIRE_ACKED
	b.Count, b.Timeout, b.Expried = 5, 5, 100
	b.Data = protocol.NewLockCommandDataIncrData(ib)
	breq := b.RequestId
	env.lock(1, b)
	vfDrainAof(env.db)
	vfAssert(len(env.repliesFor(breq)) == 0, "C11: an ack-required lock was answered before anything was acknowledged")
	v, ok := vfCounter(env.manager(key).GetLockData())
	vfAssert(ok && v == uint64(ia)+uint64(ib), "C11: harness: the pending lock's increment is not applied")
	u := env.newCmd(protocol.COMMAND_LOCK, key, vfLockId(1))
	u.Flag, u.Count, u.Expried = protocol.LOCK_FLAG_CONTAINS_DATA|protocol.LOCK_FLAG_UPDATE_WHEN_LOCKED, 6, 100
	u.Data = protocol.NewLockCommandDataIncrData(ic)
	n := len(env.replies)
	env.lock(0, u)
	vfDrainAof(env.db)
	vfAssert(len(env.replies) == n+1 && env.replies[n].result == protocol.RESULT_LOCKED_ERROR, "C11: harness: the holder's update was not applied")
	v, ok = vfCounter(env.manager(key).GetLockData())
	vfAssert(ok && v == uint64(ia)+uint64(ib)+uint64(ic), "C11: harness: the update's increment is not applied")
	ackdb := rm.GetAckDB(0)
	aofId, registered := ackdb.commandAofs[0][breq]
	vfAssert(registered, "C11: the ack-required record was not registered for acknowledgement")
	_ = env.slock.aof.loadLockAck(vfAckFrame(b, aofId, protocol.RESULT_ERROR))
	vfDrainAof(env.db)
	rs := env.repliesFor(breq)
	vfAssert(len(rs) == 1 && rs[0].result != protocol.RESULT_SUCCED, "C11: a failed acknowledgement did not produce exactly one error reply")
	v, ok = vfCounter(env.manager(key).GetLockData())
	vfAssert(ok && v == uint64(ia)+uint64(ic), "C11: undoing a failed ack-required lock's value change also wiped the change another holder made meanwhile")
	vfReach("end")
}
