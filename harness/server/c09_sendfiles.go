package server

// C09_sendfiles: the file phase of a full transfer stops exactly at the position the leader
// announced.  A leader persists 4 records with a rotation after the second (positions (1,1) (1,2)
// (2,1) (2,2)); a follower was told "everything before position B comes from the files", B being
// any of (1,1) .. (2,3) — (1,3) and (2,3) lie behind the last record of their file, as happens when
// the announced record has since run out or been compacted.  The real ReplicationServer.sendFiles
// writes to a capturing connection: the records sent are exactly those before B in log order,
// each once, followed by the end marker.

import (
	"github.com/snower/slock/protocol"
)

func init() { vfHarnesses["C09_sendfiles"] = vfH_C09_sendfiles }

func vfH_C09_sendfiles() {
	dir := vfFSDir()
	env := vfNewEnv(1)
	vfSetDBTime(env.db, vfBaseTime)
	vfSetClock(vfBaseTime, 0)
	vfOpenAof(env, dir)
	aof := env.slock.aof
	for i := 0; i < 4; i++ {
		if i == 2 {
			vfRotate(env) // the rotation RewriteAofFile does at the size threshold, without its background compaction job
		}
		c := env.newCmd(protocol.COMMAND_LOCK, vfKey(uint8(1+i)), vfLockId(uint8(1+i)))
		c.Expried, c.ExpriedFlag = 0xffff, 0x4100
		env.lock(0, c)
		vfDrainAof(env.db)
	}
	aof.Flush()
	vfDropSpawned()
	bounds := [6][2]uint32{{1, 1}, {1, 2}, {1, 3}, {2, 1}, {2, 2}, {2, 3}}
	b := bounds[vfChoice("bound", 6)]
	conn := &vfConn{}
	bp := NewBinaryServerProtocol(env.slock, NewStream(conn))
	rs := NewReplicationServer(env.slock.replicationManager, bp)
	rs.waofLock.AofIndex, rs.waofLock.AofOffset = b[0], b[1]
	err := rs.sendFiles()
	if err != nil {
		vfFail("C09: sendFiles failed: " + err.Error())
	}
	// what was sent
	var sent [][2]uint32
	marker := false
	for off := 0; off+64 <= len(conn.written); off += 64 {
		rec := NewAofLock()
		copy(rec.buf, conn.written[off:off+64])
		vfAssert(rec.Decode() == nil, "C09: harness: a sent record does not decode")
		if rec.CommandType == protocol.COMMAND_INIT && rec.AofIndex == 0xffffffff {
			marker = true
			vfAssert(off+64 == len(conn.written), "C09: something was sent after the end marker of the file phase")
			break
		}
		sent = append(sent, [2]uint32{rec.AofIndex, rec.AofOffset})
	}
	vfAssert(marker, "C09: the file phase was not closed by its end marker")
	var want [][2]uint32
	for _, p := range [4][2]uint32{{1, 1}, {1, 2}, {2, 1}, {2, 2}} {
		if p[0] < b[0] || (p[0] == b[0] && p[1] < b[1]) {
			want = append(want, p)
		}
	}
	vfAssert(len(sent) == len(want), "C09: the file phase sent records at or beyond the announced position (they come again from the buffer: applied twice), or left some out")
	for i := range want {
		if i < len(sent) {
			vfAssert(sent[i] == want[i], "C09: the file phase sent the records in a different order than the log")
		}
	}
	vfReach("end")
}
