package server

// C17_recycle: when a key drains, its value goes with it.  More keys than the fast key table
// has slots (4 here) take holds with values, so some managers live in the ordinary key map;
// all are released; then a series of FRESH keys is locked: none may be shown a value, no
// recycled manager may still carry one, and the key counter returns to what it was.

import (
	"github.com/snower/slock/protocol"
)

func init() { vfHarnesses["C17_recycle"] = vfH_C17_recycle }

func vfH_C17_recycle() {
	env := vfNewEnv(1)
	vfSetDBTime(env.db, vfBaseTime)
	sum := func() (keys, locked, wait uint32) {
		for _, st := range env.db.states {
			if st != nil {
				keys, locked, wait = keys+st.KeyCount, locked+st.LockedCount, wait+st.WaitCount
			}
		}
		return
	}
	keys0, _, _ := sum()
	nk := 5 + vfChoice("keys", 4) // 5..8 keys on 4 fast slots
	long := vfChoice("long", 2) == 1
	for i := 0; i < nk; i++ {
		c := env.newCmd(protocol.COMMAND_LOCK, vfKey(uint8(1+i)), vfLockId(uint8(1+i)))
		c.Flag, c.Expried, c.ExpriedFlag = protocol.LOCK_FLAG_CONTAINS_DATA, 100, 0x0200
		if long && i%2 == 0 {
			c.ExpriedFlag = 0x0100 // parked in the long-expiry table at once: the manager leaves the fast table
		}
		c.Data = protocol.NewLockCommandDataSetString("value")
		n := len(env.replies)
		env.lock(0, c)
		vfAssert(len(env.replies) == n+1 && env.replies[n].result == protocol.RESULT_SUCCED, "C17: harness: lock not granted")
	}
	// released in an order chosen by a fork: ascending or descending
	desc := vfChoice("order", 2) == 1
	for j := 0; j < nk; j++ {
		i := j
		if desc {
			i = nk - 1 - j
		}
		u := env.newCmd(protocol.COMMAND_UNLOCK, vfKey(uint8(1+i)), vfLockId(uint8(1+i)))
		env.unlock(0, u)
	}
	// the expiry wheel still references the released holds until their slots are swept
	vfTick(env, 110)
	k1, _, _ := sum()
	vfAssert(k1 == keys0, "C17: KeyCount did not return to its value after every key drained")
	// 24 fresh keys, one after the other (each drains before the next)
	for i := 0; i < 24; i++ {
		k := vfKey(uint8(100 + i))
		c := env.newCmd(protocol.COMMAND_LOCK, k, vfLockId(uint8(100+i)))
		c.Expried, c.ExpriedFlag = 100, 0x0200
		n := len(env.replies)
		env.lock(0, c)
		vfAssert(len(env.replies) == n+1 && env.replies[n].result == protocol.RESULT_SUCCED, "C17: a fresh key could not be locked")
		vfAssert(!env.replies[n].hasData, "C17: a key that was never given a value was shown one (left on a recycled manager)")
		m := env.manager(k)
		vfAssert(m != nil && m.GetLockData() == nil, "C17: a fresh key's manager carries a value")
		u := env.newCmd(protocol.COMMAND_UNLOCK, k, vfLockId(uint8(100+i)))
		env.unlock(0, u)
	}
	vfTick(env, 110)
	for _, m := range env.db.freeLockManagers {
		if m != nil {
			vfAssert(m.currentData == nil, "C17: a manager returned to the free ring still carries its key's value")
		}
	}
	k2, l2, w2 := sum()
	vfAssert(k2 == keys0 && l2 == 0 && w2 == 0, "C17: counters not back to zero after everything drained")
	vfReach("end")
}
