package server

// Shared harness environment: a small real database built with the real
// constructors (NewSLock, NewLockDB; the background goroutines they start are
// recorded by the executor and never run unless a harness asks), and real
// MemWaiterServerProtocol connections whose result callback records every reply.

import (
	"github.com/hhkbp2/go-logging"
	"github.com/snower/slock/protocol"
)

type vfReply struct {
	proto   int
	reqId   [16]byte
	lockId  [16]byte
	lockKey [16]byte
	ctype   uint8
	result  uint8
	lcount  uint16
	lrcount uint8
	hasData bool
	data    []byte
	cmd     *protocol.LockCommand
}

type vfEnv struct {
	slock   *SLock
	db      *LockDB
	protos  []*MemWaiterServerProtocol
	replies []vfReply
	reqSeq  uint8
}

func vfConfig() *ServerConfig {
	return &ServerConfig{
		Bind: "127.0.0.1", Port: 5658, Log: "-", LogLevel: "ERROR", DataDir: "./data/",
		DBFastKeyCount: 4, DBConcurrent: 1, DBLockAofTime: 1, DBLockAofParcentTime: 0.3,
		AofQueueSize: 256, AofFileRewriteSize: 67174400, AofFileBufferSize: 4096,
		AofRingBufferSize: 256, AofRingBufferMaxSize: 1024,
	}
}

var vfNativeLogger logging.Logger

func vfNewEnv(nprotos int) *vfEnv {
	vfNoBackground = true // hook (build tag verif): clock, sweepers and persistence channel are driven by the harness
	cfg := vfConfig()
	var slock *SLock
	if vfSymbolic() {
		slock = NewSLock(cfg, nil)
	} else {
		// one logger for the whole native replay run: InitLogger reconfigures the process-wide root logger
		// (SetLevel takes its write lock), which must not happen while goroutines left behind by an earlier
		// case are logging (the logging library's read lock is re-entered while a writer waits: deadlock)
		if vfNativeLogger == nil {
			vfNativeLogger, _ = InitLogger(cfg)
		}
		slock = NewSLock(cfg, vfNativeLogger)
	}
	slock.state = STATE_LEADER
	db := NewLockDB(slock, 0)
	slock.dbs[0] = db
	vfDropSpawned()
	env := &vfEnv{slock: slock, db: db}
	for i := 0; i < nprotos; i++ {
		idx := i
		p := NewMemWaiterServerProtocol(slock)
		_ = p.SetResultCallback(func(sp *MemWaiterServerProtocol, command *protocol.LockCommand, result uint8, lcount uint16, lrcount uint8, data []byte) error {
			r := vfReply{proto: idx, reqId: command.RequestId, lockId: command.LockId, lockKey: command.LockKey, ctype: command.CommandType,
				result: result, lcount: lcount, lrcount: lrcount, cmd: command}
			if data != nil {
				r.hasData = true
				r.data = append([]byte(nil), data...)
			}
			env.replies = append(env.replies, r)
			return nil
		})
		env.protos = append(env.protos, p)
	}
	return env
}

// Core command subset (DESIGN 3.6): every other flag bit is zero.
const vfLockFlagMask = 0x01 | 0x02 | 0x08 | 0x20
const vfUnlockFlagMask = 0x01 | 0x02 | 0x20
const vfTimeoutFlagMask = 0x0040 | 0x0400 | 0x0010 | 0x0200 | 0x1000
const vfExpriedFlagMask = 0x0040 | 0x0400 | 0x4000 | 0x0100 | 0x0200 | 0x1000

func (env *vfEnv) reqId() [16]byte {
	env.reqSeq++
	var id [16]byte
	id[0] = env.reqSeq
	id[15] = 0x5a
	return id
}

// vfKey is the single key the lock-engine harnesses work on.
func vfKey(n uint8) [16]byte {
	var k [16]byte
	k[0] = 'k'
	k[15] = n
	return k
}

func vfLockId(n uint8) [16]byte {
	var k [16]byte
	k[0] = 'L'
	k[15] = n
	return k
}

// newCmd builds a command with a fresh RequestId.
func (env *vfEnv) newCmd(ctype uint8, key [16]byte, lockId [16]byte) *protocol.LockCommand {
	c := &protocol.LockCommand{}
	c.Magic, c.Version, c.CommandType = protocol.MAGIC, protocol.VERSION, ctype
	c.RequestId = env.reqId()
	c.LockKey, c.LockId = key, lockId
	return c
}

// Profiles select which parts of a LOCK command are symbolic in a harness; what a
// profile leaves out is fixed to the stated constant and is outside that harness's claim.
const (
	vfPAof      = 1 << iota // aof-timing expiry flags 0x0100|0x0200|0x1000 symbolic (else 0x0200: never persisted)
	vfPMinute               // minute flags symbolic (else seconds)
	vfPUnlimited            // unlimited-expiry flag symbolic
	vfPPriority             // priority flag (Rcount is priority) symbolic
	vfPWaitUnlocked         // wait-when-unlocked flag symbolic
	vfPShowUpdate           // lock flags show/update symbolic
	vfPConcurrent           // lock flag concurrent-check symbolic
	vfPLongTimes            // time classes include 0xffff
)

const vfPCore = vfPUnlimited | vfPPriority | vfPWaitUnlocked | vfPShowUpdate | vfPConcurrent

// symLock: a LOCK command whose terms are symbolic (named by prefix) within the core subset.
// Time values are drawn from small classes (the clock properties C05/C06 have their own
// harnesses with fully symbolic T and E); millisecond flags are handled there too.
func (env *vfEnv) symLock(prefix string, key [16]byte, lockId [16]byte, profile int) *protocol.LockCommand {
	c := env.newCmd(protocol.COMMAND_LOCK, key, lockId)
	fm, tm, em := uint8(0), uint16(0), uint16(0)
	if profile&vfPShowUpdate != 0 {
		fm |= 0x01 | 0x02
	}
	if profile&vfPConcurrent != 0 {
		fm |= 0x08
	}
	if profile&vfPMinute != 0 {
		tm |= 0x0040
		em |= 0x0040
	}
	if profile&vfPPriority != 0 {
		tm |= 0x0010
	}
	if profile&vfPWaitUnlocked != 0 {
		tm |= 0x0200
	}
	if profile&vfPUnlimited != 0 {
		em |= 0x4000
	}
	if profile&vfPAof != 0 {
		em |= 0x0100 | 0x0200 | 0x1000
	}
	c.Flag = vfU8(prefix+".flag") & fm
	c.TimeoutFlag = vfU16(prefix+".tflag") & tm
	c.ExpriedFlag = vfU16(prefix+".eflag") & em
	if profile&vfPAof == 0 {
		c.ExpriedFlag |= 0x0200
	}
	if profile&vfPLongTimes != 0 {
		c.Timeout = [3]uint16{0, 4, 0xffff}[vfChoice(prefix+".timeoutc", 3)]
		c.Expried = [3]uint16{0, 3, 0xffff}[vfChoice(prefix+".expriedc", 3)]
	} else {
		c.Timeout = [2]uint16{0, 4}[vfChoice(prefix+".timeoutc", 2)]
		c.Expried = [2]uint16{0, 3}[vfChoice(prefix+".expriedc", 2)]
	}
	c.Count = vfU16(prefix + ".count")
	c.Rcount = vfU8(prefix + ".rcount")
	return c
}

func (env *vfEnv) symUnlock(prefix string, key [16]byte, lockId [16]byte) *protocol.LockCommand {
	c := env.newCmd(protocol.COMMAND_UNLOCK, key, lockId)
	c.Flag = vfU8(prefix+".flag") & (0x01 | 0x02)
	c.Rcount = vfU8(prefix + ".rcount")
	c.TimeoutFlag = vfU16(prefix+".tflag") & 0x0010
	return c
}

func (env *vfEnv) lock(p int, c *protocol.LockCommand) {
	_ = env.db.Lock(env.protos[p], c, 0)
}

func (env *vfEnv) unlock(p int, c *protocol.LockCommand) {
	_ = env.db.UnLock(env.protos[p], c, 0)
}

// repliesFor returns the replies carrying the given RequestId.
func (env *vfEnv) repliesFor(reqId [16]byte) []vfReply {
	var out []vfReply
	for _, r := range env.replies {
		if r.reqId == reqId {
			out = append(out, r)
		}
	}
	return out
}

// manager returns the live manager of key, if any.
func (env *vfEnv) manager(key [16]byte) *LockManager {
	c := &protocol.LockCommand{LockKey: key}
	return env.db.GetLockManager(c)
}

// holders lists the outstanding holds of a key in age order (oldest first).
func vfHolders(m *LockManager) []*Lock {
	var hs []*Lock
	if m == nil {
		return hs
	}
	if m.currentLock != nil && m.currentLock.locked > 0 {
		hs = append(hs, m.currentLock)
	}
	if m.locks != nil {
		for i := range m.locks.IterNodes() {
			for _, l := range m.locks.IterNodeQueues(int32(i)) {
				if l != nil && l.locked > 0 {
					hs = append(hs, l)
				}
			}
		}
	}
	return hs
}

func vfDepthSum(m *LockManager) uint32 {
	s := uint32(0)
	for _, l := range vfHolders(m) {
		s += uint32(l.locked)
	}
	return s
}

// liveWaiters lists queued requests that are still pending, in queue order.
func vfLiveWaiters(m *LockManager) []*Lock {
	var ws []*Lock
	if m == nil || m.waitLocks == nil {
		return ws
	}
	for _, node := range m.waitLocks.IterNodes() {
		for _, l := range node {
			if l != nil && !l.timeouted && l.ackCount == 0xff {
				ws = append(ws, l)
			}
		}
	}
	return ws
}

// ---------------------------------------------------------------------------
// Symbolic pre-states.  The state of one key is built with REAL operations
// (so every queue, wheel slot, reference count and counter is what the code
// itself produced) and then the terms the properties quantify over — Count,
// Rcount/priority, re-entrant depth — are made symbolic in place, keeping
// locked = sum of depths and the shard counters consistent.  Shape (number of
// holders and waiters) is chosen by vfChoice.

type vfState struct {
	env     *vfEnv
	key     [16]byte
	m       *LockManager
	holders []*Lock
	waiters []*Lock
	// request ids of the commands that created holders / waiters
	holderReq [][16]byte
	waiterReq [][16]byte
}

// vfBuildState: H holders (LockIds 1..H) and W queued requests (LockIds 11..10+W).
// Holders get symbolic Count, Rcount, priority flag and depth 1..255; waiters are
// queued through the real Lock with symbolic Count/priority and are assumed to
// have queued (no reply).  waiterProfile selects what is symbolic in the waiters.
func vfBuildState(env *vfEnv, key [16]byte, H int, W int, holderProto int, waiterProto int) *vfState {
	vfHoldEFlag = 0x0200
	return vfBuildStateE(env, key, H, W, holderProto, waiterProto, 3)
}

// vfHoldEFlag: expiry flags of the holders a state is built with (0x0200: never persisted; 0x0100: persisted at once).
var vfHoldEFlag uint16 = 0x0200

// vfBuildStateE: as vfBuildState with the holders' expiry (seconds) chosen by the caller.
func vfBuildStateE(env *vfEnv, key [16]byte, H int, W int, holderProto int, waiterProto int, holdE uint16) *vfState {
	st := &vfState{env: env, key: key}
	for i := 0; i < H; i++ {
		c := env.newCmd(protocol.COMMAND_LOCK, key, vfLockId(uint8(1+i)))
		c.Count, c.Expried, c.ExpriedFlag = 0xffff, holdE, vfHoldEFlag
		n := len(env.replies)
		env.lock(holderProto, c)
		vfAssume(len(env.replies) == n+1 && env.replies[n].result == protocol.RESULT_SUCCED)
		st.holderReq = append(st.holderReq, c.RequestId)
	}
	st.m = env.manager(key)
	if H > 0 {
		st.holders = vfHolders(st.m)
		vfAssume(len(st.holders) == H)
		total := uint32(0)
		for i, l := range st.holders {
			p := vfName("h", i)
			l.command.Count = vfU16(p + ".count")
			l.command.Rcount = vfU8(p + ".rcount")
			l.command.TimeoutFlag = vfU16(p+".tflag") & 0x0010
			d := vfU8(p + ".depth")
			vfAssume(d >= 1)
			l.locked = d
			total += uint32(d)
		}
		st.m.state.LockedCount += total - st.m.locked
		st.m.locked = total
	}
	for i := 0; i < W; i++ {
		p := vfName("w", i)
		c := env.newCmd(protocol.COMMAND_LOCK, key, vfLockId(uint8(11+i)))
		c.Count = vfU16(p + ".count")
		c.Rcount = vfU8(p + ".rcount")
		c.TimeoutFlag = vfU16(p+".tflag") & 0x0010
		if vfFreeWaiter {
			c.TimeoutFlag |= protocol.TIMEOUT_FLAG_LOCK_WAIT_WHEN_UNLOCK
		}
		c.Timeout = uint16(4 + 5*i) // the first queued request times out at +5 s, the second at +10 s
		c.Expried, c.ExpriedFlag = 3, 0x0200
		n := len(env.replies)
		env.lock(waiterProto, c)
		vfAssume(len(env.replies) == n) // it queued
		st.waiterReq = append(st.waiterReq, c.RequestId)
	}
	if W > 0 {
		if st.m == nil {
			st.m = env.manager(key) // a free key: the manager exists only since the first queued request
		}
		st.waiters = vfLiveWaiters(st.m)
		vfAssume(len(st.waiters) == W)
	}
	return st
}
