package server

// C14_textreply: the result fields of text LOCK / UNLOCK replies.  One text connection sends a
// sequence of LOCK / UNLOCK commands whose COUNT and RCOUNT options differ from command to
// command (values chosen by forks); every reply, parsed back with the real text parser, carries
// the COUNT and RCOUNT of ITS request (the binary result's Count + 1 / Rcount + 1), the right
// LockId and result.  The first reply of a connection is built fresh, later ones reuse a cached
// result object.

import (
	"fmt"

	"github.com/snower/slock/protocol"
)

func init() { vfHarnesses["C14_textreply"] = vfH_C14_textreply }

func vfParseTextReply(out []byte) ([]string, bool) {
	p := protocol.NewTextParser(make([]byte, 1024), make([]byte, 64))
	if len(out) > 1024 {
		return nil, false
	}
	n := copy(p.GetReadBuf(), out)
	p.BufferUpdate(n)
	if p.ParseResponse() != nil || !p.IsParseFinish() {
		return nil, false
	}
	return p.GetArgs(), true
}

func vfReplyField(args []string, name string) string {
	for i := 0; i+1 < len(args); i++ {
		if args[i] == name {
			return args[i+1]
		}
	}
	return ""
}

func vfH_C14_textreply() {
	env := vfNewEnv(1)
	vfSetDBTime(env.db, vfBaseTime)
	tp, conn := vfNewText(env)
	counts := [3]int{1, 2, 7}
	rcounts := [3]int{1, 3, 5}
	for i := 0; i < 3; i++ {
		k := string(vfKeyBytes(uint8(1 + i)))
		id := vfIdBytes(uint8(21 + i))
		c := counts[vfChoice(vfName("count", i), 3)]
		r := rcounts[vfChoice(vfName("rcount", i), 3)]
		for _, cmd := range [2]string{"LOCK", "UNLOCK"} {
			n0 := len(conn.out)
			args := []string{cmd, k, "LOCK_ID", string(id), "COUNT", fmt.Sprintf("%d", c), "RCOUNT", fmt.Sprintf("%d", r)}
			if cmd == "LOCK" {
				args = append(args, "EXPRIED", "100", "TIMEOUT", "0")
			}
			_ = vfTextRun(tp, args)
			rep, ok := vfParseTextReply(conn.out[n0:])
			vfAssert(ok && len(rep) >= 12, "C14: a text "+cmd+" reply does not parse back")
			vfAssert(rep[0] == "0", "C14: harness: text "+cmd+" refused")
			vfAssert(vfReplyField(rep, "LOCK_ID") == fmt.Sprintf("%x", id), "C14: a text reply carries another request's LockId")
			vfAssert(vfReplyField(rep, "COUNT") == fmt.Sprintf("%d", c), "C14: the COUNT field of a text reply is not its request's Count")
			vfAssert(vfReplyField(rep, "RCOUNT") == fmt.Sprintf("%d", r), "C14: the RCOUNT field of a text reply is not its request's Rcount (a reused result object kept an earlier reply's value)")
		}
	}
	vfReach("end")
}
