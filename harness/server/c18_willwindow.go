package server

// C18_willwindow: a reply that is routed while a same-id connection is draining its wills.
// Connections A and B both announce client id X (B last).  A leaves two queued requests — on K
// (held by B) and on K2 (held by an unrelated connection) — and closes.  B has registered
// WILL_UNLOCK K and closes: its will releases K and A's first request is granted while B is
// closed but still registered under X (the reply has nowhere to go).  Then C announces X and K2
// is released: A's second reply must reach C.

import (
	"github.com/snower/slock/protocol"
)

func init() { vfHarnesses["C18_willwindow"] = vfH_C18_willwindow }

func vfH_C18_willwindow() {
	env := vfNewEnv(1)
	connA, connB, connC := &vfConn{}, &vfConn{}, &vfConn{}
	a := NewBinaryServerProtocol(env.slock, NewStream(connA))
	b := NewBinaryServerProtocol(env.slock, NewStream(connB))
	c := NewBinaryServerProtocol(env.slock, NewStream(connC))
	var cid [16]byte
	cid[0], cid[15] = 'X', 1
	_ = a.ProcessCommad(protocol.NewInitCommand(cid))
	_ = b.ProcessCommad(protocol.NewInitCommand(cid))
	k, k2 := vfKey(1), vfKey(2)
	// B holds K, an unrelated connection holds K2
	hb := env.newCmd(protocol.COMMAND_LOCK, k, vfLockId(1))
	hb.Expried, hb.ExpriedFlag = 0xffff, 0x4200
	_ = b.ProcessCommad(hb)
	h2 := env.newCmd(protocol.COMMAND_LOCK, k2, vfLockId(2))
	h2.Expried, h2.ExpriedFlag = 0xffff, 0x4200
	env.lock(0, h2)
	// A queues behind both and closes
	q1 := env.newCmd(protocol.COMMAND_LOCK, k, vfLockId(11))
	q1.Timeout, q1.Expried, q1.ExpriedFlag = 100, 0xffff, 0x4200
	_ = a.ProcessCommad(q1)
	q2 := env.newCmd(protocol.COMMAND_LOCK, k2, vfLockId(12))
	q2.Timeout, q2.Expried, q2.ExpriedFlag = 100, 0xffff, 0x4200
	_ = a.ProcessCommad(q2)
	_ = a.Close()
	// B's will: release K when B's connection ends
	// (or, by choice, B releases K itself just before it closes: no will-drain window)
	if vfChoice("byWill", 2) == 1 {
		w := env.newCmd(protocol.COMMAND_WILL_UNLOCK, k, vfLockId(1))
		_ = b.ProcessCommad(w)
		vfReach("will")
	} else {
		_ = b.ProcessCommad(env.newCmd(protocol.COMMAND_UNLOCK, k, vfLockId(1)))
	}
	_ = b.Close()
	vfAssert(vfHeldBy(env, k, vfLockId(11)) == 1, "C18: the request left queued by the closed connection was not granted when the will released the key")
	// C speaks for X now
	_ = c.ProcessCommad(protocol.NewInitCommand(cid))
	n3 := len(connC.written)
	env.unlock(0, env.newCmd(protocol.COMMAND_UNLOCK, k2, vfLockId(2)))
	vfAssert(vfHeldBy(env, k2, vfLockId(12)) == 1, "C18: the second request left queued by the closed connection was not granted")
	vfAssert(vfGrantIn(connC.written[n3:], q2.RequestId), "C18: a reply for the closed connection was not delivered to the connection that announced the same client id (it was routed during another connection's will drain)")
	for _, r := range env.replies {
		vfAssert(r.reqId != q1.RequestId && r.reqId != q2.RequestId, "C18: the reply went to an unrelated client")
	}
	vfReach("end")
}
