package server

// C19 continued: Event and PriorityLock through the real client objects.
//   C19_event     every program of 4 operations from {Set, Clear, IsSet, Wait(0), Wait(5)} on two
//                 Event objects for one key (both modes: default-set, default-clear) against a
//                 boolean: IsSet and Wait(0) report the flag; a Wait that has to wait is granted
//                 only by a later Set, never before.
//   C19_priority  a holder and 2..3 PriorityLock waiters with symbolic priorities; at each release
//                 the key goes to the highest waiting priority (FIFO among equals).

import (
	"github.com/snower/slock/client"
	"github.com/snower/slock/protocol"
)

func init() {
	vfHarnesses["C19_event"] = vfH_C19_event
	vfHarnesses["C19_priority"] = vfH_C19_priority
}

// vfClientLog: like vfClient, and remembers the RequestId of every command it carried.
type vfClientLog struct {
	*client.Client
	env  *vfEnv
	reqs [][16]byte
}

func (c *vfClientLog) ExecuteCommand(command protocol.ICommand, timeout int) (protocol.ICommand, error) {
	lc, ok := command.(*protocol.LockCommand)
	if !ok {
		return nil, vfErrUnsupported
	}
	env := c.env
	n := len(env.replies)
	cp := *lc
	c.reqs = append(c.reqs, lc.RequestId)
	switch lc.CommandType {
	case protocol.COMMAND_LOCK:
		env.lock(0, &cp)
	case protocol.COMMAND_UNLOCK:
		env.unlock(0, &cp)
	}
	for _, r := range env.replies[n:] {
		if r.reqId == lc.RequestId {
			return protocol.NewLockResultCommand(lc, r.result, 0, r.lcount, lc.Count, r.lrcount, lc.Rcount, nil), nil
		}
	}
	return nil, vfErrTimeout // still queued on the server: the client call would block; the harness goes on
}

type vfStrErr string

func (e vfStrErr) Error() string { return string(e) }

const vfErrUnsupported = vfStrErr("unsupported command")
const vfErrTimeout = vfStrErr("timeout")

func vfH_C19_event() {
	env := vfNewEnv(1)
	cl := &vfClientLog{client.NewClient("127.0.0.1", 1), env, nil}
	db := client.NewDatabase(0, cl)
	key := vfKey(1)
	clearMode := vfChoice("mode", 2) == 1
	var ev [2]*client.Event
	for i := range ev {
		if clearMode {
			ev[i] = client.NewDefaultClearEvent(db, key, 5, 60)
		} else {
			ev[i] = client.NewDefaultSetEvent(db, key, 5, 60)
		}
	}
	set := !clearMode
	vfSetDBTime(env.db, vfBaseTime)
	var pending [][16]byte // waits that had to wait (5 s)
	var short [][16]byte   // waits that had to wait with a 2 s timeout
	for step := 0; step < 4; step++ {
		e := ev[vfChoice(vfName("who", step), 2)]
		n := len(env.replies)
		switch vfChoice(vfName("op", step), 7) {
		case 5:
			// a shorter wait
			k := len(cl.reqs)
			_, err := e.Wait(2)
			if set {
				vfAssert(err == nil, "C19: Event.Wait on a set event did not return at once")
			} else {
				vfAssert(err != nil, "C19: Event.Wait returned although the event is not set")
				if len(cl.reqs) > k {
					short = append(short, cl.reqs[len(cl.reqs)-1])
				}
			}
		case 6:
			// 3 s pass: the 2 s waits give up (TIMEOUT); the 5 s waits keep waiting — nobody has set the event
			if len(short) == 0 {
				continue
			}
			vfTick(env, 3)
			for _, p := range short {
				vfAssert(vfCountResult(env.replies[n:], p, protocol.RESULT_TIMEOUT) == 1, "C19: an Event.Wait whose timeout passed was not answered TIMEOUT")
			}
			short = nil
			vfReach("short-wait-timed-out")
		case 0:
			_, err := e.Set()
			vfAssert(err == nil, "C19: Event.Set failed")
			set = true
			// every pending wait is released by the set, and only now
			for _, p := range append(append([][16]byte(nil), pending...), short...) {
				vfAssert(vfCountResult(env.replies[n:], p, protocol.RESULT_SUCCED) == 1, "C19: Event.Set did not release a waiting Event.Wait")
			}
			pending, short = nil, nil
		case 1:
			_, err := e.Clear()
			vfAssert(err == nil, "C19: Event.Clear failed")
			set = false
		case 2:
			is, err := e.IsSet()
			vfAssert(err == nil, "C19: Event.IsSet failed")
			vfAssert(is == set, "C19: Event.IsSet does not report the event's state")
		case 3:
			_, err := e.Wait(0)
			if set {
				vfAssert(err == nil, "C19: Event.Wait on a set event did not return at once")
			} else {
				vfAssert(err != nil, "C19: Event.Wait returned although the event is not set")
			}
		case 4:
			k := len(cl.reqs)
			_, err := e.Wait(5)
			if set {
				vfAssert(err == nil, "C19: Event.Wait on a set event did not return at once")
			} else {
				vfAssert(err != nil, "C19: Event.Wait returned although the event is not set")
				if len(cl.reqs) > k {
					pending = append(pending, cl.reqs[len(cl.reqs)-1])
				}
			}
		}
		for _, p := range append(append([][16]byte(nil), pending...), short...) {
			vfAssert(vfCountResult(env.replies, p, protocol.RESULT_SUCCED) == 0, "C19: a waiting Event.Wait was released although the event has not been set")
		}
	}
	vfReach("end")
}

func vfH_C19_priority() {
	env := vfNewEnv(1)
	cl := &vfClientLog{client.NewClient("127.0.0.1", 1), env, nil}
	db := client.NewDatabase(0, cl)
	key := vfKey(1)
	holder := db.PriorityLock(key, 0, 5, 60)
	vfAssert(vfOK(holder.Lock()), "C19: PriorityLock on a free key failed")
	nw := 2 + vfChoice("waiters", 2)
	type waiter struct {
		l    *client.PriorityLock
		prio uint8
		req  [16]byte
		done bool
	}
	ws := make([]*waiter, nw)
	for i := range ws {
		p := vfU8(vfName("prio", i))
		vfAssume(p <= 3)
		w := &waiter{l: db.PriorityLock(key, p, 50, 60), prio: p}
		k := len(cl.reqs)
		_, err := w.l.Lock()
		vfAssert(err != nil, "C19: a PriorityLock was granted while the key is held")
		vfAssert(len(cl.reqs) == k+1, "C19: harness: PriorityLock.Lock sent no command")
		w.req = cl.reqs[k]
		ws[i] = w
	}
	cur := holder
	for round := 0; round < nw; round++ {
		// expected next: highest priority among the waiting, earliest among equals
		best := -1
		for i, w := range ws {
			if !w.done && (best < 0 || w.prio > ws[best].prio) {
				best = i
			}
		}
		n := len(env.replies)
		vfAssert(vfOK(cur.Unlock()), "C19: PriorityLock unlock failed")
		granted := -1
		for i, w := range ws {
			c := vfCountResult(env.replies[n:], w.req, protocol.RESULT_SUCCED)
			if c > 0 {
				vfAssert(granted < 0 && c == 1, "C19: one release of an exclusive PriorityLock granted more than one waiter")
				granted = i
			}
		}
		vfAssert(granted >= 0, "C19: a release handed the key to nobody although PriorityLocks are waiting")
		vfAssert(granted == best, "C19: the key was not handed to the highest waiting priority (first come among equals)")
		ws[granted].done = true
		cur = ws[granted].l
	}
	vfReach("end")
}
