package server

// C18_handle: the whole life of a connection through the real Server.handle (what the accept loop
// starts per connection): protocol sniffing on the first read (checkProtocol), the protocol's
// Process loop, the close at the end.  The client speaks text or binary; its first packet registers a
// will (LOCK on key "k" ... WILL) or is a plain command; 0..1 further commands follow in a second
// packet (a second will, or a PING); then the client is gone.  The server's writes fail from the
// first, from the second, or never (a client that vanished before reading its acknowledgements).
// Whatever the path out of handle: each registered will has run exactly once, the connection is
// closed, and its protocol session is gone from the server's session table.

import (
	"errors"
	"io"
	"net"
	"time"

	"github.com/snower/slock/protocol"
)

func init() { vfHarnesses["C18_handle"] = vfH_C18_handle }

type vfPacketConn struct {
	packets  [][]byte
	next     int
	writes   int
	failFrom int
	closed   bool
	before   func(packet int) // runs before packet i is handed to the server (the harness as scheduler)
}

func (c *vfPacketConn) Read(b []byte) (int, error) {
	if c.closed || c.next >= len(c.packets) {
		return 0, io.EOF
	}
	p := c.packets[c.next]
	if c.before != nil {
		c.before(c.next)
	}
	n := copy(b, p)
	if n < len(p) {
		c.packets[c.next] = p[n:]
	} else {
		c.next++
	}
	return n, nil
}
func (c *vfPacketConn) Write(b []byte) (int, error) {
	c.writes++
	if c.closed || c.writes > c.failFrom {
		return 0, errors.New("broken pipe")
	}
	return len(b), nil
}
func (c *vfPacketConn) Close() error                       { c.closed = true; return nil }
func (c *vfPacketConn) LocalAddr() net.Addr                { return vfTAddr{} }
func (c *vfPacketConn) RemoteAddr() net.Addr               { return vfTAddr{} }
func (c *vfPacketConn) SetDeadline(t time.Time) error      { return nil }
func (c *vfPacketConn) SetReadDeadline(t time.Time) error  { return nil }
func (c *vfPacketConn) SetWriteDeadline(t time.Time) error { return nil }

func vfH_C18_handle() {
	env := vfNewEnv(0)
	vfSetDBTime(env.db, vfBaseTime)
	server := NewServer(env.slock)
	text := vfChoice("text", 2) == 1
	firstWill := vfChoice("firstWill", 2) == 1
	second := vfChoice("second", 3) // 0: nothing more, 1: a will on another key, 2: a PING
	conn := &vfPacketConn{failFrom: [3]int{0, 1, 1000}[vfChoice("failFrom", 3)]}
	wills1, wills2 := 0, 0
	var key1, key2 [16]byte
	if text {
		parser := protocol.NewTextParser(make([]byte, 64), make([]byte, 64))
		conv := protocol.NewTextCommandConverter()
		conv.ConvertArgId2LockId("k", &key1)
		conv.ConvertArgId2LockId("j", &key2)
		if firstWill {
			conn.packets = append(conn.packets, parser.BuildRequest([]string{"LOCK", "k", "WILL", "1"}))
			wills1 = 1
		} else {
			conn.packets = append(conn.packets, parser.BuildRequest([]string{"PING"}))
		}
		switch second {
		case 1:
			conn.packets = append(conn.packets, parser.BuildRequest([]string{"LOCK", "j", "WILL", "1"}))
			wills2 = 1
		case 2:
			conn.packets = append(conn.packets, parser.BuildRequest([]string{"PING"}))
		}
	} else {
		key1, key2 = vfKey(1), vfKey(2)
		frame := func(c protocol.CommandEncode) []byte {
			b := make([]byte, 64)
			_ = c.Encode(b)
			return b
		}
		will := func(key [16]byte, id uint8) []byte {
			c := env.newCmd(protocol.COMMAND_WILL_LOCK, key, vfLockId(id))
			c.Expried, c.ExpriedFlag = 100, 0x0200
			return frame(c)
		}
		ping := func() []byte {
			return frame(&protocol.PingCommand{Command: protocol.Command{Magic: protocol.MAGIC, Version: protocol.VERSION, CommandType: protocol.COMMAND_PING, RequestId: env.reqId()}})
		}
		if firstWill {
			conn.packets = append(conn.packets, will(key1, 1))
			wills1 = 1
		} else {
			conn.packets = append(conn.packets, ping())
		}
		switch second {
		case 1:
			conn.packets = append(conn.packets, will(key2, 2))
			wills2 = 1
		case 2:
			conn.packets = append(conn.packets, ping())
		}
	}
	sessions0 := len(env.slock.protocolSessions)
	stream := NewStream(conn)
	_ = server.addStream(stream)
	server.handle(stream)
	vfReach("handled")
	held := func(key [16]byte) int {
		m := env.manager(key)
		if m == nil {
			return 0
		}
		return len(vfHolders(m))
	}
	vfAssert(held(key1) == wills1, "C18: a will registered by the connection's first command was not executed exactly once when the connection ended")
	if conn.failFrom == 1000 {
		vfAssert(held(key2) == wills2, "C18: a will registered later on the connection was not executed exactly once when the connection ended")
	}
	vfAssert(held(key2) <= wills2, "C18: a will command ran that was never registered")
	vfAssert(conn.closed, "C18: the connection was not closed")
	vfAssert(len(env.slock.protocolSessions) == sessions0, "C18: the ended connection's protocol session is still in the server's session table")
	vfReach("end")
}

// C18_promoted: the same through the forwarding wrappers.  The node is a follower when the client
// connects (Server.handle wraps the connection in TransparencyBinaryServerProtocol /
// TransparencyTextServerProtocol) and answers a PING; before the client's second packet the node is
// promoted to leader; the second packet registers a will; the client goes away.  The node is the leader
// now: the will has to run here, exactly once.
func init() { vfHarnesses["C18_promoted"] = vfH_C18_promoted }

func vfH_C18_promoted() {
	env := vfNewEnv(0)
	vfSetDBTime(env.db, vfBaseTime)
	server := NewServer(env.slock)
	text := vfChoice("text", 2) == 1
	env.slock.state = STATE_FOLLOWER
	env.db.status = STATE_FOLLOWER
	conn := &vfPacketConn{failFrom: 1000}
	var key [16]byte
	if text {
		parser := protocol.NewTextParser(make([]byte, 64), make([]byte, 64))
		protocol.NewTextCommandConverter().ConvertArgId2LockId("k", &key)
		conn.packets = append(conn.packets, parser.BuildRequest([]string{"PING"}))
		conn.packets = append(conn.packets, parser.BuildRequest([]string{"LOCK", "k", "WILL", "1"}))
	} else {
		key = vfKey(1)
		b := make([]byte, 64)
		_ = (&protocol.PingCommand{Command: protocol.Command{Magic: protocol.MAGIC, Version: protocol.VERSION, CommandType: protocol.COMMAND_PING, RequestId: env.reqId()}}).Encode(b)
		conn.packets = append(conn.packets, b)
		c := env.newCmd(protocol.COMMAND_WILL_LOCK, key, vfLockId(1))
		c.Expried, c.ExpriedFlag = 100, 0x0200
		w := make([]byte, 64)
		_ = c.Encode(w)
		conn.packets = append(conn.packets, w)
	}
	conn.before = func(i int) {
		if i == 1 {
			env.slock.state = STATE_LEADER
			env.db.status = STATE_LEADER
			vfReach("promoted")
		}
	}
	stream := NewStream(conn)
	_ = server.addStream(stream)
	server.handle(stream)
	m := env.manager(key)
	vfAssert(m != nil && len(vfHolders(m)) == 1, "C18: a will registered on a connection opened while the node was a follower did not run exactly once after the node was promoted and the connection ended")
	vfAssert(conn.closed, "C18: the connection was not closed")
	vfReach("end")
}
