package server

// C01_slowmap: mutual exclusion on a key whose manager does not sit in its slot of the fast key
// table.  (a) the holder's hold is parked in the long-expiry table at once (persist-immediately
// flag, E = 100 s), which moves the key's manager to the ordinary key map; (b) two keys share a
// fast slot (4 slots here; keys 1 and 5), the second one lives in the ordinary map, the first is
// released and swept; (c) a neighbour key's manager is moved again while this key sits in their
// common fast slot.  A second request with Count 0 for the held key must be refused, and the
// holder's own unlock must still be accepted.

import (
	"github.com/snower/slock/protocol"
)

func init() { vfHarnesses["C01_slowmap"] = vfH_C01_slowmap }

func vfH_C01_slowmap() {
	env := vfNewEnv(2)
	vfSetDBTime(env.db, vfBaseTime)
	held := vfKey(1)
	shape := vfChoice("shape", 3)
	if shape == 2 {
		// key 1's manager is moved to the ordinary map, key 5 then takes their common fast slot; a
		// second long-lived hold on key 1 runs the move again: it must leave key 5's slot alone
		a := env.newCmd(protocol.COMMAND_LOCK, vfKey(1), vfLockId(1))
		a.Expried, a.ExpriedFlag, a.Count = 100, 0x0100, 5
		n := len(env.replies)
		env.lock(0, a)
		vfAssert(env.replies[n].result == protocol.RESULT_SUCCED, "C01: harness: lock not granted")
		held = vfKey(5)
		h := env.newCmd(protocol.COMMAND_LOCK, held, vfLockId(5))
		h.Expried, h.ExpriedFlag = 100, 0x0200
		n = len(env.replies)
		env.lock(0, h)
		vfAssert(env.replies[n].result == protocol.RESULT_SUCCED, "C01: harness: lock not granted")
		m5 := env.manager(held)
		vfAssert(m5 != nil && m5.fastKeyValue != nil && m5.fastKeyValue.manager == m5, "C01: harness: key 5 did not take the fast slot")
		a2 := env.newCmd(protocol.COMMAND_LOCK, vfKey(1), vfLockId(2))
		a2.Expried, a2.ExpriedFlag, a2.Count = 100, 0x0100, 5
		n = len(env.replies)
		env.lock(0, a2)
		vfAssert(env.replies[n].result == protocol.RESULT_SUCCED, "C01: harness: second hold on the neighbour key not granted")
		vfReach("neighbour")
	} else if shape == 0 {
		a := env.newCmd(protocol.COMMAND_LOCK, held, vfLockId(1))
		a.Expried, a.ExpriedFlag = 100, 0x0100
		n := len(env.replies)
		env.lock(0, a)
		vfAssert(env.replies[n].result == protocol.RESULT_SUCCED, "C01: harness: lock not granted")
		_, inMap := env.db.locks[held]
		vfAssert(inMap, "C01: harness: the key's manager was not moved to the ordinary key map")
		vfReach("downgraded")
	} else {
		first := vfKey(1)
		held = vfKey(5)
		for i, k := range [2][16]byte{first, held} {
			c := env.newCmd(protocol.COMMAND_LOCK, k, vfLockId(uint8(1+4*i)))
			c.Expried, c.ExpriedFlag = 100, 0x0200
			n := len(env.replies)
			env.lock(0, c)
			vfAssert(env.replies[n].result == protocol.RESULT_SUCCED, "C01: harness: lock not granted")
		}
		_, inMap := env.db.locks[held]
		vfAssert(inMap, "C01: harness: the two keys do not share a fast slot")
		u := env.newCmd(protocol.COMMAND_UNLOCK, first, vfLockId(1))
		env.unlock(0, u)
		if vfChoice("swept", 2) == 1 {
			vfTick(env, 50) // the released hold leaves the expiry wheel; the other hold (E = 100 s) stays
		}
		vfReach("collision")
	}
	holder := uint8(1)
	if held == vfKey(5) {
		holder = 5
	}
	b := env.newCmd(protocol.COMMAND_LOCK, held, vfLockId(9))
	b.Expried, b.ExpriedFlag = 100, 0x0200
	b.Count = vfU16("count")
	vfAssume(b.Count == 0 || b.Count == 1)
	n := len(env.replies)
	env.lock(1, b)
	vfAssert(len(env.replies) == n+1, "C01: the second request was not answered at once (Timeout 0)")
	vfAssert(env.replies[n].result != protocol.RESULT_SUCCED, "C01: a key held with Count 0 was granted to a second LockId")
	vfAssert(vfHeldBy(env, held, vfLockId(holder)) == 1 && vfHeldBy(env, held, vfLockId(9)) == 0, "C01: the holds on the key are not exactly the first holder's")
	u := env.newCmd(protocol.COMMAND_UNLOCK, held, vfLockId(holder))
	n = len(env.replies)
	env.unlock(0, u)
	vfAssert(len(env.replies) == n+1 && env.replies[n].result == protocol.RESULT_SUCCED, "C01: the holder's unlock was not accepted")
	vfReach("end")
}
