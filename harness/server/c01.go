package server

import "github.com/snower/slock/protocol"

// C01: the grant rule.  Bounded histories from the empty database: every
// operation is a LOCK or UNLOCK with symbolic terms from the core subset on one
// key, LockIds drawn from a small alphabet.  After each operation the new
// holders are read off the real holder list and the admission rule is asserted
// for each of them with n = holds outstanding immediately before that grant.

func init() {
	vfHarnesses["C01_hist2"] = func() { vfC01Hist(2) }
	vfHarnesses["C01_hist3"] = func() { vfC01Hist(3) }
}

func vfH_C01_hist2() { vfC01Hist(2) }
func vfH_C01_hist3() { vfC01Hist(3) }

type vfHold struct {
	l      *Lock
	locked uint8
	count  uint16
}

func vfSnapHolders(m *LockManager) []vfHold {
	var out []vfHold
	for _, l := range vfHolders(m) {
		out = append(out, vfHold{l, l.locked, l.command.Count})
	}
	return out
}

// vfCheckGrants asserts the admission rule for every hold that is new in after.
func vfCheckGrants(before, after []vfHold) {
	// survivors: holds of before still present (depth may have changed)
	n := uint32(0)
	var cur []vfHold
	for _, a := range after {
		isOld := false
		for _, b := range before {
			if a.l == b.l {
				isOld = true
			}
		}
		if isOld {
			n += uint32(a.locked)
			cur = append(cur, a)
		}
	}
	for _, a := range after {
		isOld := false
		for _, b := range before {
			if a.l == b.l {
				isOld = true
			}
		}
		if isOld {
			continue
		}
		// a is granted as a new holder with n holds outstanding
		vfReach("grant")
		vfAssert(n <= uint32(a.count), "C01: granted with more outstanding holds than the request's Count")
		if n > 0 {
			vfReach("grant-shared")
			vfAssert(len(cur) > 0 && n <= uint32(cur[0].count), "C01: granted with more outstanding holds than the oldest holder's Count")
		}
		n += uint32(a.locked)
		cur = append(cur, a)
	}
}

func vfC01Hist(k int) {
	env := vfNewEnv(1)
	key := vfKey(1)
	for step := 0; step < k; step++ {
		m := env.manager(key)
		before := vfSnapHolders(m)
		op := vfChoice(vfName("op", step), 2)
		lid := vfLockId(uint8(vfChoice(vfName("lid", step), 3)))
		if op == 0 {
			env.lock(0, env.symLock(vfName("c", step), key, lid, vfPCore))
		} else {
			env.unlock(0, env.symUnlock(vfName("c", step), key, lid))
		}
		m2 := env.manager(key)
		after := vfSnapHolders(m2)
		if m2 != nil {
			vfAssert(m2.locked == vfDepthSum(m2), "C01: locked differs from the sum of holder depths")
		}
		vfCheckGrants(before, after)
	}
	vfReach("end")
}

// C01_step: one arbitrary operation from an arbitrary state of the shape
// (H holders, W waiters); see vfBuildState.  Covers histories of any length
// that lead to such a shape.
func init() {
	vfHarnesses["C01_step"] = vfH_C01_step
	vfHarnesses["C01_big"] = vfH_C01_big
}

func vfStepLockId(name string, H, W int) [16]byte {
	// an existing holder's id, an existing waiter's id, or a fresh one
	k := vfChoice(name, H+W+1)
	if k < H {
		return vfLockId(uint8(1 + k))
	}
	if k < H+W {
		return vfLockId(uint8(11 + k - H))
	}
	return vfLockId(99)
}

func vfH_C01_step() {
	env := vfNewEnv(2)
	key := vfKey(1)
	H := vfChoice("H", 4)
	W := 0
	if H > 0 {
		W = vfChoice("W", 3)
	}
	st := vfBuildState(env, key, H, W, 0, 1)
	if H == 3 && W == 0 && vfChoice("tombstone", 2) == 1 {
		// the youngest holder is released while older ones stay: its Lock object remains in the holder
		// queue as a released entry; the step may then name its LockId again
		u := env.newCmd(protocol.COMMAND_UNLOCK, key, vfLockId(3))
		env.unlock(0, u)
		vfAssume(len(vfHolders(st.m)) == 2)
		vfReach("tombstone")
	}
	before := vfSnapHolders(st.m)
	op := vfChoice("op", 2)
	lid := vfStepLockId("lid", H, W)
	if op == 0 {
		env.lock(0, env.symLock("c", key, lid, vfPCore))
	} else {
		env.unlock(0, env.symUnlock("c", key, lid))
	}
	m2 := env.manager(key)
	after := vfSnapHolders(m2)
	if m2 != nil {
		vfAssert(m2.locked == vfDepthSum(m2), "C01: locked differs from the sum of holder depths")
	}
	vfCheckGrants(before, after)
	vfReach("end")
}

// C01_big: the same admission step when the key already carries an arbitrary
// number n of holds (n up to 2^31, represented by the counter; only the oldest
// holder is materialised).  This is where Count = 0xffff matters.
func vfH_C01_big() {
	env := vfNewEnv(1)
	key := vfKey(1)
	st := vfBuildState(env, key, 1, 0, 0, 0)
	n := vfU32("n")
	vfAssume(n >= uint32(st.holders[0].locked) && n < 0x80000000)
	st.m.locked = n
	c := env.symLock("c", key, vfLockId(99), vfPCore)
	vfAssume(c.Flag&0x03 == 0)
	vfAssume(c.Expried != 0)
	oldest := st.holders[0].command.Count
	env.lock(0, c)
	rs := env.repliesFor(c.RequestId)
	if len(rs) == 1 && rs[0].result == protocol.RESULT_SUCCED {
		vfReach("grant")
		vfAssert(n <= uint32(c.Count), "C01: granted with more outstanding holds than the request's Count")
		vfAssert(n <= uint32(oldest), "C01: granted with more outstanding holds than the oldest holder's Count")
	}
	vfReach("end")
}
