package server

// C15_setupdate: "SET ... leave exactly the value a sequential interpreter computes" on the paths where the
// server may skip a SET it takes for a repetition (an update of a held lock, or a value-only request with
// Expried 0).  A holder SETs a frame: payload of n = 1..3 or 8 symbolic bytes, value-type flag bytes /
// number (symbolic), with or without a key property of 2 symbolic bytes.  A second SET of the SAME length —
// payload, type flag and property content all symbolic again, so "same payload, other property", "same
// payload, other type flag" and "everything equal" are all among the solver's cases — arrives on one of the
// two paths.  Afterwards the stored frame is byte for byte the second SET's frame (type flag, property
// block and payload), and the reply carried the first one.

import (
	"github.com/snower/slock/protocol"
)

func init() { vfHarnesses["C15_setupdate"] = vfH_C15_setupdate }

func vfSetFrame(p string, n int, withProp bool) *protocol.LockCommandData {
	b := vfBytes(p+".v", n)
	flag := vfU8(p+".tflag") & protocol.LOCK_DATA_FLAG_VALUE_TYPE_NUMBER
	var props []*protocol.LockCommandDataProperty
	if withProp {
		props = []*protocol.LockCommandDataProperty{protocol.NewLockCommandDataProperty(protocol.LOCK_DATA_PROPERTY_CODE_KEY, vfBytes(p+".pv", 2))}
	}
	return protocol.NewLockCommandDataFromBytes(b, protocol.LOCK_DATA_STAGE_CURRENT, protocol.LOCK_DATA_COMMAND_TYPE_SET, flag, props)
}

func vfH_C15_setupdate() {
	env := vfNewEnv(1)
	key := vfKey(1)
	n := [4]int{1, 2, 3, 8}[vfChoice("n", 4)]
	withProp := vfChoice("prop", 2) == 1
	c := env.newCmd(protocol.COMMAND_LOCK, key, vfLockId(1))
	c.Flag = protocol.LOCK_FLAG_CONTAINS_DATA
	c.Count, c.Expried, c.ExpriedFlag = 5, 100, 0x0200
	c.Data = vfSetFrame("a", n, withProp)
	first := append([]byte(nil), c.Data.Data...)
	env.lock(0, c)
	m := env.manager(key)
	vfAssert(m != nil && vfSameBytes(m.GetLockData(), first), "C15: the stored value is not the SET's frame")
	u := env.newCmd(protocol.COMMAND_LOCK, key, vfLockId(1))
	u.Flag = protocol.LOCK_FLAG_CONTAINS_DATA
	u.Count = 5
	if vfChoice("path", 2) == 0 {
		u.Flag |= protocol.LOCK_FLAG_UPDATE_WHEN_LOCKED
		u.Expried, u.ExpriedFlag = 100, 0x0200
		vfReach("update")
	} else {
		u.LockId = vfLockId(2)
		u.Expried, u.ExpriedFlag = 0, 0
		vfReach("value-only")
	}
	u.Data = vfSetFrame("b", n, withProp)
	second := append([]byte(nil), u.Data.Data...)
	k := len(env.replies)
	env.lock(0, u)
	vfAssert(len(env.replies) == k+1, "C03: the request was not answered exactly once")
	r := env.replies[k]
	vfAssert(r.result == protocol.RESULT_SUCCED || r.result == protocol.RESULT_LOCKED_ERROR, "C15: harness: the second SET was refused")
	got := env.manager(key).GetLockData()
	vfAssert(len(got) == len(second), "C15: after a SET the stored frame is not the SET's frame")
	for i := 4; i < len(second); i++ {
		if i < len(got) {
			vfAssert(got[i] == second[i], "C15: after a SET the stored value (type flag, property block, payload) is not what the SET carried: a SET that differs from the stored one was taken for a repetition")
		}
	}
	if r.hasData {
		vfAssert(vfSameBytes(r.data[4:], first[4:]), "C15: the reply does not carry the value from immediately before the operation")
	}
	vfReach("end")
}
