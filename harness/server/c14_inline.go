package server

// C14 (server side): the hand-inlined LOCK/UNLOCK frame decoder in
// BinaryServerProtocol.ProcessParse and the hand-inlined result encoder in
// BinaryServerProtocol.ProcessLockResultCommand against protocol.LockCommand.Decode
// and protocol.LockResultCommand.Encode, for every 64-byte frame / every field value.
// C13 (binary): one arbitrary 64-byte frame (any magic, version, type, fields) through
// the real ProcessParse on a fresh server.

import (
	"io"

	"github.com/snower/slock/protocol"
)

func init() {
	vfHarnesses["C14_inline_decode"] = vfH_C14_inline_decode
	vfHarnesses["C14_inline_encode"] = vfH_C14_inline_encode
	vfHarnesses["C13_binframe"] = vfH_C13_binframe
	vfHarnesses["C13_binframe_other"] = vfH_C13_binframe_other
}

func vfSameCmd(a, b *protocol.LockCommand) bool {
	return a.Magic == b.Magic && a.Version == b.Version && a.CommandType == b.CommandType && a.RequestId == b.RequestId &&
		a.Flag == b.Flag && a.DbId == b.DbId && a.LockId == b.LockId && a.LockKey == b.LockKey &&
		a.Timeout == b.Timeout && a.TimeoutFlag == b.TimeoutFlag && a.Expried == b.Expried && a.ExpriedFlag == b.ExpriedFlag &&
		a.Count == b.Count && a.Rcount == b.Rcount
}

func vfH_C14_inline_decode() {
	env := vfNewEnv(0)
	conn := &vfConn{}
	bp := NewBinaryServerProtocol(env.slock, NewStream(conn))
	buf := vfBytes("f", 64)
	buf[0], buf[1] = protocol.MAGIC, protocol.VERSION
	if vfBool("unlock") {
		buf[2] = protocol.COMMAND_UNLOCK
	} else {
		buf[2] = protocol.COMMAND_LOCK
	}
	// database 255 does not exist: the frame is decoded, answered UNKNOWN_DB and the decoded
	// command released to the connection's free list, where the harness reads it back
	buf[20] = 0xff
	vfAssume(buf[19]&protocol.LOCK_FLAG_CONTAINS_DATA == 0)
	ref := &protocol.LockCommand{}
	vfAssert(ref.Decode(buf) == nil, "protocol.LockCommand.Decode refused a 64-byte frame")
	n0 := bp.freeCommandIndex
	_ = bp.ProcessParse(buf)
	vfAssert(bp.freeCommandIndex == n0+1 || bp.freeCommandIndex == n0, "decoded command neither reused nor released")
	got := bp.freeCommands[bp.freeCommandIndex-1]
	vfAssert(got != nil, "no decoded command on the free list")
	vfAssert(vfSameCmd(got, ref), "server's inlined frame decoder disagrees with protocol.LockCommand.Decode")
	res := protocol.NewLockResultCommand(ref, protocol.RESULT_UNKNOWN_DB, 0, 0, ref.Count, 0, ref.Rcount, nil)
	exp := make([]byte, 64)
	_ = res.Encode(exp)
	vfAssert(len(conn.written) == 64, "reply is not one 64-byte frame")
	for i := 0; i < 64; i++ {
		vfAssert(conn.written[i] == exp[i], "server's inlined result encoder disagrees with protocol.LockResultCommand.Encode")
	}
	vfReach("end")
}

func vfH_C14_inline_encode() {
	env := vfNewEnv(0)
	conn := &vfConn{}
	bp := NewBinaryServerProtocol(env.slock, NewStream(conn))
	cmd := &protocol.LockCommand{}
	cmd.Magic, cmd.Version = protocol.MAGIC, protocol.VERSION
	cmd.CommandType = vfU8("type")
	cmd.RequestId, cmd.LockId, cmd.LockKey = vfArr16("rid"), vfArr16("lid"), vfArr16("key")
	cmd.Flag, cmd.DbId = vfU8("flag"), vfU8("db")
	cmd.Timeout, cmd.TimeoutFlag, cmd.Expried, cmd.ExpriedFlag = vfU16("t"), vfU16("tf"), vfU16("e"), vfU16("ef")
	cmd.Count, cmd.Rcount = vfU16("count"), vfU8("rcount")
	result, lcount, lrcount := vfU8("result"), vfU16("lcount"), vfU8("lrcount")
	var data []byte
	if vfBool("data") {
		data = vfBytes("d", 8)
	}
	_ = bp.ProcessLockResultCommand(cmd, result, lcount, lrcount, data)
	res := protocol.NewLockResultCommand(cmd, result, 0, lcount, cmd.Count, lrcount, cmd.Rcount, data)
	exp := make([]byte, 64)
	_ = res.Encode(exp)
	vfAssert(len(conn.written) == 64+len(data), "reply length is not 64 + value frame")
	for i := 0; i < 64; i++ {
		vfAssert(conn.written[i] == exp[i], "server's inlined result encoder disagrees with protocol.LockResultCommand.Encode")
	}
	for i := range data {
		vfAssert(conn.written[64+i] == data[i], "value frame not appended verbatim")
	}
	// and the client-visible decode of what was written gives back the fields
	back := &protocol.LockResultCommand{}
	vfAssert(back.Decode(conn.written[:64]) == nil, "LockResultCommand.Decode refused the server's frame")
	vfAssert(back.Result == result && back.Lcount == lcount && back.Lrcount == lrcount && back.Count == cmd.Count && back.Rcount == cmd.Rcount &&
		back.RequestId == cmd.RequestId && back.LockId == cmd.LockId && back.LockKey == cmd.LockKey && back.DbId == cmd.DbId && back.CommandType == cmd.CommandType,
		"decoded result differs from what the server meant to send")
	vfReach("end")
}

// vfConnIn: a connection whose peer has sent the given bytes and then closed.
type vfConnIn struct {
	vfConn
	in []byte
}

func (c *vfConnIn) Read(b []byte) (int, error) {
	if len(c.in) == 0 {
		return 0, io.EOF
	}
	n := copy(b, c.in)
	c.in = c.in[n:]
	return n, nil
}

// C13_binframe: any 64 bytes as one frame on a fresh server, followed on the wire by 8
// arbitrary bytes and end of input (so a frame that announces a value frame or call
// content reads it from those bytes or meets EOF).  C13_binframe_other: the same without
// the LOCK/UNLOCK command types (quick tier).
func vfH_C13_binframe()       { vfBinFrame(true) }
func vfH_C13_binframe_other() { vfBinFrame(false) }

func vfBinFrame(lockTypes bool) {
	env := vfNewEnv(0)
	conn := &vfConnIn{in: vfBytes("in", 8)}
	bp := NewBinaryServerProtocol(env.slock, NewStream(conn))
	buf := vfBytes("f", 64)
	if !lockTypes {
		vfAssume(buf[2] != protocol.COMMAND_LOCK)
		vfAssume(buf[2] != protocol.COMMAND_UNLOCK)
	}
	// times index the second / millisecond wheels by (now + value): value classes only,
	// every flag bit (so seconds, minutes, milliseconds, unlimited, ...) stays symbolic
	t, e := uint16(buf[53])|uint16(buf[54])<<8, uint16(buf[57])|uint16(buf[58])<<8
	vfAssume(vfMsClass(t))
	vfAssume(vfMsClass(e))
	// database ids index a 256-slot table: classes 0 (exists), 1 (created on demand), 254, 255 (reserved)
	vfAssume(vfBool2u(buf[20] == 0)|vfBool2u(buf[20] == 1)|vfBool2u(buf[20] == 254)|vfBool2u(buf[20] == 255) != 0)
	if buf[2] == protocol.COMMAND_CALL {
		// call content length sizes an allocation: classes 0, 1, 8 (all there is), 9 (more than there is), above the 1 MiB cap
		cl := uint32(buf[22]) | uint32(buf[23])<<8 | uint32(buf[24])<<16 | uint32(buf[25])<<24
		vfAssume(vfBool2u(cl == 0)|vfBool2u(cl == 1)|vfBool2u(cl == 8)|vfBool2u(cl == 9)|vfBool2u(cl == CONTENT_DATA_MAX_LENGTH+1)|vfBool2u(cl == 0xffffffff) != 0)
	}
	if buf[19]&protocol.LOCK_FLAG_CONTAINS_DATA != 0 {
		// value frame length (first 4 of the following bytes): classes 0, 2, 4 (all there is), 5 (more than there is), above the cap
		fl := uint32(conn.in[0]) | uint32(conn.in[1])<<8 | uint32(conn.in[2])<<16 | uint32(conn.in[3])<<24
		vfAssume(vfBool2u(fl == 0)|vfBool2u(fl == 2)|vfBool2u(fl == 4)|vfBool2u(fl == 5)|vfBool2u(fl == CONTENT_DATA_MAX_LENGTH+1)|vfBool2u(fl == 0xffffffff) != 0)
	}
	_ = bp.ProcessParse(buf)
	vfReach("end")
}

func vfMsClass(v uint16) bool {
	return vfBool2u(v == 0)|vfBool2u(v == 1)|vfBool2u(v == 3)|vfBool2u(v == 2999)|vfBool2u(v == 3000)|vfBool2u(v == 3001)|vfBool2u(v == 0xffff) != 0
}
