package server

import "github.com/snower/slock/protocol"

// C02_rolling: a shared key that is never free.  Capacity c+1 (Count c = 1 / 2 / 7); the key is filled,
// then 20 times the oldest holder releases and a new LockId takes the freed slot (the per-key holder
// queue fills, drains and recycles its inline slice without the manager ever being reset).  After
// every round each outstanding LockId still owns its hold: the newest can re-enter (Rcount 1) and
// release that level again, a stranger's unlock is refused, and at the end every holder's own UNLOCK is
// accepted and the key is free.

func init() { vfHarnesses["C02_rolling"] = vfH_C02_rolling }

func vfH_C02_rolling() {
	env := vfNewEnv(1)
	key := vfKey(1)
	c := [3]uint16{1, 2, 7}[vfChoice("count", 3)]
	mkid := func(i int) [16]byte {
		var id [16]byte
		id[0], id[1] = 'r', byte(i)
		return id
	}
	lock := func(i int) uint8 {
		l := env.newCmd(protocol.COMMAND_LOCK, key, mkid(i))
		l.Count, l.Rcount, l.Expried, l.ExpriedFlag = c, 1, 1000, 0x0200
		n := len(env.replies)
		env.lock(0, l)
		vfAssert(len(env.replies) == n+1, "C02: a LOCK with Timeout 0 was not answered exactly once")
		return env.replies[n].result
	}
	unlock := func(i int, rcount uint8) uint8 {
		u := env.newCmd(protocol.COMMAND_UNLOCK, key, mkid(i))
		u.Rcount = rcount
		n := len(env.replies)
		env.unlock(0, u)
		vfAssert(len(env.replies) == n+1, "C02: an UNLOCK was not answered exactly once")
		return env.replies[n].result
	}
	var holders []int
	next := 0
	for len(holders) < int(c)+1 {
		vfAssert(lock(next) == protocol.RESULT_SUCCED, "C02: harness: the key could not be filled")
		holders = append(holders, next)
		next++
	}
	for round := 0; round < 20; round++ {
		vfAssert(unlock(holders[0], 0) == protocol.RESULT_SUCCED, "C02: the oldest holder's own unlock was refused")
		holders = holders[1:]
		vfAssert(lock(next) == protocol.RESULT_SUCCED, "C02: a freed slot of a shared key was not granted")
		holders = append(holders, next)
		next++
		newest := holders[len(holders)-1]
		vfAssert(lock(newest) == protocol.RESULT_SUCCED, "C02: the newest holder could not re-enter its own hold (it is not found as a holder)")
		vfAssert(unlock(newest, 1) == protocol.RESULT_SUCCED, "C02: the newest holder could not release the level it re-entered")
		r := unlock(200, 0)
		vfAssert(r == protocol.RESULT_UNOWN_ERROR || r == protocol.RESULT_UNLOCK_ERROR, "C02: a stranger's unlock was not refused")
		m := env.manager(key)
		vfAssert(m != nil && int(m.locked) == len(holders) && len(vfHolders(m)) == len(holders), "C02: the key's holds are not the outstanding LockIds")
	}
	for _, h := range holders {
		vfAssert(unlock(h, 0) == protocol.RESULT_SUCCED, "C02: an outstanding holder's own unlock was refused")
	}
	m := env.manager(key)
	vfAssert(m == nil || m.locked == 0, "C02: the key is still held after every holder released")
	vfReach("end")
}
