package server

// C18_reinit: a connection may announce a client id more than once (the forwarding pool of a
// follower does).  Connection A (client id X) leaves a queued request and closes; connection C
// announces one or two ids out of {X, Y} in any order.  The grant that comes later is delivered
// to C exactly if C's CURRENT id is X, else dropped; after C closes the client table is empty.

import (
	"github.com/snower/slock/protocol"
)

func init() { vfHarnesses["C18_reinit"] = vfH_C18_reinit }

func vfH_C18_reinit() {
	env := vfNewEnv(1)
	connA, connC := &vfConn{}, &vfConn{}
	a := NewBinaryServerProtocol(env.slock, NewStream(connA))
	c := NewBinaryServerProtocol(env.slock, NewStream(connC))
	var idX, idY [16]byte
	idX[0], idX[15] = 'X', 1
	idY[0], idY[15] = 'Y', 2
	ids := [2][16]byte{idX, idY}
	_ = a.ProcessCommad(protocol.NewInitCommand(idX))
	key := vfKey(1)
	h := env.newCmd(protocol.COMMAND_LOCK, key, vfLockId(1))
	h.Expried, h.ExpriedFlag = 0xffff, 0x4200
	env.lock(0, h)
	q := env.newCmd(protocol.COMMAND_LOCK, key, vfLockId(2))
	q.Timeout, q.Expried, q.ExpriedFlag = 100, 0xffff, 0x4200
	_ = a.ProcessCommad(q)
	_ = a.Close()
	// C announces one or two ids
	n := 1 + vfChoice("inits", 2)
	cur := 0
	for i := 0; i < n; i++ {
		cur = vfChoice(vfName("id", i), 2)
		_ = c.ProcessCommad(protocol.NewInitCommand(ids[cur]))
	}
	nb := len(connC.written)
	u := env.newCmd(protocol.COMMAND_UNLOCK, key, vfLockId(1))
	env.unlock(0, u)
	got := connC.written[nb:]
	vfAssert(len(vfHolders(env.manager(key))) == 1, "C18: the request left queued by the closed connection was not granted")
	if cur == 0 {
		vfAssert(len(got) >= 64 && got[19] == protocol.RESULT_SUCCED, "C18: the reply for a closed client was not delivered to the connection that now speaks for the same client id")
		vfReach("rerouted")
	} else {
		vfAssert(len(got) == 0, "C18: a reply for client X was delivered to a connection that now speaks for another client id")
		vfReach("dropped")
	}
	for _, r := range env.replies {
		vfAssert(r.reqId != q.RequestId, "C18: the reply went to an unrelated client")
	}
	_ = c.Close()
	vfAssert(len(env.slock.clients) == 0, "C18: an entry of the client table outlived every connection (leak)")
	vfReach("end")
}
