package server

// C09_search: the leader's resume-by-position lookup.  A ring holding three records; a follower announces
// ANY 16-byte position (16 solver variables).  Search may answer "found" only for a position that is,
// byte for byte (file offset, file index AND the command time), the position of a record in the ring,
// with the cursor on exactly that record; for every other position the follower has to be told to start
// over.  And each record's own position is found.

func init() { vfHarnesses["C09_search"] = vfH_C09_search }

func vfH_C09_search() {
	q := NewReplicationBufferQueue(nil, 64*1024, 64*1024)
	for i := 1; i <= 3; i++ {
		vfAssert(q.Push(vfRingRecord(i), nil) == nil, "C09: Push failed")
	}
	id := vfBytes("pos", 16)
	var pos [16]byte
	copy(pos[:], id)
	cur := NewReplicationBufferQueueCursor(make([]byte, 64))
	err := q.Search(pos, cur)
	match := 0
	for i := 1; i <= 3; i++ {
		rec := vfRingRecord(i)
		same := true
		for k := 0; k < 16; k++ {
			if pos[k] != rec[3+k] {
				same = false
			}
		}
		if same {
			match = i
		}
	}
	if err == nil {
		vfReach("found")
		vfAssert(match != 0, "C09: the leader resumes a follower from a position that is not the position of any record in its buffer (a stale follower is skipped ahead instead of resynchronised)")
		vfAssert(vfRingIndex(cur.buf) == match, "C09: Search positioned the cursor on a different record")
	} else {
		vfReach("not-found")
		vfAssert(match == 0, "C09: Search does not find a record that is still in the ring")
	}
	vfReach("end")
}
