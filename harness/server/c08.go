package server

// C08: the append-only log cut at any byte recovers a clean record prefix.
// The file is the 12-byte header plus k records of 64 symbolic bytes (the two
// length bytes as AofFile.WriteLock writes them); the cut offset is chosen by a
// fork over every byte position.  The real LoadAofFiles (AofFile.Open,
// ReadHeader, ReadLock, AofLock.Decode, bufio.Reader) reads it back through the
// file-system model.

import (
	"os"
)

func init() {
	vfHarnesses["C08_cut"] = vfH_C08_cut
	vfHarnesses["C08_cut5"] = vfH_C08_cut5
	vfHarnesses["C08_append"] = vfH_C08_append
}

func vfAofHeader() []byte {
	return []byte{'S', 'L', 'O', 'C', 'K', 'A', 'O', 'F', 0x01, 0x00, 0x00, 0x00}
}

// vfAofRecord: 64 symbolic bytes shaped like a written record: length prefix 62,
// no value attached (aof flag 0x2000 clear) and unlimited expiry so that the
// loader's skip rule for expired records does not apply.
func vfAofRecord(name string) []byte {
	b := vfBytes(name, 64)
	b[0], b[1] = 62, 0
	b[56] &^= 0x20
	b[59], b[60] = 0x00, 0x40
	return b
}

func vfLoadAll(aof *Aof, files []string) (error, [][]byte) {
	var got [][]byte
	err, _ := aof.LoadAofFiles(files, 0, func(filename string, aofFile *AofFile, lock *AofLock, firstLock bool) (bool, error) {
		got = append(got, append([]byte(nil), lock.buf...))
		return true, nil
	})
	return err, got
}

var vfC08Records = 3

func vfH_C08_cut()  { vfC08Records = 3; vfC08Cut() }
func vfH_C08_cut5() { vfC08Records = 5; vfC08Cut() }

func vfC08Cut() {
	env := vfNewEnv(0)
	aof := env.slock.aof
	aof.dataDir = vfFSDir()
	k := vfRange("records", 1, vfC08Records)
	full := vfAofHeader()
	var recs [][]byte
	for i := 0; i < k; i++ {
		r := vfAofRecord(vfName("rec", i))
		recs = append(recs, r)
		full = append(full, r...)
	}
	cut := vfRange("cut", 0, len(full))
	vfFSWrite(aof.dataDir+"/append.aof.1", full[:cut])
	vfFSWrite(aof.dataDir+"/append.aof.1.dat", nil)
	err, got := vfLoadAll(aof, []string{"append.aof.1"})
	vfAssert(err == nil, "C08: loading a log cut at an arbitrary byte fails (the next start does not succeed)")
	whole := 0
	if cut >= 12 {
		whole = (cut - 12) / 64
	}
	vfAssert(len(got) == whole, "C08: the number of records recovered is not the number of complete records before the cut")
	for i := range got {
		if i < len(recs) {
			for j := 0; j < 64; j++ {
				vfAssert(got[i][j] == recs[i][j], "C08: a recovered record differs from the record that was written (reconstructed from partial bytes)")
			}
		}
	}
	vfReach("end")
}

// C08_append: after a restart on a cut log the server appends to the same file;
// what it appends must be recovered by the following restart, together with
// everything recovered the first time.
func vfH_C08_append() {
	env := vfNewEnv(0)
	aof := env.slock.aof
	aof.dataDir = vfFSDir()
	full := vfAofHeader()
	r0 := vfAofRecord("rec00")
	r1 := vfAofRecord("rec01")
	full = append(full, r0...)
	full = append(full, r1...)
	cut := vfRange("cut", 0, len(full))
	name := aof.dataDir + "/append.aof.1"
	vfFSWrite(name, full[:cut])
	vfFSWrite(name+".dat", nil)
	err, got := vfLoadAll(aof, []string{"append.aof.1"})
	if err != nil {
		return // C08_cut reports that
	}
	// restart: the current append file is opened for writing (AofFile.Open keeps an existing file)
	w := NewAofFile(aof, name, os.O_WRONLY, 4096)
	vfAssert(w.Open() == nil, "C08: cannot reopen a cut log for appending")
	nr := NewAofLock()
	rb := vfAofRecord("new")
	copy(nr.buf, rb)
	vfAssert(w.WriteLock(nr) == nil, "C08: WriteLock failed")
	vfAssert(w.Flush() == nil, "C08: Flush failed")
	_ = w.Close()
	err2, got2 := vfLoadAll(aof, []string{"append.aof.1"})
	vfAssert(err2 == nil, "C08: the second restart fails")
	vfAssert(len(got2) == len(got)+1, "C08: a record persisted after a restart on a cut log is not recovered by the following restart")
	if len(got2) == len(got)+1 {
		last := got2[len(got2)-1]
		for j := 2; j < 64; j++ {
			vfAssert(last[j] == rb[j], "C08: the record appended after the restart is recovered with different bytes")
		}
	}
	vfReach("end")
}

// C08_valcut: records that carry values (flag AOF_FLAG_CONTAINS_DATA, value frames in
// append.aof.N.dat).  The record file is complete, the value file is cut at every byte:
// recovery must succeed and yield exactly the records before the first one whose value
// frame is not completely inside the cut, each with its value intact.
func vfH_C08_valcut() {
	env := vfNewEnv(0)
	aof := env.slock.aof
	aof.dataDir = vfFSDir()
	k := vfRange("records", 1, 3)
	full := vfAofHeader()
	var recs, vals [][]byte
	var dat []byte
	var ends []int // offset in the value file after record i's frame (unchanged if it has none)
	for i := 0; i < k; i++ {
		r := vfAofRecord(vfName("rec", i))
		var frame []byte
		if vfBool(vfName("hasval", i)) {
			r[56] |= 0x20 // AOF_FLAG_CONTAINS_DATA (0x2000, high byte of the flag word)
			n := vfRange(vfName("vlen", i), 0, 3)
			frame = append([]byte{byte(n), 0, 0, 0}, vfBytes(vfName("val", i), n)...)
			dat = append(dat, frame...)
		}
		recs = append(recs, r)
		vals = append(vals, frame)
		ends = append(ends, len(dat))
		full = append(full, r...)
	}
	cut := vfRange("cut", 0, len(dat))
	vfFSWrite(aof.dataDir+"/append.aof.1", full)
	vfFSWrite(aof.dataDir+"/append.aof.1.dat", dat[:cut])
	var got, gotVals [][]byte
	err, _ := aof.LoadAofFiles([]string{"append.aof.1"}, 0, func(filename string, aofFile *AofFile, lock *AofLock, firstLock bool) (bool, error) {
		got = append(got, append([]byte(nil), lock.buf...))
		if lock.data != nil {
			gotVals = append(gotVals, append([]byte(nil), lock.data...))
		} else {
			gotVals = append(gotVals, nil)
		}
		return true, nil
	})
	vfAssert(err == nil, "C08: loading a log whose value file is cut at an arbitrary byte fails (the next start does not succeed)")
	whole := 0
	for i := 0; i < k; i++ {
		if vals[i] != nil && ends[i] > cut {
			break
		}
		whole++
	}
	vfAssert(len(got) == whole, "C08: the records recovered are not exactly those whose values are completely before the cut")
	for i := range got {
		if i >= k {
			break
		}
		for j := 0; j < 64; j++ {
			vfAssert(got[i][j] == recs[i][j], "C08: a recovered record differs from the record that was written")
		}
		vfAssert((gotVals[i] == nil) == (vals[i] == nil), "C08: a record was recovered with / without a value it did not / did have")
		if vals[i] != nil && gotVals[i] != nil {
			vfAssert(len(gotVals[i]) == len(vals[i]), "C08: a recovered value has a different length")
			for j := range vals[i] {
				if j < len(gotVals[i]) {
					vfAssert(gotVals[i][j] == vals[i][j], "C08: a recovered value differs from the value that was written")
				}
			}
		}
	}
	vfReach("end")
}

func init() { vfHarnesses["C08_valcut"] = vfH_C08_valcut }
