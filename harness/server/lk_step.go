package server

// Lock-engine step harness shared by C02, C03, C04, C17 (and the timing side
// of C05/C06): one arbitrary step — LOCK, UNLOCK, or a clock tick that runs the
// REAL timeout/expiry sweeps — from an arbitrary state of a bounded shape, with
// one oracle per property.  Every oracle works on snapshots taken through the
// real data structures and on the reply log of the real MemWaiter protocols.

import (
	"github.com/snower/slock/protocol"
)

const (
	vfOC02 = 1 << iota
	vfOC03
	vfOC04
	vfOC17
)

func init() {
	vfHarnesses["C02_step"] = vfH_C02_step
	vfHarnesses["C03_step"] = vfH_C03_step
	vfHarnesses["C04_step"] = vfH_C04_step
	vfHarnesses["C17_step"] = vfH_C17_step
	vfHarnesses["C02_step_big"] = vfH_C02_step_big
	vfHarnesses["C03_step_big"] = vfH_C03_step_big
	vfHarnesses["C04_step_big"] = vfH_C04_step_big
	vfHarnesses["C17_step_big"] = vfH_C17_step_big
	vfHarnesses["C02_step_flags"] = vfH_C02_step_flags
	vfHarnesses["C03_step_flags"] = vfH_C03_step_flags
	vfHarnesses["C04_step_flags"] = vfH_C04_step_flags
	vfHarnesses["C17_step_flags"] = vfH_C17_step_flags
	vfHarnesses["C02_step_aof"] = vfH_C02_step_aof
	vfHarnesses["C03_step_aof"] = vfH_C03_step_aof
	vfHarnesses["C04_step_aof"] = vfH_C04_step_aof
	vfHarnesses["C17_step_aof"] = vfH_C17_step_aof
}

func vfH_C02_step() { vfStepWide = 0; vfLkStep(vfOC02, 2) }
func vfH_C03_step() { vfStepWide = 0; vfLkStep(vfOC03, 3) }
func vfH_C04_step() { vfStepWide = 0; vfLkStep(vfOC04, 3) }
func vfH_C17_step() { vfStepWide = 0; vfLkStep(vfOC17, 3) }

// thorough tier: *_step_big: up to 4 holders and 3 queued requests;
// *_step_flags: the step's LOCK also carries symbolic minute flags and the 0xffff time class.
func vfH_C02_step_big()   { vfStepWide = 1; vfLkStep(vfOC02, 2) }
func vfH_C03_step_big()   { vfStepWide = 1; vfLkStep(vfOC03, 3) }
func vfH_C04_step_big()   { vfStepWide = 1; vfLkStep(vfOC04, 3) }
func vfH_C17_step_big()   { vfStepWide = 1; vfLkStep(vfOC17, 3) }
func vfH_C02_step_flags() { vfStepWide = 2; vfLkStep(vfOC02, 2) }
func vfH_C03_step_flags() { vfStepWide = 2; vfLkStep(vfOC03, 3) }
func vfH_C04_step_flags() { vfStepWide = 2; vfLkStep(vfOC04, 3) }
func vfH_C17_step_flags() { vfStepWide = 2; vfLkStep(vfOC17, 3) }
func vfH_C02_step_aof()   { vfStepWide = 3; vfLkStep(vfOC02, 2) }
func vfH_C03_step_aof()   { vfStepWide = 3; vfLkStep(vfOC03, 3) }
func vfH_C04_step_aof()   { vfStepWide = 3; vfLkStep(vfOC04, 3) }
func vfH_C17_step_aof()   { vfStepWide = 3; vfLkStep(vfOC17, 3) }

var vfStepWide int

// vfTick advances the server clock by dt seconds, running for every elapsed
// second exactly what checkTimeOut / checkExpried run (the real sweep bodies).
func vfTick(env *vfEnv, dt int64) {
	db := env.db
	tq := make([]*LockQueue, 5)
	eq := make([]*LockQueue, 5)
	for i := int64(0); i < dt; i++ {
		db.currentTime++
		now := db.currentTime
		ct := db.checkTimeoutTime
		db.checkTimeoutTime = now + 1
		for ct <= now {
			db.checkTimeTimeOut(ct, now, 0, tq)
			ct++
		}
		ce := db.checkExpriedTime
		db.checkExpriedTime = now + 1
		for ce <= now {
			db.checkTimeExpried(ce, now, 0, eq)
			ce++
		}
	}
}

type vfSnapLock struct {
	l      *Lock
	lockId [16]byte
	reqId  [16]byte
	depth  uint8
	count  uint16
	rcount uint8
	prio   bool
	cmd    *protocol.LockCommand
}

type vfSnap struct {
	exists  bool
	locked  uint32
	holders []vfSnapLock
	waiters []vfSnapLock
	hasData bool
}

func vfSnapOf(l *Lock) vfSnapLock {
	return vfSnapLock{l: l, lockId: l.command.LockId, reqId: l.command.RequestId, depth: l.locked, count: l.command.Count,
		rcount: l.command.Rcount, prio: l.command.TimeoutFlag&0x0010 != 0, cmd: l.command}
}

func vfTakeSnap(m *LockManager) vfSnap {
	var s vfSnap
	if m == nil {
		return s
	}
	s.exists = true
	s.locked = m.locked
	for _, l := range vfHolders(m) {
		s.holders = append(s.holders, vfSnapOf(l))
	}
	for _, l := range vfLiveWaiters(m) {
		s.waiters = append(s.waiters, vfSnapOf(l))
	}
	s.hasData = m.currentData != nil
	return s
}

func (s *vfSnap) holderById(id [16]byte) int {
	for i, h := range s.holders {
		if h.lockId == id {
			return i
		}
	}
	return -1
}

func (s *vfSnap) holderByPtr(l *Lock) int {
	for i, h := range s.holders {
		if h.l == l {
			return i
		}
	}
	return -1
}

func (s *vfSnap) waiterById(id [16]byte) int {
	for i, h := range s.waiters {
		if h.lockId == id {
			return i
		}
	}
	return -1
}

func (s *vfSnap) waiterByPtr(l *Lock) int {
	for i, h := range s.waiters {
		if h.l == l {
			return i
		}
	}
	return -1
}

func vfPrio(w vfSnapLock) uint8 {
	if w.prio {
		return w.rcount
	}
	return 0
}

func vfLkStep(oracle int, nops int) {
	vfHoldEFlag = 0x0200
	if vfStepWide == 3 && vfChoice("persisted", 2) == 1 {
		vfHoldEFlag = 0x0100 // the holders are persisted holds: their release / expiry writes records too
	}
	// per-run state of the oracles: a native replay runs many cases in one process
	vfStepReqId, vfUnlockRequestedId, vfLockRequestedId = [16]byte{}, [16]byte{}, [16]byte{}
	vfUnlockFlag, vfUnlockRcount, vfLockRcount, vfLockFlag, vfLockExpried = 0, 0, 0, 0, 0
	vfUnlockPrio, vfLockPrio = false, false
	env := vfNewEnv(2)
	key := vfKey(1)
	maxH, maxW, profile := 4, 3, vfPCore
	if vfStepWide == 1 {
		maxH, maxW = 5, 4
	} else if vfStepWide == 2 {
		profile = vfPCore | vfPMinute | vfPLongTimes
	} else if vfStepWide == 3 {
		// the step's LOCK may be persisted (aof-timing flags symbolic): the persistence pushes of Lock / UnLock /
		// expiry run (records are queued on the persistence channel, which the harness does not drain)
		maxH, maxW, profile = 3, 2, vfPCore|vfPAof
	}
	H := vfChoice("H", maxH)
	W := 0
	if H > 0 {
		W = vfChoice("W", maxW)
	}
	// C02 and C04: a free key with one queued request (it carries the wait-when-unlocked flag): the
	// cancel-wait clause and "a refused unlock changes nothing" on a key nobody holds (C02); the
	// wake-up pass after a newcomer was granted on the free key (C04)
	vfFreeWaiter = false
	if H == 0 && (oracle == vfOC02 || oracle == vfOC04) && vfChoice("freeWaiter", 2) == 1 {
		vfFreeWaiter = true
		W = 1
	}
	op := vfChoice("op", nops)
	// a clock step comes in two shapes: the holders expire first (E=3) and the queue is served, or the
	// holders stay (E=100) and the queued requests time out one after the other (T=4, then T=9)
	holdE, dts := uint16(3), [4]int64{4, 5, 6, 6}
	if op == 2 && W > 0 && vfChoice("longhold", 2) == 1 {
		holdE, dts = 100, [4]int64{5, 6, 10, 11}
	}
	st := vfBuildStateE(env, key, H, W, 0, 1, holdE)
	if H == 3 && W == 0 && vfChoice("tombstone", 2) == 1 {
		// the youngest holder is released while an older queued holder stays: its Lock object remains
		// in the holder queue as a released entry (RemoveLock only pops released entries from the head)
		u := env.newCmd(protocol.COMMAND_UNLOCK, key, vfLockId(3))
		env.unlock(0, u)
		vfAssume(len(vfHolders(st.m)) == 2)
		vfReach("tombstone")
	}
	pre := vfTakeSnap(st.m)
	nReplies := len(env.replies)
	state := env.db.states[0]
	preWait, preLocked, preKeys := state.WaitCount, state.LockedCount, state.KeyCount
	_ = preWait
	_ = preLocked
	_ = preKeys

	var cmd *protocol.LockCommand
	switch op {
	case 0:
		cmd = env.symLock("c", key, vfStepLockId("lid", H, W), profile)
		if oracle == vfOC02 {
			vfAssume(cmd.Flag&0x03 == 0) // show/update are C06's subject
		}
		vfStepReqId = cmd.RequestId
		vfLockRequestedId, vfLockRcount, vfLockExpried, vfLockFlag = cmd.LockId, cmd.Rcount, cmd.Expried, cmd.Flag
		vfLockPrio = cmd.TimeoutFlag&0x0010 != 0
		env.lock(0, cmd)
	case 1:
		cmd = env.symUnlock("c", key, vfStepLockId("lid", H, W))
		vfStepReqId = cmd.RequestId
		vfUnlockRequestedId, vfUnlockFlag, vfUnlockRcount = cmd.LockId, cmd.Flag, cmd.Rcount
		vfUnlockPrio = cmd.TimeoutFlag&0x0010 != 0
		env.unlock(0, cmd)
	case 2:
		// expiry of the holders (E=3 -> deadline now+4), then timeout of the waiters (T=4 -> now+5, T=9 -> now+10)
		ndt := 3
		if holdE == 100 {
			ndt = 4
		}
		dt := dts[vfChoice("dt", ndt)]
		if oracle&vfOC04 != 0 {
			// second by second: every second boundary is a quiescent moment, and the cause of a missing
			// wake-up (a hold ended / a queued request left) is attributed to the second it happened in
			for s := int64(0); s < dt; s++ {
				preS := vfTakeSnap(env.manager(key))
				vfTick(env, 1)
				mS := env.manager(key)
				postS := vfTakeSnap(mS)
				vfC04Quiescent(env, mS, &preS, &postS)
			}
		} else {
			vfTick(env, dt)
		}
	}
	m2 := env.manager(key)
	post := vfTakeSnap(m2)
	replies := env.replies[nReplies:]

	if oracle&vfOC02 != 0 {
		vfOracleC02(env, &pre, &post, op, cmd, replies)
	}
	if oracle&vfOC03 != 0 {
		vfOracleC03(env, st, &pre, &post, op, cmd, replies)
	}
	if oracle&vfOC04 != 0 {
		vfOracleC04(env, m2, &pre, &post, op, cmd, replies)
	}
	if oracle&vfOC17 != 0 {
		vfOracleC17(env, m2, &pre, &post, op, cmd, replies)
	}
	vfReach("end")
}

// ---------------------------------------------------------------------------
// C02: only the owner releases; depth arithmetic.

func vfSameHold(a, b vfSnapLock) bool {
	return a.l == b.l && a.depth == b.depth && a.lockId == b.lockId
}

// vfUnchanged: holds, depths, queue and value presence are what they were.
func vfUnchanged(pre, post *vfSnap) bool {
	if len(pre.holders) != len(post.holders) || len(pre.waiters) != len(post.waiters) || pre.locked != post.locked || pre.hasData != post.hasData {
		return false
	}
	for i := range pre.holders {
		if !vfSameHold(pre.holders[i], post.holders[i]) {
			return false
		}
	}
	for i := range pre.waiters {
		if pre.waiters[i].l != post.waiters[i].l {
			return false
		}
	}
	return true
}

func vfOracleC02(env *vfEnv, pre, post *vfSnap, op int, cmd *protocol.LockCommand, replies []vfReply) {
	if op == 1 {
		// the request's fields may be rewritten by unlock-first; use the reply
		var own *vfReply
		for i := range replies {
			if replies[i].reqId == cmd.RequestId {
				own = &replies[i]
			}
		}
		vfAssert(own != nil, "C02: unlock got no reply")
		lid := vfUnlockRequestedId
		hi := pre.holderById(lid)
		flag := vfUnlockFlag
		if hi >= 0 {
			vfReach("unlock-owner")
			h := pre.holders[hi]
			oneLevel := h.depth > 1 && vfUnlockRcount > 0 && !vfUnlockPrio
			vfAssert(own.result == protocol.RESULT_SUCCED, "C02: unlock by the owning LockId was refused")
			pj := post.holderByPtr(h.l)
			if oneLevel {
				vfReach("unlock-one-level")
				vfAssert(pj >= 0 && post.holders[pj].depth == h.depth-1, "C02: unlock with Rcount>0 did not remove exactly one depth")
				vfAssert(own.lrcount == h.depth-1, "C02: LRCount after a one-level unlock is not depth-1")
			} else {
				vfAssert(pj < 0, "C02: unlock with Rcount=0 (or depth 1) did not end the hold")
			}
			// every other hold of before keeps its depth (it may only have been joined by woken waiters)
			for i, o := range pre.holders {
				if i == hi {
					continue
				}
				k := post.holderByPtr(o.l)
				vfAssert(k >= 0 && post.holders[k].depth == o.depth, "C02: an unlock changed another LockId's hold")
			}
			return
		}
		// not a holder
		if len(pre.holders) == 0 {
			if wi0 := pre.waiterById(lid); flag&0x02 != 0 && wi0 >= 0 {
				vfReach("cancel-wait-free-key")
				vfAssert(own.result == protocol.RESULT_LOCKED_ERROR, "C02: canceller must be answered LOCKED_ERROR (key without holders)")
				w := pre.waiters[wi0]
				vfAssert(post.waiterByPtr(w.l) < 0, "C02: cancelled request is still queued (key without holders)")
				n := 0
				for _, r := range replies {
					if r.reqId == w.reqId {
						n++
						vfAssert(r.result == protocol.RESULT_UNLOCK_ERROR, "C02: cancelled request must be answered UNLOCK_ERROR")
					}
				}
				vfAssert(n == 1, "C02: cancelled request not answered exactly once")
				return
			}
			vfAssert(own.result == protocol.RESULT_UNLOCK_ERROR, "C02: unlock of a key that is not held must be UNLOCK_ERROR")
			vfAssert(vfUnchanged(pre, post), "C02: a refused unlock of a key that is not held changed the key's state")
			vfAssert(len(replies) == 1, "C02: a refused unlock of a key that is not held produced other replies")
			return
		}
		if flag&0x01 != 0 {
			vfReach("unlock-first")
			o := pre.holders[0]
			vfAssert(own.result == protocol.RESULT_SUCCED, "C02: unlock-first was refused although the key is held")
			vfAssert(own.lockId == o.lockId, "C02: unlock-first reply does not carry the released hold's LockId")
			pj := post.holderByPtr(o.l)
			vfAssert(pj < 0 || post.holders[pj].depth == o.depth-1, "C02: unlock-first did not release from the oldest hold")
			// which levels: the REQUEST says so (Rcount > 0: one level, Rcount = 0: all of them)
			if o.depth > 1 && vfUnlockRcount == 0 {
				vfAssert(pj < 0, "C02: an unlock-first request with Rcount=0 did not release every level of the oldest hold")
			}
			if o.depth > 1 && vfUnlockRcount > 0 && !vfUnlockPrio {
				vfAssert(pj >= 0, "C02: an unlock-first request with Rcount>0 released more than one level of the oldest hold")
			}
			for i, x := range pre.holders {
				if i == 0 {
					continue
				}
				k := post.holderByPtr(x.l)
				vfAssert(k >= 0 && post.holders[k].depth == x.depth, "C02: unlock-first changed a hold other than the oldest")
			}
			return
		}
		wi := pre.waiterById(lid)
		if flag&0x02 != 0 && wi >= 0 {
			vfReach("cancel-wait")
			vfAssert(own.result == protocol.RESULT_LOCKED_ERROR, "C02: canceller must be answered LOCKED_ERROR")
			w := pre.waiters[wi]
			vfAssert(post.waiterByPtr(w.l) < 0, "C02: cancelled request is still queued")
			n := 0
			for _, r := range replies {
				if r.reqId == w.reqId {
					n++
					vfAssert(r.result == protocol.RESULT_UNLOCK_ERROR, "C02: cancelled request must be answered UNLOCK_ERROR")
				}
			}
			vfAssert(n == 1, "C02: cancelled request not answered exactly once")
			for _, x := range pre.holders {
				k := post.holderByPtr(x.l)
				vfAssert(k >= 0 && post.holders[k].depth == x.depth, "C02: cancel-wait changed a hold")
			}
			return
		}
		vfReach("unlock-refused")
		if flag&0x02 != 0 {
			vfAssert(own.result == protocol.RESULT_UNLOCK_ERROR, "C02: cancel-wait of an unknown LockId must be UNLOCK_ERROR")
		} else {
			vfAssert(own.result == protocol.RESULT_UNOWN_ERROR, "C02: unlock by a non-owner must be UNOWN_ERROR")
		}
		vfAssert(vfUnchanged(pre, post), "C02: a refused unlock changed the key's state")
		vfAssert(len(replies) == 1, "C02: a refused unlock produced other replies")
		return
	}
	if op == 0 {
		hi := pre.holderById(vfLockRequestedId)
		if hi < 0 {
			return
		}
		vfReach("relock")
		h := pre.holders[hi]
		var own *vfReply
		for i := range replies {
			if replies[i].reqId == cmd.RequestId {
				own = &replies[i]
			}
		}
		vfAssert(own != nil, "C02: re-lock got no reply")
		allowed := h.depth <= vfLockRcount && h.depth < 0xff && !vfLockPrio
		pj := post.holderByPtr(h.l)
		if own.result == protocol.RESULT_SUCCED {
			vfAssert(allowed, "C02: re-entrant lock succeeded beyond Rcount (or beyond depth 255, or with the priority flag)")
			if vfLockExpried != 0 {
				vfReach("relock-deeper")
				vfAssert(pj >= 0 && post.holders[pj].depth == h.depth+1, "C02: re-entrant lock did not add exactly one depth")
				vfAssert(post.locked == pre.locked+1, "C02: re-entrant lock did not add one to the key's holds")
			} else {
				vfAssert(vfUnchanged(pre, post), "C02: a zero-expiry re-lock changed the key's state")
			}
		} else {
			vfReach("relock-refused")
			// the concurrent-check shortcut may answer TIMEOUT before ownership is looked at; otherwise LOCKED_ERROR
			if vfLockFlag&0x08 == 0 {
				vfAssert(!allowed, "C02: re-entrant lock within Rcount was refused")
				vfAssert(own.result == protocol.RESULT_LOCKED_ERROR, "C02: re-entrant lock beyond Rcount must be LOCKED_ERROR")
			}
			vfAssert(vfUnchanged(pre, post), "C02: a refused re-lock changed the key's state")
		}
	}
}

// The step's request as sent (LockDB may rewrite the command object).
var vfUnlockRequestedId, vfLockRequestedId [16]byte
var vfUnlockFlag, vfUnlockRcount, vfLockRcount uint8
var vfUnlockPrio, vfLockPrio bool
var vfLockExpried uint16

// ---------------------------------------------------------------------------
// C03: exactly one terminal reply per request, to the right client.

func vfOracleC03(env *vfEnv, st *vfState, pre, post *vfSnap, op int, cmd *protocol.LockCommand, replies []vfReply) {
	// (a) the step's own request
	if op == 0 || op == 1 {
		n := 0
		for _, r := range replies {
			if r.reqId == vfStepReqId {
				n++
				vfAssert(r.proto == 0, "C03: reply delivered to a different connection than the requester's")
			}
		}
		queued := false
		for _, w := range post.waiters {
			if w.reqId == vfStepReqId {
				queued = true
			}
		}
		if queued {
			vfReach("queued")
			vfAssert(n == 0, "C03: a request that is still queued was already answered")
		} else {
			vfAssert(n == 1, "C03: request not answered exactly once")
		}
	}
	// (b) requests that were pending before
	for _, w := range pre.waiters {
		n := 0
		for _, r := range replies {
			if r.reqId == w.reqId {
				n++
				vfAssert(r.proto == 1, "C03: a queued request's reply went to another connection")
				vfAssert(r.result == protocol.RESULT_SUCCED || r.result == protocol.RESULT_TIMEOUT || r.result == protocol.RESULT_UNLOCK_ERROR, "C03: unexpected terminal result for a queued request")
			}
		}
		if post.waiterByPtr(w.l) >= 0 && post.waiters[post.waiterByPtr(w.l)].reqId == w.reqId {
			vfAssert(n == 0, "C03: a request that is still queued was answered")
		} else {
			vfReach("waiter-ended")
			vfAssert(n == 1, "C03: a queued request ended without exactly one terminal reply")
		}
	}
	// (c) holders: at most one asynchronous EXPRIED, only when the hold ended by time
	for _, h := range pre.holders {
		n := 0
		for _, r := range replies {
			if r.reqId == h.reqId && r.reqId != vfStepReqId {
				n++
				vfAssert(r.result == protocol.RESULT_EXPRIED, "C03: a granted request drew a second reply that is not EXPRIED")
				vfAssert(r.proto == 0, "C03: EXPRIED notice went to another connection")
				vfAssert(op == 2, "C03: EXPRIED notice without the clock passing the deadline")
			}
		}
		vfAssert(n <= 1, "C03: more than one EXPRIED notice for one hold")
		if op == 2 && post.holderByPtr(h.l) < 0 {
			vfReach("expired")
			vfAssert(n == 1, "C03: a hold ended by expiry without an EXPRIED notice")
		}
	}
	// (d) no reply with an unknown RequestId
	for _, r := range replies {
		known := r.reqId == vfStepReqId && (op == 0 || op == 1)
		for _, w := range pre.waiters {
			if r.reqId == w.reqId {
				known = true
			}
		}
		for _, h := range pre.holders {
			if r.reqId == h.reqId {
				known = true
			}
		}
		vfAssert(known, "C03: a reply carries a RequestId no pending request has")
	}
	// (e) no command object is both free and referenced by a live hold or queued request; none freed twice
	for pi, p := range env.protos {
		_ = pi
		for i := 0; i < p.freeCommandIndex; i++ {
			c := p.freeCommands[i]
			for j := i + 1; j < p.freeCommandIndex; j++ {
				vfAssert(p.freeCommands[j] != c, "C03: a command object was freed twice")
			}
			for _, h := range post.holders {
				vfAssert(h.cmd != c, "C03: a live hold references a freed command object")
			}
			for _, w := range post.waiters {
				vfAssert(w.cmd != c, "C03: a queued request references a freed command object")
			}
		}
	}
}

var vfStepReqId [16]byte

// ---------------------------------------------------------------------------
// C04: quiescence and order.

func vfOracleC04(env *vfEnv, m *LockManager, pre, post *vfSnap, op int, cmd *protocol.LockCommand, replies []vfReply) {
	// order: a granted waiter never overtakes a still-waiting one of equal or higher priority that arrived earlier
	for j, wj := range pre.waiters {
		grantedJ := post.holderByPtr(wj.l) >= 0 && post.waiterByPtr(wj.l) < 0
		if !grantedJ {
			continue
		}
		vfReach("woken")
		for i, wi := range pre.waiters {
			if i == j {
				continue
			}
			still := post.waiterByPtr(wi.l) >= 0
			if !still {
				continue
			}
			ahead := vfPrio(wi) > vfPrio(wj) || (vfPrio(wi) == vfPrio(wj) && i < j)
			vfAssert(!ahead, "C04: a queued request was granted while an earlier one of equal or higher priority still waits")
		}
	}
	// the newcomer may bypass the queue only with strictly higher priority
	// (a request parked on a FREE key with the wait-when-unlocked flag waits for the next unlock by
	// design: a newcomer is granted ahead of it)
	if op == 0 && pre.holderById(vfLockRequestedId) < 0 && !vfFreeWaiter {
		for _, h := range post.holders {
			if h.reqId == vfStepReqId && pre.holderByPtr(h.l) < 0 && pre.waiterByPtr(h.l) < 0 {
				np := uint8(0)
				if vfLockPrio {
					np = vfLockRcount
				}
				for _, wi := range pre.waiters {
					if post.waiterByPtr(wi.l) >= 0 {
						vfReach("bypass-considered")
						vfAssert(np > vfPrio(wi), "C04: a new request overtook a queued request of equal or higher priority")
					}
				}
			}
		}
	}
	// service order of the queue after the step: by priority (higher first), among equal priorities by
	// arrival (the pre-state's requests arrived in the order of their LockIds 11, 12, ...; a request
	// queued by the step arrived last)
	arrival := func(w vfSnapLock) int {
		if pre.waiterByPtr(w.l) >= 0 {
			return int(w.lockId[15])
		}
		return 1000
	}
	for i := 0; i+1 < len(post.waiters); i++ {
		a, b := post.waiters[i], post.waiters[i+1]
		vfAssert(vfPrio(a) > vfPrio(b) || (vfPrio(a) == vfPrio(b) && arrival(a) < arrival(b)),
			"C04: the queue's service order is not priority first, arrival order among equal priorities")
	}
	vfC04Quiescent(env, m, pre, post)
}

// vfC04Quiescent: no admissible live request at the head of the queue.  A request queued with the
// wait-when-unlocked flag on a free key waits for the next unlock by design and is not "admissible".
func vfC04Quiescent(env *vfEnv, m *LockManager, pre, post *vfSnap) {
	if m != nil {
		holdEnded := false
		for _, h := range pre.holders {
			k := post.holderByPtr(h.l)
			if k < 0 || post.holders[k].depth < h.depth {
				holdEnded = true
			}
		}
		waiterLeft := false
		for _, w := range pre.waiters {
			if post.waiterByPtr(w.l) < 0 && post.holderByPtr(w.l) < 0 {
				waiterLeft = true
			}
		}
		termsChanged := false
		for _, h := range pre.holders {
			k := post.holderByPtr(h.l)
			if k >= 0 && (post.holders[k].reqId != h.reqId || post.holders[k].count != h.count) {
				termsChanged = true
			}
		}
		m.glock.Lock()
		head := m.GetWaitLock()
		if head != nil && !(m.locked == 0 && head.command.TimeoutFlag&0x0200 != 0) {
			vfReach("head-blocked")
			adm := env.db.doLock(m, head)
			switch {
			case holdEnded:
				vfAssert(!adm, "C04: lost wake-up: a hold ended and the head of the queue is admissible but was not granted")
			case waiterLeft:
				vfAssert(!adm, "C04: no wake-up after a queued request left the queue (timed out or cancelled): the new head is admissible but stays queued")
			case termsChanged:
				vfAssert(!adm, "C04: no wake-up after a re-lock/update changed a holder's terms: the head of the queue is admissible but stays queued")
			default:
				vfAssert(!adm, "C04: the head of the queue is admissible but was not granted")
			}
		}
		m.glock.Unlock()
		if len(post.waiters) > 0 {
			vfAssert(m.waited, "C04: live queued requests but the key is not marked as having waiters")
		}
	}
}

var vfLockFlag uint8

// vfFreeWaiter: the queued requests of the pre-state carry the wait-when-unlocked flag (free key).
var vfFreeWaiter bool

// ---------------------------------------------------------------------------
// C17: counts.

func vfOracleC17(env *vfEnv, m *LockManager, pre, post *vfSnap, op int, cmd *protocol.LockCommand, replies []vfReply) {
	state := env.db.states[0]
	sum := uint32(0)
	for _, h := range post.holders {
		sum += uint32(h.depth)
	}
	vfAssert(post.locked == sum, "C17: the key's hold count differs from the sum of its holders' depths")
	vfAssert(state.LockedCount == sum, "C17: STATE LockedCount differs from the number of outstanding holds")
	vfAssert(state.WaitCount == uint32(len(post.waiters)), "C17: STATE WaitCount differs from the number of live queued requests")
	if m != nil {
		vfAssert(state.KeyCount == 1, "C17: STATE KeyCount differs from the number of live keys")
	} else {
		vfReach("key-gone")
		vfAssert(state.KeyCount == 0, "C17: STATE KeyCount is not zero although no key is live")
		vfAssert(sum == 0 && len(post.waiters) == 0, "C17: key removed while holds or queued requests exist")
	}
	// the step's own terminal reply: LCount = holds right after the operation itself (before any wake-up), LRCount = that LockId's depth
	if op == 0 || op == 1 {
		for _, r := range replies {
			if r.reqId != vfStepReqId {
				continue
			}
			exp := pre.locked
			switch {
			case op == 0 && r.result == protocol.RESULT_SUCCED:
				hi := pre.holderById(vfLockRequestedId)
				if hi >= 0 {
					if vfLockExpried != 0 {
						exp = pre.locked + 1
						vfAssert(r.lrcount == pre.holders[hi].depth+1, "C17: LRCount of a re-entrant SUCCED is not the new depth")
					}
				} else if vfLockExpried != 0 {
					exp = pre.locked + 1
					vfAssert(r.lrcount == 1, "C17: LRCount of a fresh grant is not 1")
				}
			case op == 1 && r.result == protocol.RESULT_SUCCED:
				// released depth = pre depth of the released hold minus its post depth
				for _, h := range pre.holders {
					k := post.holderByPtr(h.l)
					if k < 0 {
						exp -= uint32(h.depth)
						vfAssert(r.lrcount == 0, "C17: LRCount after the hold ended is not 0")
					} else if post.holders[k].depth != h.depth {
						exp -= uint32(h.depth - post.holders[k].depth)
						vfAssert(r.lrcount == post.holders[k].depth, "C17: LRCount after a one-level unlock is not the remaining depth")
					}
				}
			}
			if r.result != protocol.RESULT_SUCCED || op == 1 || pre.holderById(vfLockRequestedId) >= 0 || vfLockExpried != 0 {
				vfReach("lcount-checked")
				vfAssert(uint32(r.lcount) == exp&0xffff, "C17: LCount in the reply differs from the true number of holds on the key")
			}
		}
	}
	// freed Lock objects are not reachable from live structures
	if m != nil {
		for _, h := range post.holders {
			vfAssert(h.l.manager == m, "C17: a live hold's Lock object was freed")
		}
		for _, w := range post.waiters {
			vfAssert(w.l.manager == m, "C17: a queued request's Lock object was freed")
		}
	}
}

// C03_relock: a hold taken by connection A is re-locked or updated by connection B (same LockId);
// when it later expires, the EXPRIED notice must go to the connection that last set its terms,
// under that request's RequestId — and never carry a RequestId the addressed connection did not send.
func init() { vfHarnesses["C03_relock"] = vfH_C03_relock }

func vfH_C03_relock() {
	env := vfNewEnv(2)
	vfSetDBTime(env.db, vfBaseTime)
	key := vfKey(1)
	a := env.newCmd(protocol.COMMAND_LOCK, key, vfLockId(1))
	a.Expried, a.ExpriedFlag, a.Count, a.Rcount = 3, 0x0200, vfU16("count"), vfU8("rcount")
	env.lock(0, a)
	owner, ownerReq := 0, a.RequestId
	b := env.newCmd(protocol.COMMAND_LOCK, key, vfLockId(1))
	b.Count, b.Rcount = a.Count, vfU8("rcount2")
	b.ExpriedFlag = 0x0200
	kind := vfChoice("kind", 5)
	switch kind {
	case 0: // re-entrant re-lock
		b.Expried = 3
	case 1: // update with a different expiry
		b.Flag, b.Expried = 0x02, 9
	case 2: // update that leaves everything as it is (may be ignored)
		b.Flag, b.Expried, b.Rcount = 0x02, 3, a.Rcount
	case 3: // update that keeps the timing (unlimited flag + 0xffff) and changes Rcount
		b.Flag, b.ExpriedFlag, b.Expried = 0x02, 0x0200|0x4000, 0xffff
	case 4: // re-entrant re-lock that keeps the timing
		b.ExpriedFlag, b.Expried = 0x0200|0x4000, 0xffff
	}
	n := len(env.replies)
	env.lock(1, b)
	vfAssert(len(env.replies) == n+1 && env.replies[n].proto == 1 && env.replies[n].reqId == b.RequestId, "C03: the re-lock/update was not answered exactly once on its own connection")
	hs := vfHolders(env.manager(key))
	vfAssert(len(hs) == 1, "C03: the hold vanished")
	if (kind == 0 || kind == 4) && env.replies[n].result == protocol.RESULT_SUCCED {
		vfReach("relocked")
		vfAssert(hs[0].command.RequestId == b.RequestId, "C03: after a successful re-lock the hold's terms are not the re-lock's request")
	}
	// whichever of the two command objects the server handed back to a pool, the hold must not reference it
	for _, p := range env.protos {
		for i := 0; i < p.freeCommandIndex; i++ {
			vfAssert(p.freeCommands[i] != hs[0].command, "C03: a live hold references a command object the server has freed")
		}
	}
	if hs[0].command.RequestId == b.RequestId {
		vfReach("terms-replaced")
		owner, ownerReq = 1, b.RequestId
	}
	n = len(env.replies)
	vfTick(env, 12)
	ex := 0
	for _, r := range env.replies[n:] {
		if r.result == protocol.RESULT_EXPRIED {
			ex++
			vfAssert(r.reqId == ownerReq, "C03: EXPRIED is not under the RequestId of the request that last set the hold's terms")
			vfAssert(r.proto == owner, "C03: EXPRIED was delivered to a connection that did not send that RequestId")
		}
	}
	vfAssert(ex == 1, "C03: the hold did not draw exactly one EXPRIED notice")
	vfReach("end")
}
