package server

// C07_sharedvalue: the value of a key outlives the hold that set it as long as another hold lives.
// Holder A takes a key of capacity 5 with a value and a short life (E = 2 s); B joins (no value
// operation) with E = 120 s, or A itself renews (update flag) / locks a second level with E = 120 s.
// All records are persisted at once.  The instance restarts 5 s later — after A's first record
// has run out and is skipped by the loader: whatever hold is restored comes back with the key's value.

import (
	"github.com/snower/slock/protocol"
)

func init() { vfHarnesses["C07_sharedvalue"] = vfH_C07_sharedvalue }

func vfH_C07_sharedvalue() {
	dir := vfFSDir()
	env := vfNewEnv(1)
	vfSetDBTime(env.db, vfBaseTime)
	vfOpenAof(env, dir)
	key := vfKey(1)
	shape := vfChoice("shape", 3) // 0: second holder joins; 1: the setter renews with the update flag; 2: a fresh key per shape 0 but the setter's life is long too
	a := env.newCmd(protocol.COMMAND_LOCK, key, vfLockId(1))
	a.Flag, a.Expried, a.ExpriedFlag, a.Count, a.Rcount = protocol.LOCK_FLAG_CONTAINS_DATA, 2, 0x0100, 5, 2
	if shape == 2 {
		a.Expried = 120
	}
	a.Data = protocol.NewLockCommandDataSetString("the-value")
	n := len(env.replies)
	env.lock(0, a)
	vfAssert(env.replies[n].result == protocol.RESULT_SUCCED, "C07: harness: lock not granted")
	vfDrainAof(env.db)
	survivor := vfLockId(2)
	if shape == 1 {
		survivor = vfLockId(1)
		r := env.newCmd(protocol.COMMAND_LOCK, key, vfLockId(1))
		r.Flag, r.Expried, r.ExpriedFlag, r.Count, r.Rcount = protocol.LOCK_FLAG_UPDATE_WHEN_LOCKED, 120, 0x0100, 5, 2
		n = len(env.replies)
		env.lock(0, r)
		vfAssert(env.replies[n].result == protocol.RESULT_SUCCED || env.replies[n].result == protocol.RESULT_LOCKED_ERROR, "C07: harness: the renewal was not accepted")
	} else {
		b := env.newCmd(protocol.COMMAND_LOCK, key, vfLockId(2))
		b.Expried, b.ExpriedFlag, b.Count = 120, 0x0100, 5
		n = len(env.replies)
		env.lock(0, b)
		vfAssert(env.replies[n].result == protocol.RESULT_SUCCED, "C07: harness: the second holder was not granted")
	}
	vfDrainAof(env.db)
	env.slock.aof.Flush()
	t2 := vfBaseTime + 5
	env2 := vfNewEnv(1)
	vfSetDBTime(env2.db, t2)
	aof2 := env2.slock.aof
	aof2.dataDir = dir
	err, _ := aof2.LoadAofFiles([]string{"append.aof.1"}, t2, func(filename string, aofFile *AofFile, lock *AofLock, firstLock bool) (bool, error) {
		e := aof2.LoadLock(lock)
		vfDrainAof(env2.db)
		return true, e
	})
	vfAssert(err == nil, "C07: loading the log fails")
	vfDrainAof(env2.db)
	vfAssert(vfHeldBy(env2, key, survivor) == 1, "C07: a persisted hold with time left was not restored")
	m := env2.manager(key)
	vfAssert(m != nil && vfDecodeMatches(m.GetLockData(), vfValue{kind: vfVBytes, b: []byte("the-value")}), "C07: a hold on a key with a value was restored without the key's value (the record that first logged the value had run out)")
	vfReach("end")
}
