package server

// C13_manyholds: the per-connection pools of command objects at their limits.  One binary connection
// takes N holds on N keys (N = 1 / 63 / 64 / 65 / 130: around the 64 slots of the connection's
// free-command array, and beyond it into the locked overflow queue) through the real ProcessParse,
// then releases them all in the same or in reverse order, takes N/2 again, and closes; every request
// is answered with 64 bytes and nothing crashes.  A second shape keeps the holds and lets N requests
// wait behind them (Timeout 30) before everything is released.

import (
	"github.com/snower/slock/protocol"
)

func init() { vfHarnesses["C13_manyholds"] = vfH_C13_manyholds }

func vfH_C13_manyholds() {
	env := vfNewEnv(0)
	conn := &vfConnIn{}
	bp := NewBinaryServerProtocol(env.slock, NewStream(conn))
	N := [5]int{1, 63, 64, 65, 130}[vfChoice("n", 5)]
	reverse := vfChoice("reverse", 2) == 1
	waiters := vfChoice("waiters", 2) == 1
	req := 0
	frame := func(ctype uint8, key int, id int, timeout uint16) []byte {
		c := &protocol.LockCommand{}
		c.Magic, c.Version, c.CommandType = protocol.MAGIC, protocol.VERSION, ctype
		req++
		c.RequestId[0], c.RequestId[1], c.RequestId[15] = byte(req), byte(req>>8), 0xb2
		c.LockKey[0], c.LockKey[1], c.LockKey[2] = 'm', byte(key), byte(key>>8)
		c.LockId[0], c.LockId[1], c.LockId[2] = 'i', byte(id), byte(id>>8)
		c.Timeout, c.Expried, c.ExpriedFlag = timeout, 100, 0x0200
		buf := make([]byte, 64)
		_ = c.Encode(buf)
		return buf
	}
	send := func(f []byte, expectReply bool) {
		w0 := len(conn.written)
		_ = bp.ProcessParse(f)
		if expectReply {
			vfAssert(len(conn.written) == w0+64, "C13: a request on a connection with many holds was not answered with one 64-byte frame")
		}
	}
	for i := 0; i < N; i++ {
		send(frame(protocol.COMMAND_LOCK, i, i, 0), true)
	}
	if waiters {
		for i := 0; i < N; i++ {
			send(frame(protocol.COMMAND_LOCK, i, 1000+i, 30), false)
		}
	}
	for j := 0; j < N; j++ {
		i := j
		if reverse {
			i = N - 1 - j
		}
		w0 := len(conn.written)
		_ = bp.ProcessParse(frame(protocol.COMMAND_UNLOCK, i, i, 0))
		want := 64
		if waiters {
			want = 128 // the release's own reply and the grant of the request that waited
		}
		vfAssert(len(conn.written) == w0+want, "C13: a release on a connection with many holds did not draw the expected replies")
	}
	vfReach("released")
	for i := 0; i < N/2; i++ {
		send(frame(protocol.COMMAND_LOCK, 5000+i, i, 0), true)
	}
	_ = bp.Close()
	conn2 := &vfConnIn{}
	bp2 := NewBinaryServerProtocol(env.slock, NewStream(conn2))
	pc := &protocol.PingCommand{}
	pc.Magic, pc.Version, pc.CommandType = protocol.MAGIC, protocol.VERSION, protocol.COMMAND_PING
	_ = bp2.ProcessParse(vfBinOther(pc))
	vfAssert(len(conn2.written) == 64, "C13: a second connection is no longer served")
	vfReach("end")
}
