package server

// C11_pipeline: the undo of a failed ack-required lock whose value operation is a PIPELINE.  A shared key
// whose holder has SET an 8-byte value; an ack-required lock with a PIPELINE of two sub-operations out of
// {SET, APPEND, SHIFT 1, INCR 1} goes pending (the pipeline is applied: the register holds its result);
// the acknowledgement fails (negative follower ack, or the wait runs out).  The requester gets one error
// reply, nothing crashes, and the register holds the 8 bytes from before again.

import (
	"github.com/snower/slock/protocol"
)

func init() { vfHarnesses["C11_pipeline"] = vfH_C11_pipeline }

func vfPipeSub(tag string) *protocol.LockCommandData {
	switch vfChoice(tag, 4) {
	case 0:
		return protocol.NewLockCommandDataSetString("zz")
	case 1:
		return protocol.NewLockCommandDataAppendString("y")
	case 2:
		return protocol.NewLockCommandDataShiftData(1)
	}
	return protocol.NewLockCommandDataIncrData(1)
}

func vfH_C11_pipeline() {
	dir := vfFSDir()
	env := vfNewEnv(2)
	vfSetDBTime(env.db, vfBaseTime)
	vfOpenAof(env, dir)
	Config.AofAckMode = 0
	rm := env.slock.replicationManager
	rm.serverChannels = append(rm.serverChannels, nil)
	key := vfKey(1)
	p := env.newCmd(protocol.COMMAND_LOCK, key, vfLockId(9))
	p.Flag, p.Count, p.Expried = protocol.LOCK_FLAG_CONTAINS_DATA, 1, 1000
	p.Data = protocol.NewLockCommandDataSetString("abcdefgh")
	env.lock(1, p)
	vfDrainAof(env.db)
	before := append([]byte(nil), env.manager(key).GetLockData()...)
	a := env.newCmd(protocol.COMMAND_LOCK, key, vfLockId(1))
	a.Flag, a.TimeoutFlag = protocol.LOCK_FLAG_CONTAINS_DATA, protocol.TIMEOUT_FLAG_REQUIRE_ACKED
	a.Count, a.Timeout, a.Expried = 1, 5, 100
	a.Data = protocol.NewLockCommandDataPipelineData([]*protocol.LockCommandData{vfPipeSub("s0"), vfPipeSub("s1")})
	areq := a.RequestId
	env.lock(0, a)
	vfDrainAof(env.db)
	vfAssert(len(env.repliesFor(areq)) == 0, "C11: an ack-required lock was answered before anything was acknowledged")
	ackdb := rm.GetAckDB(0)
	vfAssert(ackdb != nil, "C11: no ack DB after pushing an ack-required record")
	aofId, registered := ackdb.commandAofs[0][areq]
	vfAssert(registered, "C11: the ack-required record was not registered for acknowledgement")
	if vfChoice("outcome", 2) == 0 {
		_ = env.slock.aof.loadLockAck(vfAckFrame(a, aofId, protocol.RESULT_ERROR))
		vfDrainAof(env.db)
	} else {
		vfTick(env, 7)
		vfDrainAof(env.db)
	}
	rs := env.repliesFor(areq)
	vfAssert(len(rs) == 1 && rs[0].result != protocol.RESULT_SUCCED, "C11: a failed acknowledgement did not produce exactly one error reply")
	after := env.manager(key).GetLockData()
	vfAssert(len(after) == len(before), "C11: the value change of a failed ack-required PIPELINE was not undone")
	for i := range before {
		if i < len(after) {
			vfAssert(after[i] == before[i], "C11: the value change of a failed ack-required PIPELINE was not undone")
		}
	}
	vfReach("end")
}
