package server

// C09 (kernel): the replication ring hands every consumer the leader's records
// in order — no skip, no duplicate, no reorder — and reports a gap as an error
// ("out of buf") instead of silently skipping ahead.  A program of pushes and
// pops (chosen by forks) runs against the real ReplicationBufferQueue with a
// ring of 2 items that may grow to 4; the consumer is positioned with the real
// Search as a resuming follower is.

import (
	"io"
)

func init() {
	vfHarnesses["C09_ring"] = vfH_C09_ring
	vfHarnesses["C09_ring8"] = vfH_C09_ring8
}

func vfRingRecord(i int) []byte {
	b := make([]byte, 64)
	b[0], b[1], b[2] = 62, 0, 1
	b[3], b[4] = byte(i), byte(i>>8) // aof offset = push index (1-based)
	b[7] = 1                         // aof file index 1
	b[11] = 0x77
	return b
}

func vfRingIndex(b []byte) int { return int(b[3]) | int(b[4])<<8 }

func vfRingUsed(q *ReplicationBufferQueue) uint64 {
	n := uint64(0)
	steps := 0
	for it := q.tailItem; it != nil; it = it.nextItem {
		steps++
		if steps > 64 {
			vfFail("C09: the ring's record list is cyclic (longer than everything ever pushed)")
		}
		n += 64
		if it.data != nil {
			n += uint64(len(it.data))
		}
	}
	return n
}

var vfRingOps = 6

func vfH_C09_ring()  { vfRingOps = 6; vfC09Ring() }
func vfH_C09_ring8() { vfRingOps = 8; vfC09Ring() }

func vfC09Ring() {
	maxsz := uint64(128)
	if vfChoice("grow", 2) == 1 {
		maxsz = 256
	}
	q := NewReplicationBufferQueue(nil, 128, maxsz)
	cur := NewReplicationBufferQueueCursor(make([]byte, 64))
	pushed := 0
	push := func(name string) {
		pushed++
		var data []byte
		switch vfChoice(name, 3) {
		case 1:
			data = []byte{8, 0, 0, 0, 0, 0, byte(pushed), 0, 0, 0, 0, 0}
		case 2:
			// a value larger than a record slot: one push can force several slots to be recycled at once
			data = make([]byte, 104)
			data[0], data[6] = 100, byte(pushed)
		}
		vfAssert(q.Push(vfRingRecord(pushed), data) == nil, "C09: Push failed")
		vfAssert(q.usedBufferSize == vfRingUsed(q), "C09: usedBufferSize differs from the size of the records in the ring")
	}
	p0 := vfRange("initial", 1, 2)
	for i := 0; i < p0; i++ {
		push(vfName("d", i))
	}
	// a follower resumes after record j
	j := vfRange("resume", 1, p0)
	var id [16]byte
	copy(id[:], vfRingRecord(j)[3:19])
	inRing := false
	for it := q.tailItem; it != nil; it = it.nextItem {
		if vfRingIndex(it.buf) == j {
			inRing = true
		}
	}
	if !inRing {
		// a large value already pushed record j out of the ring: the follower must be told to start over
		vfAssert(q.Search(id, cur) != nil, "C09: Search claims to find a record that has left the ring")
		vfReach("resume-gone")
		return
	}
	vfAssert(q.Search(id, cur) == nil, "C09: Search does not find a record that is still in the ring")
	vfAssert(vfRingIndex(cur.buf) == j, "C09: Search positioned the cursor on a different record")
	registered := vfChoice("registered", 2) == 1
	if registered {
		q.AddPoll(cur)
	}
	last := j
	for step := 0; step < vfRingOps; step++ {
		if vfChoice(vfName("op", step), 2) == 0 {
			push(vfName("e", step))
			continue
		}
		err := q.Pop(cur)
		if err == nil {
			idx := vfRingIndex(cur.buf)
			vfReach("popped")
			vfAssert(idx == last+1, "C09: the ring handed a consumer a record that is not the next one (skip, duplicate or reorder)")
			if cur.data != nil {
				vfAssert((len(cur.data) == 12 || len(cur.data) == 104) && cur.data[6] == byte(idx), "C09: the value attached to a record was mixed up")
			}
			last = idx
			cur.currentItem.pollIndex++ // the consumer has sent it
		} else if err == io.EOF {
			vfReach("drained")
			vfAssert(last == pushed, "C09: the ring reported end of stream although records were still unread")
		} else {
			vfReach("out-of-buf")
			// a gap: only legitimate when the consumer's position (the last record it got) has left the ring
			present := false
			for it := q.tailItem; it != nil; it = it.nextItem {
				if vfRingIndex(it.buf) == last {
					present = true
				}
			}
			vfAssert(!present, "C09: 'out of buf' although the consumer's position is still in the ring")
			return
		}
	}
	vfReach("end")
}
