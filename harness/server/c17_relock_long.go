package server

// C17_relock_long: everything is reclaimed after a re-entrant hold that sits in the long-expiry
// table.  A hold (Rcount 3) is parked there at once (persist-immediately flag with E = 100 s, or
// unlimited expiry); it is re-locked 1..2 times by its LockId — in the same second, so that its
// absolute deadline does not move, or (E = 100 only) one second later; every level is given back;
// the wheel is swept.  KeyCount, LockedCount and WaitCount are back, the key has no live manager
// and every reply's LCount / LRCount was exact.

import (
	"github.com/snower/slock/protocol"
)

func init() { vfHarnesses["C17_relock_long"] = vfH_C17_relock_long }

func vfH_C17_relock_long() {
	env := vfNewEnv(1)
	vfSetDBTime(env.db, vfBaseTime)
	sum := func() (keys, locked, wait uint32) {
		for _, st := range env.db.states {
			if st != nil {
				keys, locked, wait = keys+st.KeyCount, locked+st.LockedCount, wait+st.WaitCount
			}
		}
		return
	}
	keys0, _, _ := sum()
	key := vfKey(1)
	unlimited := vfChoice("unlimited", 2) == 1
	eflag := uint16(0x0100)
	if unlimited {
		eflag = 0x4000 | 0x0100
	}
	mk := func() *protocol.LockCommand {
		c := env.newCmd(protocol.COMMAND_LOCK, key, vfLockId(1))
		c.Expried, c.ExpriedFlag, c.Rcount = 100, eflag, 3
		return c
	}
	n := len(env.replies)
	env.lock(0, mk())
	vfAssert(len(env.replies) == n+1 && env.replies[n].result == protocol.RESULT_SUCCED && env.replies[n].lcount == 1 && env.replies[n].lrcount == 1, "C17: harness: lock not granted")
	hs := vfHolders(env.manager(key))
	vfAssert(len(hs) == 1 && hs[0].longWaitIndex > 0, "C17: harness: the hold is not in the long-expiry table")
	relocks := 1 + vfChoice("relocks", 2)
	later := !unlimited && vfChoice("later", 2) == 1
	for i := 0; i < relocks; i++ {
		if later {
			vfTick(env, 1)
		}
		n = len(env.replies)
		env.lock(0, mk())
		vfAssert(len(env.replies) == n+1 && env.replies[n].result == protocol.RESULT_SUCCED, "C17: re-entrant lock refused")
		vfAssert(env.replies[n].lcount == uint16(2+i) && env.replies[n].lrcount == uint8(2+i), "C17: LCount / LRCount of a re-entrant lock are not the true numbers")
	}
	_, l1, _ := sum()
	vfAssert(l1 == uint32(1+relocks), "C17: LockedCount is not the number of outstanding holds (depth)")
	for i := relocks; i >= 0; i-- {
		u := env.newCmd(protocol.COMMAND_UNLOCK, key, vfLockId(1))
		u.Rcount = 1
		n = len(env.replies)
		env.unlock(0, u)
		vfAssert(len(env.replies) == n+1 && env.replies[n].result == protocol.RESULT_SUCCED, "C17: unlock refused")
		vfAssert(env.replies[n].lcount == uint16(i) && env.replies[n].lrcount == uint8(i), "C17: LCount / LRCount of an unlock are not the true numbers")
	}
	vfTick(env, 120)
	k2, l2, w2 := sum()
	vfAssert(l2 == 0 && w2 == 0, "C17: LockedCount / WaitCount not back to zero after everything was released")
	vfAssert(k2 == keys0, "C17: KeyCount did not return after the key drained (a finished hold is still referenced)")
	m := env.manager(key)
	vfAssert(m == nil, "C17: the drained key still has a live manager")
	vfReach("end")
}
