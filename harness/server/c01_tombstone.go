package server

import "github.com/snower/slock/protocol"

// C01_tombstone: a request that has fetched a key's manager while the sweeper retires that manager.
// LockDB.Lock fetches the manager (GetOrNewLockManager) and only then takes its mutex; it recognises a
// manager that was retired in between by its key having been wiped.  The harness is the scheduler:
// a holder's hold on the key has ended and the manager only lives on through the wheel's reference;
// right before a new request B acquires the manager's mutex (vfLockHook) the clock's sweep runs and
// retires the manager.  B is then granted (on whatever manager); a third request C with Count 0 and
// Timeout 0 must be refused while B holds — for an ordinary key and for the key of 16 zero bytes, with
// the retired manager left in the pool or already handed to a request for another key.
// Executor only.

func init() { vfHarnesses["C01_tombstone"] = vfH_C01_tombstone }

func vfH_C01_tombstone() {
	env := vfNewEnv(3)
	vfSetDBTime(env.db, vfBaseTime)
	var key [16]byte
	if vfChoice("zeroKey", 2) == 0 {
		key = vfKey(1)
	}
	a := env.newCmd(protocol.COMMAND_LOCK, key, vfLockId(1))
	a.Expried, a.ExpriedFlag = 30, 0x0200
	env.lock(0, a)
	env.unlock(0, env.newCmd(protocol.COMMAND_UNLOCK, key, vfLockId(1)))
	m := env.manager(key)
	if m == nil {
		return // the manager went with the hold: nothing to race with
	}
	vfReach("manager-lingers")
	swept := false
	reuse := vfChoice("reuse", 2) == 1
	vfLockHook(&m.glock.mutex, func() {
		swept = true
		vfTick(env, 3) // the wheel's look at the released hold: last reference gone, manager retired
		if reuse {
			// ... and a request for another key is handed the retired manager from the pool
			// (the pool hands out the managers of its last batch first: a dozen new keys reach the retired one)
			for i := uint8(0); i < 12; i++ {
				o := env.newCmd(protocol.COMMAND_LOCK, vfKey(20+i), vfLockId(7))
				o.Expried, o.ExpriedFlag = 1000, 0x0200
				env.lock(0, o)
				if env.manager(vfKey(20+i)) == m {
					vfReach("reused")
					break
				}
			}
		}
	})
	b := env.newCmd(protocol.COMMAND_LOCK, key, vfLockId(2))
	b.Expried, b.ExpriedFlag = 1000, 0x0200
	env.lock(1, b)
	vfAssert(swept, "C01: harness: the request never took the manager's mutex")
	rb := env.repliesFor(b.RequestId)
	vfAssert(len(rb) == 1 && rb[0].result == protocol.RESULT_SUCCED, "C01: a request for a key nobody holds was not granted (it was applied to a manager that had been retired and handed to another key)")
	if env.manager(key) != m {
		vfReach("retired-in-between")
	}
	c := env.newCmd(protocol.COMMAND_LOCK, key, vfLockId(3))
	c.Expried, c.ExpriedFlag = 1000, 0x0200
	env.lock(2, c)
	rc := env.repliesFor(c.RequestId)
	vfAssert(len(rc) == 1 && rc[0].result != protocol.RESULT_SUCCED, "C01: two simultaneous holders of a key locked with Count 0 (a request was granted on a manager that had been retired under it)")
	// and the holder's own unlock finds its hold
	n := len(env.replies)
	env.unlock(1, env.newCmd(protocol.COMMAND_UNLOCK, key, vfLockId(2)))
	vfAssert(len(env.replies) == n+1 && env.replies[n].result == protocol.RESULT_SUCCED, "C02: the holder's unlock does not find the hold it was granted")
	vfReach("end")
}
