package server

// C10_deferlong: as C10_defer for holds that are themselves LONG (E = 150 / 300 / 400 s, the last two at
// least the 300 s grace): "it waits up to 300 s past the DEADLINE" — the grace is counted from the
// hold's deadline, not from its start, so a replicated hold of 300 s or more is still there 10 / 200 /
// 299 s after its deadline on a node in any non-leader state.  The clock moves second by second
// through the real sweeps (the second wheel, the long-expiry table and the 30 s re-arms).

import (
	"github.com/snower/slock/protocol"
)

func init() { vfHarnesses["C10_deferlong"] = vfH_C10_deferlong }

func vfH_C10_deferlong() {
	env := vfNewEnv(1)
	key := vfKey(1)
	env.db.status = vfNonLeaderStatus("status")
	E := [3]uint16{150, 300, 400}[vfChoice("E", 3)]
	H := 1 + vfChoice("holders", 2)
	for i := 0; i < H; i++ {
		o := env.newCmd(protocol.COMMAND_LOCK, key, vfLockId(uint8(1+i)))
		o.Flag = protocol.LOCK_FLAG_FROM_AOF
		o.Expried, o.Count = E, uint16(H-1)
		env.lock(0, o)
	}
	m := env.manager(key)
	vfAssert(m != nil && len(vfHolders(m)) == H, "C10: a from-aof LOCK was not applied on the follower")
	n := len(env.replies)
	past := [3]int64{10, 200, 299}[vfChoice("past", 3)]
	vfTick(env, int64(E)+past)
	m = env.manager(key)
	vfAssert(m != nil && len(vfHolders(m)) == H, "C10: a follower ended a replicated hold on its own clock less than 300 s after the deadline")
	for _, r := range env.replies[n:] {
		vfAssert(r.result != protocol.RESULT_EXPRIED, "C10: a follower sent EXPRIED for a replicated hold it must keep")
	}
	// the leader's release record still finds the hold
	u := env.newCmd(protocol.COMMAND_UNLOCK, key, vfLockId(1))
	u.Flag = protocol.UNLOCK_FLAG_FROM_AOF
	env.unlock(0, u)
	vfAssert(vfHeldBy(env, key, vfLockId(1)) == 0, "C10: the leader's release record was not applied to the hold the follower kept")
	vfReach("end")
}
