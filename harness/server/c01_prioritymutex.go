package server

// C01_prioritymutex: the shard mutex itself.  Every state change of a key happens between one of
// PriorityMutex.Lock / LowPriorityLock / HighPriorityLock and the matching unlock; C01's mutual exclusion
// rests on these returning ONLY with the inner mutex held, whatever the other threads do to the two
// priority lanes meanwhile.  The other threads are modelled as nondeterminism: the next 5 atomic loads of
// the low-priority lane counter and of the high-priority flag each return an arbitrary value (solver
// variables), the lane mutexes are free when asked for.  One call of each lock function from a free mutex:
// it returns holding the mutex; its unlock gives it back.  Executor only.

func init() { vfHarnesses["C01_prioritymutex"] = vfH_C01_prioritymutex }

func vfH_C01_prioritymutex() {
	pm := NewPriorityMutex()
	vfHavocLoads(&pm.lowPriority, 5)
	vfHavocLoads(&pm.highPriority, 5)
	fn := vfChoice("fn", 3)
	switch fn {
	case 0:
		pm.Lock()
	case 1:
		pm.LowPriorityLock()
	case 2:
		pm.HighPriorityLock()
	}
	vfAssert(vfMutexHeld(&pm.mutex), "C01: a lock function of the shard mutex returned without holding the mutex")
	vfReach("locked")
	switch fn {
	case 0:
		pm.Unlock()
	case 1:
		pm.LowPriorityUnlock()
	case 2:
		pm.HighPriorityUnlock()
	}
	vfAssert(!vfMutexHeld(&pm.mutex), "C01: an unlock function of the shard mutex left the mutex held")
	vfReach("end")
}
