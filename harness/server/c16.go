package server

// C16: log compaction preserves the recoverable state, even if interrupted.
// A real instance writes a small history into append.aof.1 (two holds, one of
// them released), rotates (RewriteAofFile) and optionally writes one more hold
// into append.aof.2; then the real compaction (rewriteAofFiles: find, load +
// filter through LockDB.HasLock, clear = remove inputs + rename) runs against
// the file model, which logs a directory image after every mutation.  For every
// image (crash point, chosen by a fork) a fresh instance recovers from it with
// the real FindAofFiles + LoadAofFiles + LoadLock, and the recovered holds must
// equal those recovered from the pre-compaction image.

import (
	"time"

	"github.com/snower/slock/protocol"
)

func init() {
	vfHarnesses["C16_crash"] = vfH_C16_crash
	vfHarnesses["C16_whole"] = vfH_C16_whole
	vfHarnesses["C16_renamefail"] = vfH_C16_renamefail
}

type vfRecovered struct {
	n     int
	keys  [6][16]byte
	ids   [6][16]byte
	depth [6]uint8
	vals  [6]string // the key's value frame (empty: none)
}

// vfRecover starts a fresh instance on dir and returns the holds of keys 1..3.
func vfRecover(dir string) (vfRecovered, bool) {
	var out vfRecovered
	env := vfNewEnv(0)
	vfSetDBTime(env.db, vfBaseTime+1)
	aof := env.slock.aof
	aof.dataDir = dir
	appendFiles, rewriteFile, err := aof.FindAofFiles()
	if err != nil {
		return out, false
	}
	var files []string
	if rewriteFile != "" {
		files = append(files, rewriteFile)
	}
	files = append(files, appendFiles...)
	lerr, _ := aof.LoadAofFiles(files, vfBaseTime+1, func(filename string, aofFile *AofFile, lock *AofLock, firstLock bool) (bool, error) {
		e := aof.LoadLock(lock)
		vfDrainAof(env.db) // record by record: the replay channel's queue is bounded
		return true, e
	})
	if lerr != nil {
		return out, false
	}
	vfDrainAof(env.db)
	for k := uint8(1); k <= 4; k++ {
		m := env.manager(vfKey(k))
		for _, l := range vfHolders(m) {
			if out.n < 6 {
				out.keys[out.n], out.ids[out.n], out.depth[out.n] = l.command.LockKey, l.command.LockId, l.locked
				out.vals[out.n] = string(m.GetLockData())
				out.n++
			}
		}
	}
	return out, true
}

func vfSameRecovered(a, b vfRecovered) bool {
	if a.n != b.n {
		return false
	}
	for i := 0; i < a.n; i++ {
		if a.keys[i] != b.keys[i] || a.ids[i] != b.ids[i] || a.depth[i] != b.depth[i] || a.vals[i] != b.vals[i] {
			return false
		}
	}
	return true
}

// vfC16Valued: the hold on key 2 carries a value (set by C16_crash through a choice).
var vfC16Valued bool

// vfC16History writes the history and rotates; returns the live instance.
func vfC16History(dir string, third bool) *vfEnv {
	env := vfNewEnv(1)
	vfSetDBTime(env.db, vfBaseTime)
	vfOpenAof(env, dir)
	for k := uint8(1); k <= 2; k++ {
		c := env.newCmd(protocol.COMMAND_LOCK, vfKey(k), vfLockId(k))
		c.Expried, c.ExpriedFlag, c.Count = 0xffff, 0x4100, 0
		if k == 2 && vfC16Valued {
			// the surviving hold carries a value: the compacted log has a value file too
			c.Flag = protocol.LOCK_FLAG_CONTAINS_DATA
			c.Data = protocol.NewLockCommandDataSetString("val")
		}
		env.lock(0, c)
	}
	u := env.newCmd(protocol.COMMAND_UNLOCK, vfKey(1), vfLockId(1))
	env.unlock(0, u)
	// a re-entrant hold on key 4: entered three times, left once — still live at depth 2 when the log is compacted
	for i := 0; i < 3; i++ {
		c := env.newCmd(protocol.COMMAND_LOCK, vfKey(4), vfLockId(4))
		c.Expried, c.ExpriedFlag, c.Count, c.Rcount = 0xffff, 0x4100, 0, 3
		env.lock(0, c)
	}
	u4 := env.newCmd(protocol.COMMAND_UNLOCK, vfKey(4), vfLockId(4))
	u4.Rcount = 1
	env.unlock(0, u4)
	vfDrainAof(env.db)
	env.slock.aof.Flush()
	// rotation: what RewriteAofFile does when the size threshold is reached
	env.slock.aof.aofGlock.Lock()
	_ = env.slock.aof.RewriteAofFile(false)
	env.slock.aof.aofGlock.Unlock()
	if third {
		c := env.newCmd(protocol.COMMAND_LOCK, vfKey(3), vfLockId(3))
		c.Expried, c.ExpriedFlag, c.Count = 0xffff, 0x4100, 0
		env.lock(0, c)
		vfDrainAof(env.db)
		env.slock.aof.Flush()
	}
	vfDropSpawned()
	return env
}

// C16_whole: uninterrupted compaction (replays natively).
func vfH_C16_whole() {
	dir := vfFSDir()
	env := vfC16History(dir, vfChoice("third", 2) == 1)
	before, ok := vfRecover(dir)
	vfAssert(ok, "C16: recovery from the pre-compaction directory fails")
	vfAssert(before.n >= 2, "C16: harness: the live holds were not persisted")
	env.slock.aof.rewriteAofFiles()
	after, ok2 := vfRecover(dir)
	vfAssert(ok2, "C16: recovery from the compacted directory fails")
	vfAssert(vfSameRecovered(before, after), "C16: recovering from the compacted files gives different holds than recovering from the files they replaced")
	vfAssert(vfFSExists(dir+"/rewrite.aof") && !vfFSExists(dir+"/append.aof.1"), "C16: compaction did not replace its inputs by rewrite.aof")
	vfReach("end")
}

// C16_crash: the process dies right after any one file-system mutation of the compaction.
func vfH_C16_crash() {
	dir := vfFSDir()
	vfC16Valued = vfChoice("valued", 2) == 1
	defer func() { vfC16Valued = false }()
	env := vfC16History(dir, vfChoice("third", 2) == 1)
	mark := vfFSMark()
	before, ok := vfRecover(dir)
	vfAssert(ok, "C16: recovery from the pre-compaction directory fails")
	env.slock.aof.rewriteAofFiles()
	n := vfFSMutations()
	vfAssert(n > mark+1, "C16: harness: compaction performed no file-system mutation")
	i := mark + vfChoice("crashAfter", n-mark)
	vfFSRestore(i)
	inWindow := vfFSExists(dir+"/rewrite.aof.tmp") && !vfFSExists(dir+"/append.aof.1")
	after, ok2 := vfRecover(dir)
	vfAssert(ok2, "C16: the directory left by a crash during compaction cannot be recovered (start fails)")
	if inWindow {
		vfReach("window")
		vfAssert(vfSameRecovered(before, after), "C16: crash after the compaction removed its inputs and before it renamed rewrite.aof.tmp: the directory recovers to a different state")
	} else {
		vfAssert(vfSameRecovered(before, after), "C16: a crash during compaction leaves a directory that recovers to a different state")
	}
	vfReach("end")
}

// C16_renamefail: the same directory image as "crash after the inputs were removed, before
// rewrite.aof.tmp was renamed", produced without a crash (the rename is made to fail by a
// directory named rewrite.aof), so that it replays natively.
func vfH_C16_renamefail() {
	dir := vfFSDir()
	env := vfC16History(dir, false)
	before, ok := vfRecover(dir)
	vfAssert(ok, "C16: recovery from the pre-compaction directory fails")
	vfMkdir(dir + "/rewrite.aof")
	env.slock.aof.rewriteAofFiles()
	after, ok2 := vfRecover(dir)
	vfAssert(ok2, "C16: the directory left behind cannot be recovered")
	vfAssert(vfSameRecovered(before, after), "C16: inputs removed before rewrite.aof.tmp is renamed: the directory recovers to a different state")
	vfReach("end")
}

// C16_update: terms of a persisted hold changed after the fact (LOCK with the update flag:
// a new expiry, and optionally Count/Rcount), server time then advances by dt before the
// log is compacted.  Recovery from the compacted directory must give the same holds WITH
// the same deadlines and terms as recovery from the directory it replaced.
func init() { vfHarnesses["C16_update"] = vfH_C16_update }

type vfRecTerms struct {
	n        int
	ids      [4][16]byte
	depth    [4]uint8
	deadline [4]int64
	count    [4]uint16
	rcount   [4]uint8
}

func vfRecoverTerms(dir string, now int64, key [16]byte) (vfRecTerms, bool) {
	var out vfRecTerms
	env := vfNewEnv(0)
	vfSetDBTime(env.db, now)
	aof := env.slock.aof
	aof.dataDir = dir
	appendFiles, rewriteFile, err := aof.FindAofFiles()
	if err != nil {
		return out, false
	}
	var files []string
	if rewriteFile != "" {
		files = append(files, rewriteFile)
	}
	files = append(files, appendFiles...)
	lerr, _ := aof.LoadAofFiles(files, now, func(filename string, aofFile *AofFile, lock *AofLock, firstLock bool) (bool, error) {
		return true, aof.LoadLock(lock)
	})
	if lerr != nil {
		return out, false
	}
	vfDrainAof(env.db)
	for _, l := range vfHolders(env.manager(key)) {
		if out.n < 4 {
			out.ids[out.n], out.depth[out.n], out.deadline[out.n] = l.command.LockId, l.locked, l.expriedTime
			out.count[out.n], out.rcount[out.n] = l.command.Count, l.command.Rcount
			out.n++
		}
	}
	return out, true
}

func vfH_C16_update() {
	dir := vfFSDir()
	env := vfNewEnv(1)
	// the compaction reads the wall clock for its "already expired" filter: the executor's clock is set
	// to the server time below; a native replay cannot set the clock, so there server time starts at the wall clock
	base := vfBaseTime
	if !vfSymbolic() {
		base = time.Now().Unix()
	}
	vfSetDBTime(env.db, base)
	vfOpenAof(env, dir)
	key := vfKey(5)
	minute := vfBool("minute")
	eflag := uint16(0x0100) // persisted at once
	if minute {
		eflag |= protocol.EXPRIED_FLAG_MINUTE_TIME
	}
	c := env.newCmd(protocol.COMMAND_LOCK, key, vfLockId(5))
	c.Expried, c.ExpriedFlag, c.Count, c.Rcount = 100, eflag, 0, 0
	// the hold may use Rcount as a priority (timeout flag 0x0010), which the log records do not carry
	prio := vfBool("priority")
	if prio {
		c.TimeoutFlag, c.Rcount = protocol.TIMEOUT_FLAG_RCOUNT_IS_PRIORITY, 2
	}
	env.lock(0, c)
	vfDrainAof(env.db)
	// one second later the holder changes its terms
	vfSetDBTime(env.db, base+1)
	u := env.newCmd(protocol.COMMAND_LOCK, key, vfLockId(5))
	u.Flag = protocol.LOCK_FLAG_UPDATE_WHEN_LOCKED
	u.Expried, u.ExpriedFlag = uint16(200+vfChoice("e2", 2)*100), eflag
	if prio {
		u.TimeoutFlag, u.Rcount = protocol.TIMEOUT_FLAG_RCOUNT_IS_PRIORITY, 2
	}
	if vfBool("count2") {
		u.Count = 3
	}
	n := len(env.replies)
	env.lock(0, u)
	vfAssert(len(env.replies) == n+1, "C16: harness: the update was not answered")
	vfDrainAof(env.db)
	env.slock.aof.Flush()
	// time passes before the log is compacted
	dt := [4]int64{0, 1, 3, 70}[vfChoice("dt", 4)]
	now := base + 1 + dt
	vfSetDBTime(env.db, now)
	vfSetClock(now, 0)
	env.slock.aof.aofGlock.Lock()
	_ = env.slock.aof.RewriteAofFile(false)
	env.slock.aof.aofGlock.Unlock()
	vfDropSpawned()
	before, ok := vfRecoverTerms(dir, now, key)
	vfAssert(ok, "C16: recovery from the pre-compaction directory fails")
	vfAssert(before.n == 1, "C16: harness: the updated hold is not recovered from the pre-compaction directory")
	env.slock.aof.rewriteAofFiles()
	after, ok2 := vfRecoverTerms(dir, now, key)
	vfAssert(ok2, "C16: recovery from the compacted directory fails")
	vfAssert(after.n == before.n, "C16: compaction changed the number of holds recovered")
	for i := 0; i < before.n && i < after.n; i++ {
		vfAssert(after.ids[i] == before.ids[i] && after.depth[i] == before.depth[i], "C16: compaction changed which hold is recovered")
		vfAssert(after.deadline[i] == before.deadline[i], "C16: compaction changed the deadline a hold is recovered with")
		vfAssert(after.count[i] == before.count[i] && after.rcount[i] == before.rcount[i], "C16: compaction changed the terms a hold is recovered with")
	}
	vfReach("end")
}
