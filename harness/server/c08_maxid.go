package server

// C08_maxid: the start of a replica-set member (ArbiterManager.Load -> Aof.LoadMaxAofId; it fails the start
// if this fails).  The directory of a node that stopped right after a rotation: append.aof.1 with a header
// and two complete records, and the newest file append.aof.2 cut at every byte of its 12-byte header, or
// after 0..2 records at every byte.  LoadMaxAofId must succeed and report the position of the last complete
// record of the log (of the older file when the newest one holds none).

import (
	"github.com/snower/slock/protocol"
)

func init() { vfHarnesses["C08_maxid"] = vfH_C08_maxid }

func vfH_C08_maxid() {
	env := vfNewEnv(0)
	aof := env.slock.aof
	dir := vfFSDir()
	Config.DataDir = dir
	mk := func(index, offset uint32) []byte {
		l := NewAofLock()
		l.CommandType = protocol.COMMAND_LOCK
		l.AofIndex, l.AofOffset, l.CommandTime = index, offset, uint64(vfBaseTime)
		l.LockKey, l.LockId = vfKey(uint8(offset)), vfLockId(uint8(offset))
		if l.Encode() != nil {
			vfFail("harness: cannot encode a record")
		}
		b := append([]byte(nil), l.buf...)
		b[0], b[1] = 62, 0 // the record length the file writer puts in front
		return b
	}
	first := vfAofHeader()
	first = append(first, mk(1, 1)...)
	first = append(first, mk(1, 2)...)
	vfFSWrite(dir+"/append.aof.1", first)
	vfFSWrite(dir+"/append.aof.1.dat", nil)
	second := vfAofHeader()
	second = append(second, mk(2, 1)...)
	second = append(second, mk(2, 2)...)
	cut := vfRange("cut", 0, len(second))
	vfFSWrite(dir+"/append.aof.2", second[:cut])
	vfFSWrite(dir+"/append.aof.2.dat", nil)
	id, err := aof.LoadMaxAofId()
	if err != nil {
		vfFail("C08: a replica-set member cannot start on a directory whose newest log file is cut (LoadMaxAofId fails): " + err.Error())
	}
	want := NewAofLock()
	want.CommandTime = uint64(vfBaseTime)
	switch {
	case cut >= 12+128:
		want.AofIndex, want.AofOffset = 2, 2
	case cut >= 12+64:
		want.AofIndex, want.AofOffset = 2, 1
	default:
		want.AofIndex, want.AofOffset = 1, 2
		vfReach("newest-empty")
	}
	vfAssert(id == want.GetAofId(), "C08: the log position a restarting member reports is not that of its last complete record")
	vfReach("end")
}
