package server

// C10_demote: a leader with a holder and a queued client request is demoted (SLock.updateState
// sets db.status; nothing else happens to the databases).  The new leader's stream then releases
// the holder (UNLOCK with the from-aof flag).  The node is no leader any more: it must not grant
// the queued client request on its own (the grant would exist on this node only; the request
// ends by its timeout).  A queued request that itself came from the stream is still applied.

import (
	"github.com/snower/slock/protocol"
)

func init() { vfHarnesses["C10_demote"] = vfH_C10_demote }

func vfH_C10_demote() {
	env := vfNewEnv(2)
	key := vfKey(1)
	a := env.newCmd(protocol.COMMAND_LOCK, key, vfLockId(1))
	a.Expried, a.ExpriedFlag = 100, 0x0200
	env.lock(0, a)
	w := env.newCmd(protocol.COMMAND_LOCK, key, vfLockId(2))
	w.Timeout, w.Expried, w.ExpriedFlag = 50, 100, 0x0200
	fromStream := vfChoice("waiterFromStream", 2) == 1
	if fromStream {
		w.Flag = protocol.LOCK_FLAG_FROM_AOF
	}
	wreq := w.RequestId
	env.lock(1, w)
	vfAssert(len(env.repliesFor(wreq)) == 0, "C10: harness: the second request is not queued")
	env.db.status = vfNonLeaderStatus("status")
	u := env.newCmd(protocol.COMMAND_UNLOCK, key, vfLockId(1))
	u.Flag = protocol.UNLOCK_FLAG_FROM_AOF
	env.unlock(0, u)
	m := env.manager(key)
	granted := false
	for _, h := range vfHolders(m) {
		if h.command.LockId == vfLockId(2) {
			granted = true
		}
	}
	if fromStream {
		vfAssert(granted, "C10: a queued request that came from the leader's stream was not applied when the stream released the holder")
		vfReach("stream-waiter")
	} else {
		vfAssert(!granted && vfCountResult(env.replies, wreq, protocol.RESULT_SUCCED) == 0, "C10: a demoted node granted a queued client request on its own")
		vfReach("client-waiter")
	}
	vfReach("end")
}
