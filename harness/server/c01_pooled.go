package server

import "github.com/snower/slock/protocol"

// C01_pooled: histories in which every request's command object is taken from the
// connection's own pool (GetLockCommand), exactly as the real protocols do, so that
// whatever object the server hands back to the pool IS the next request of that
// connection.  A hold whose terms live in an object the server has already freed
// is then silently rewritten by the next request on that connection (its Count,
// LockId, key) — invisible to the other harnesses, which build every command afresh.
//
// The oracle is black-box: a shadow list of holds {LockId, Count, depth} is kept
// from the replies alone (SUCCED of a new LockId = new hold; SUCCED of a holder =
// one level more and the request's terms; an update answered LOCKED_ERROR = the
// request's terms, which equal the old ones whenever the server may ignore it;
// SUCCED of an unlock = hold gone) and the admission rule is asserted for every new
// hold with the shadow's numbers.  No time passes, nothing queues (Timeout 0).

func init() { vfHarnesses["C01_pooled"] = vfH_C01_pooled }

type vfShadowHold struct {
	lid   [16]byte
	count uint16
	depth uint32
}

func vfH_C01_pooled() {
	env := vfNewEnv(2)
	key, other := vfKey(1), vfKey(2)
	var holds []vfShadowHold
	find := func(lid [16]byte) int {
		for i := range holds {
			if holds[i].lid == lid {
				return i
			}
		}
		return -1
	}
	steps := 4
	for step := 0; step < steps; step++ {
		op := vfChoice(vfName("op", step), 3)
		who := vfChoice(vfName("who", step), 2) // connection 0 uses LockId 1, connection 1 LockId 2
		p := env.protos[who]
		lid := vfLockId(uint8(1 + who))
		c := p.GetLockCommand()
		c.Magic, c.Version = protocol.MAGIC, protocol.VERSION
		c.RequestId = env.reqId()
		c.DbId, c.Flag, c.Timeout, c.TimeoutFlag, c.Data = 0, 0, 0, 0, nil
		req := c.RequestId
		n0 := len(env.replies)
		switch op {
		case 0: // LOCK on the key: new hold, re-entry or update; ordinary or keep-the-timing terms
			c.CommandType, c.LockKey, c.LockId = protocol.COMMAND_LOCK, key, lid
			c.Flag = vfU8(vfName("flag", step)) & 0x02
			c.Count, c.Rcount = vfU16(vfName("count", step)), vfU8(vfName("rcount", step))
			c.ExpriedFlag = 0x0200 | (vfU16(vfName("eflag", step)) & 0x4000)
			c.Expried = [2]uint16{3, 0xffff}[vfChoice(vfName("expriedc", step), 2)]
			count, flag := c.Count, c.Flag
			_ = env.db.Lock(p, c, 0)
			rs := env.replies[n0:]
			vfAssert(len(rs) == 1 && rs[0].reqId == req, "C01_pooled: a LOCK with Timeout 0 was not answered exactly once")
			i := find(lid)
			if i < 0 {
				if rs[0].result == protocol.RESULT_SUCCED {
					n := uint32(0)
					for _, h := range holds {
						n += h.depth
					}
					vfReach("grant")
					vfAssert(n <= uint32(count), "C01: granted with more outstanding holds than the request's Count")
					if n > 0 {
						vfReach("grant-shared")
						vfAssert(n <= uint32(holds[0].count), "C01: granted with more outstanding holds than the oldest holder's Count")
					}
					holds = append(holds, vfShadowHold{lid, count, 1})
				}
			} else if flag&0x02 != 0 {
				if rs[0].result == protocol.RESULT_LOCKED_ERROR {
					vfReach("updated")
					holds[i].count = count
				}
			} else if rs[0].result == protocol.RESULT_SUCCED {
				vfReach("re-entered")
				holds[i].count = count
				holds[i].depth++
			}
		case 1: // an unrelated request of that connection: a LOCK on another key with its own Count
			c.CommandType, c.LockKey, c.LockId = protocol.COMMAND_LOCK, other, vfLockId(uint8(7+who))
			c.Count, c.Rcount = vfU16(vfName("ocount", step)), 0
			c.ExpriedFlag, c.Expried = 0x0200, 3
			_ = env.db.Lock(p, c, 0)
			vfAssert(len(env.replies) == n0+1 && env.replies[n0].reqId == req, "C01_pooled: the LOCK on the other key was not answered exactly once")
		case 2: // UNLOCK of the whole hold
			c.CommandType, c.LockKey, c.LockId = protocol.COMMAND_UNLOCK, key, lid
			c.Count, c.Rcount, c.ExpriedFlag, c.Expried = 0, 0, 0, 0
			_ = env.db.UnLock(p, c, 0)
			rs := env.replies[n0:]
			vfAssert(len(rs) == 1 && rs[0].reqId == req, "C01_pooled: the UNLOCK was not answered exactly once")
			i := find(lid)
			if rs[0].result == protocol.RESULT_SUCCED {
				vfAssert(i >= 0, "C02: an UNLOCK of a LockId that holds nothing was answered SUCCED")
				holds = append(holds[:i], holds[i+1:]...)
			} else {
				vfAssert(i < 0, "C02: the UNLOCK of an outstanding hold (Rcount 0) was refused")
			}
		}
		// the census of the real holder list agrees with the shadow
		m := env.manager(key)
		sum := uint32(0)
		for _, h := range holds {
			sum += h.depth
		}
		if m == nil {
			vfAssert(sum == 0, "C01_pooled: the key's manager is gone while holds are outstanding")
		} else {
			vfAssert(m.locked == sum, "C01_pooled: the key's hold counter differs from the holds the replies announced")
			hs := vfHolders(m)
			vfAssert(len(hs) == len(holds), "C01_pooled: the holder list differs from the holds the replies announced")
			for j, h := range hs {
				vfAssert(h.command.LockId == holds[j].lid, "C01_pooled: a hold's LockId changed after it was granted")
				vfAssert(h.command.Count == holds[j].count, "C01_pooled: a hold's Count is not the Count of the request that last set its terms")
			}
		}
	}
	vfReach("end")
}
