package server

import "github.com/snower/slock/protocol"

// C18_keepalive: the keep-alive flag on a queued request (the wait is renewed as long as the requester's
// connection is alive) and the end of that connection.  A request with the keep-alive flag and T = 3 s
// queues behind a holder that stays; its requester is a binary connection that stays open, a binary
// connection that is closed one second later, or has no connection at all (the in-process protocol).
// Without a live connection behind it the request has to end like any other: answered TIMEOUT within
// [T, T+2 s], WaitCount back to 0, nothing left queued.

func init() { vfHarnesses["C18_keepalive"] = vfH_C18_keepalive }

func vfH_C18_keepalive() {
	env := vfNewEnv(2)
	vfSetDBTime(env.db, vfBaseTime)
	key := vfKey(1)
	h := env.newCmd(protocol.COMMAND_LOCK, key, vfLockId(1))
	h.Expried, h.ExpriedFlag = 1000, 0x0200
	env.lock(0, h)
	w := env.newCmd(protocol.COMMAND_LOCK, key, vfLockId(2))
	w.Timeout, w.TimeoutFlag, w.Expried, w.ExpriedFlag = 3, protocol.TIMEOUT_FLAG_KEEPLIVED, 100, 0x0200
	who := vfChoice("requester", 3)
	conn := &vfConn{}
	var bp *BinaryServerProtocol
	state := env.db.states[0]
	if who == 2 {
		env.lock(1, w)
	} else {
		bp = NewBinaryServerProtocol(env.slock, NewStream(conn))
		_ = bp.ProcessCommad(w)
	}
	vfAssert(state.WaitCount == 1, "C18: harness: the request did not queue")
	vfTick(env, 1)
	if who == 1 {
		_ = bp.Close()
		vfReach("closed")
	}
	ended := -1
	for s := 2; s <= 12; s++ {
		vfTick(env, 1)
		if state.WaitCount == 0 && ended < 0 {
			ended = s
		}
	}
	if who == 0 {
		// a live connection: the wait is renewed (nothing is claimed about when it ends)
		vfReach("alive")
		return
	}
	vfAssert(ended >= 0, "C18: a request left queued by a connection that ended (or that never had one) never ends: its keep-alive wait is renewed for ever")
	vfAssert(ended >= 3 && ended <= 6, "C05: a queued request without a live connection behind it was not answered TIMEOUT within [T, T+2 s]")
	vfAssert(len(vfLiveWaiters(env.manager(key))) == 0, "C18: the request is still queued after its wait ended")
	if who == 2 {
		vfAssert(vfCountResult(env.replies, w.RequestId, protocol.RESULT_TIMEOUT) == 1, "C05: the request was not answered TIMEOUT exactly once")
	}
	vfReach("end")
}
