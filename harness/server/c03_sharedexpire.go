package server

import "github.com/snower/slock/protocol"

// C03_sharedexpire: holders of a shared key that leave in different ways.  Three holders (Count 2, E = 3 s,
// one of them optionally re-entered to depth 2); one of them — the oldest, the middle one or the newest —
// releases its hold (completely, or one level of two); then the clock passes every deadline.  The released
// holder draws no EXPRIED notice (its request had its terminal reply when it was granted; the UNLOCK was
// answered), each remaining one draws exactly one, under its own RequestId; nothing is freed twice.

func init() { vfHarnesses["C03_sharedexpire"] = vfH_C03_sharedexpire }

func vfH_C03_sharedexpire() {
	env := vfNewEnv(1)
	vfSetDBTime(env.db, vfBaseTime)
	key := vfKey(1)
	var reqs [3][16]byte
	for i := 0; i < 3; i++ {
		c := env.newCmd(protocol.COMMAND_LOCK, key, vfLockId(uint8(1+i)))
		c.Count, c.Rcount, c.Expried, c.ExpriedFlag = 2, 1, 3, 0x0200
		reqs[i] = c.RequestId
		env.lock(0, c)
	}
	vfAssert(len(vfHolders(env.manager(key))) == 3, "C03: harness: three holders expected")
	who := vfChoice("who", 3)
	deep := vfChoice("deep", 2) == 1
	if deep {
		c := env.newCmd(protocol.COMMAND_LOCK, key, vfLockId(uint8(1+who)))
		c.Count, c.Rcount, c.Expried, c.ExpriedFlag = 2, 1, 3, 0x0200
		n := len(env.replies)
		env.lock(0, c)
		vfAssert(env.replies[n].result == protocol.RESULT_SUCCED, "C03: harness: re-entry refused")
		reqs[who] = c.RequestId // the re-lock set the hold's terms
	}
	u := env.newCmd(protocol.COMMAND_UNLOCK, key, vfLockId(uint8(1+who)))
	oneLevel := deep && vfChoice("oneLevel", 2) == 1
	if oneLevel {
		u.Rcount = 1
	}
	n := len(env.replies)
	env.unlock(0, u)
	vfAssert(len(env.replies) == n+1 && env.replies[n].result == protocol.RESULT_SUCCED, "C03: the holder's unlock was refused")
	n = len(env.replies)
	vfTick(env, 8)
	for i := 0; i < 3; i++ {
		ex := vfCountResult(env.replies[n:], reqs[i], protocol.RESULT_EXPRIED)
		if i == who && !oneLevel {
			vfAssert(ex == 0, "C03: a hold that was released drew an EXPRIED notice when its old deadline passed")
		} else {
			vfAssert(ex == 1, "C03: a hold that ended by time did not draw exactly one EXPRIED notice under its own RequestId")
		}
	}
	for _, r := range env.replies[n:] {
		known := false
		for i := 0; i < 3; i++ {
			if r.reqId == reqs[i] {
				known = true
			}
		}
		vfAssert(known && r.result == protocol.RESULT_EXPRIED, "C03: a reply that no pending request or hold accounts for")
	}
	p := env.protos[0]
	for i := 0; i < p.freeCommandIndex; i++ {
		for j := i + 1; j < p.freeCommandIndex; j++ {
			vfAssert(p.freeCommands[j] != p.freeCommands[i], "C03: a command object was freed twice")
		}
	}
	vfAssert(env.db.states[0].LockedCount == 0, "C17: holds are still counted after every one of them ended")
	vfReach("end")
}
