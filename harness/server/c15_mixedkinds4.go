package server

// C15_mixedkinds4 (registered under C13): value operations of MISMATCHED kinds, every frame well-formed (built
// by the real client-side constructors): every sequence of 3 operations from {SET (1..3 or 8 symbolic bytes),
// INCR (symbolic), APPEND, SHIFT (any 32-bit length), PUSH, POP (1..3), UNSET} in ANY order — INCR on a
// 2-byte value, POP on a byte string, APPEND on a number ... What value results is not specified and not
// asserted; that the server does not crash and answers each request exactly once is.

import (
	"github.com/snower/slock/protocol"
)

func init() { vfHarnesses["C15_mixedkinds4"] = vfH_C15_mixedkinds4 }

func vfH_C15_mixedkinds4() {
	env := vfNewEnv(1)
	key := vfKey(1)
	for step := 0; step < 4; step++ {
		p := vfName("op", step)
		var d *protocol.LockCommandData
		switch vfChoice(p+".k", 7) {
		case 0:
			d = protocol.NewLockCommandDataSetData(vfBytes(p+".v", [4]int{1, 2, 3, 8}[vfChoice(p+".n", 4)]))
		case 1:
			d = protocol.NewLockCommandDataIncrData(vfI64(p + ".d"))
		case 2:
			d = protocol.NewLockCommandDataAppendData(vfBytes(p+".v", vfRange(p+".n", 1, 2)))
		case 3:
			d = protocol.NewLockCommandDataShiftData(vfU32(p + ".s"))
		case 4:
			d = protocol.NewLockCommandDataPushData(vfBytes(p+".v", vfRange(p+".n", 1, 2)))
		case 5:
			d = protocol.NewLockCommandDataPopData(uint32(vfRange(p+".c", 1, 3)))
		default:
			d = protocol.NewLockCommandDataUnsetData()
		}
		c := env.newCmd(protocol.COMMAND_LOCK, key, vfLockId(uint8(1+step)))
		c.Flag = protocol.LOCK_FLAG_CONTAINS_DATA
		c.Count, c.Expried, c.ExpriedFlag = 0xffff, 100, 0x0200
		c.Data = d
		n := len(env.replies)
		env.lock(0, c)
		vfAssert(len(env.replies) == n+1, "C03: a lock carrying a value operation was not answered exactly once")
	}
	vfReach("end")
}
