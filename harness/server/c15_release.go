package server

// C15_release: the register belongs to the time a key is held.  A holder sets a value (persistence
// timing: never / default delay / at once; E = 30 s or 3 s) and the hold ends — released at once, or
// by expiry; 0..2 s later another LockId takes the key with an APPEND.  The key was free in between:
// the reply must carry no value from before, and the stored value is the appended bytes alone.

import (
	"github.com/snower/slock/protocol"
)

func init() { vfHarnesses["C15_release"] = vfH_C15_release }

func vfH_C15_release() {
	env := vfNewEnv(2)
	vfSetDBTime(env.db, vfBaseTime)
	key := vfKey(1)
	v0 := vfBytes("v0", 2)
	a := env.newCmd(protocol.COMMAND_LOCK, key, vfLockId(1))
	a.Flag = protocol.LOCK_FLAG_CONTAINS_DATA
	a.Data = protocol.NewLockCommandDataSetData(v0)
	a.ExpriedFlag = [3]uint16{0x0200, 0, 0x0100}[vfChoice("aof", 3)]
	byExpiry := vfChoice("byExpiry", 2) == 1
	a.Expried = 30
	if byExpiry {
		a.Expried = 3
	}
	env.lock(0, a)
	vfAssert(len(env.replies) == 1 && env.replies[0].result == protocol.RESULT_SUCCED, "C15: harness: the first lock was refused")
	if byExpiry {
		vfTick(env, 5)
		vfAssert(vfCountResult(env.replies, a.RequestId, protocol.RESULT_EXPRIED) == 1, "C15: harness: the hold did not expire")
	} else {
		u := env.newCmd(protocol.COMMAND_UNLOCK, key, vfLockId(1))
		n := len(env.replies)
		env.unlock(0, u)
		vfAssert(len(env.replies) == n+1 && env.replies[n].result == protocol.RESULT_SUCCED && env.replies[n].lcount == 0, "C15: harness: the release was refused")
	}
	if m := env.manager(key); m != nil {
		vfAssert(len(vfHolders(m)) == 0, "C15: harness: the key is still held")
		vfReach("manager-alive")
	}
	gap := vfChoice("gap", 3)
	if gap > 0 {
		vfTick(env, int64(gap))
	}
	x := vfBytes("x", 1)
	b := env.newCmd(protocol.COMMAND_LOCK, key, vfLockId(2))
	b.Flag, b.Expried, b.ExpriedFlag = protocol.LOCK_FLAG_CONTAINS_DATA, 30, 0x0200
	b.Data = protocol.NewLockCommandDataAppendData(x)
	n := len(env.replies)
	env.lock(1, b)
	vfAssert(len(env.replies) == n+1 && env.replies[n].result == protocol.RESULT_SUCCED, "C15: a lock on a free key was refused")
	vfAssert(!env.replies[n].hasData, "C15: the first hold of a key that was free in between was shown the value its previous holder left")
	vfAssert(vfDecodeMatches(env.manager(key).GetLockData(), vfValue{kind: vfVBytes, b: x}), "C15: the value of a key that was free in between is not the new holder's alone")
	vfReach("end")
}
