package server

// Millisecond-scale waits and holds (C05 / C06 / C03).  AddMillisecondTimeOut and
// AddMillisecondExpried start one goroutine per millisecond slot
// (checkMillisecondTimeOut / checkMillisecondExpried), which sleeps until its slot's
// time and then sweeps the slot.  The executor records the `go` statement and the
// harness runs it at the chosen moment (clock set by vfSetClock, time.Sleep is a no-op);
// values of 3000 ms and more are handed to the second wheel by that sweep, which the
// harness then drives with the real per-second sweeps (vfTick).
// No native replay: natively the sweeper is a real sleeping goroutine.

import (
	"github.com/snower/slock/protocol"
)

func init() {
	vfHarnesses["C05_ms"] = vfH_C05_ms
	vfHarnesses["C06_ms"] = vfH_C06_ms
}

var vfMsValues = [7]uint16{1, 500, 2999, 3000, 3300, 7000, 59999}

// vfRunSweepers runs every recorded sweeper goroutine whose turn has come (all recorded so far).
func vfRunSweepers(from int) int {
	n := vfSpawnCount()
	for i := from; i < n; i++ {
		vfRunSpawned(i)
	}
	return n
}

func vfH_C05_ms() {
	env := vfNewEnv(2)
	t0 := vfBaseTime
	vfSetDBTime(env.db, t0)
	vfSetClock(t0, 0)
	vfDropSpawned()
	key := vfKey(1)
	a := env.newCmd(protocol.COMMAND_LOCK, key, vfLockId(1))
	a.Expried, a.ExpriedFlag = 1000, 0x0200
	env.lock(0, a)
	T := vfMsValues[vfChoice("T", len(vfMsValues))]
	b := env.newCmd(protocol.COMMAND_LOCK, key, vfLockId(2))
	b.Timeout, b.TimeoutFlag = T, protocol.TIMEOUT_FLAG_MILLISECOND_TIME
	b.Expried, b.ExpriedFlag = 1000, 0x0200
	breq := b.RequestId
	env.lock(1, b)
	vfAssert(len(env.repliesFor(breq)) == 0, "C05: a request that has to wait was answered at once")
	vfAssert(vfSpawnCount() == 1, "C05: harness: no millisecond sweeper was started for a millisecond wait")
	grantFirst := vfBool("grantFirst")
	if grantFirst {
		// the holder leaves before the wait ends: the request is granted
		u := env.newCmd(protocol.COMMAND_UNLOCK, key, vfLockId(1))
		env.unlock(0, u)
		rs := env.repliesFor(breq)
		vfAssert(len(rs) == 1 && rs[0].result == protocol.RESULT_SUCCED, "C05: the queued request was not granted when the holder left")
		vfReach("granted")
	}
	// the slot's sweeper wakes at t0 + (T mod 3000) ms
	wake := int64(T % 3000)
	vfSetClock(t0+wake/1000, (wake%1000)*1000000)
	next := vfRunSweepers(0)
	if !grantFirst && T < 3000 {
		rs := env.repliesFor(breq)
		vfAssert(len(rs) == 1 && rs[0].result == protocol.RESULT_TIMEOUT, "C05: a millisecond wait below 3 s did not end with exactly one TIMEOUT when its slot was swept")
		vfReach("ms-timeout")
	}
	// the seconds go by: T/1000 + 2 of them
	secs := int64(T/1000) + 2
	for s := int64(1); s <= secs; s++ {
		vfSetClock(t0+s, 0)
		vfTick(env, 1)
		next = vfRunSweepers(next)
		rs := env.repliesFor(breq)
		if grantFirst {
			vfAssert(len(rs) == 1, "C05: a granted request drew a further reply (a TIMEOUT after the grant)")
		} else if T >= 3000 {
			if len(rs) > 0 {
				vfAssert(len(rs) == 1 && rs[0].result == protocol.RESULT_TIMEOUT, "C05: unexpected reply for a waiting request")
				vfAssert(s*1000 >= int64(T), "C05: TIMEOUT before the requested wait had passed")
				vfReach("s-timeout")
			} else {
				vfAssert(s < secs, "C05: a millisecond wait of 3 s or more was not ended by T + 2 s")
			}
		}
	}
	rs := env.repliesFor(breq)
	vfAssert(len(rs) == 1, "C05: not exactly one terminal reply")
	if grantFirst {
		hs := vfHolders(env.manager(key))
		vfAssert(len(hs) == 1 && hs[0].command.LockId == vfLockId(2), "C05: the granted hold was taken away when its old wait deadline passed")
	} else {
		// the late unlock serves nobody and draws no second reply
		u := env.newCmd(protocol.COMMAND_UNLOCK, key, vfLockId(1))
		env.unlock(0, u)
		vfAssert(len(env.repliesFor(breq)) == 1, "C05: a request that timed out was answered again when the holder left")
	}
	vfReach("end")
}

// C06_ms: a hold with a millisecond expiry ends exactly once, not before E ms, by E + 2 s;
// a release before that draws no EXPRIED.
func vfH_C06_ms() {
	env := vfNewEnv(2)
	t0 := vfBaseTime
	vfSetDBTime(env.db, t0)
	vfSetClock(t0, 0)
	vfDropSpawned()
	key := vfKey(1)
	E := vfMsValues[vfChoice("E", len(vfMsValues))]
	a := env.newCmd(protocol.COMMAND_LOCK, key, vfLockId(1))
	a.Expried, a.ExpriedFlag = E, protocol.EXPRIED_FLAG_MILLISECOND_TIME|0x0200
	areq := a.RequestId
	env.lock(0, a)
	rs := env.repliesFor(areq)
	vfAssert(len(rs) == 1 && rs[0].result == protocol.RESULT_SUCCED, "C06: harness: lock not granted")
	vfAssert(vfSpawnCount() == 1, "C06: harness: no millisecond sweeper was started for a millisecond expiry")
	// a second client waits for the key
	w := env.newCmd(protocol.COMMAND_LOCK, key, vfLockId(2))
	w.Timeout, w.Expried, w.ExpriedFlag = 600, 1000, 0x0200
	wreq := w.RequestId
	env.lock(1, w)
	releaseFirst := vfBool("releaseFirst")
	if releaseFirst {
		u := env.newCmd(protocol.COMMAND_UNLOCK, key, vfLockId(1))
		env.unlock(0, u)
		vfAssert(vfCountResult(env.replies, wreq, protocol.RESULT_SUCCED) == 1, "C06: the waiter was not served when the hold was released")
	}
	wake := int64(E % 3000)
	vfSetClock(t0+wake/1000, (wake%1000)*1000000)
	next := vfRunSweepers(0)
	expired := func() int { return vfCountResult(env.replies, areq, protocol.RESULT_EXPRIED) }
	if !releaseFirst && E < 3000 {
		vfAssert(expired() == 1, "C06: a millisecond hold below 3 s did not end with exactly one EXPRIED when its slot was swept")
		vfAssert(vfCountResult(env.replies, wreq, protocol.RESULT_SUCCED) == 1, "C06: the capacity of an expired hold was not handed to the waiter")
		vfReach("ms-expired")
	}
	secs := int64(E/1000) + 2
	for s := int64(1); s <= secs; s++ {
		vfSetClock(t0+s, 0)
		vfTick(env, 1)
		next = vfRunSweepers(next)
		if releaseFirst {
			vfAssert(expired() == 0, "C06: a released hold drew an EXPRIED notice")
		} else if E >= 3000 {
			if expired() > 0 {
				vfAssert(expired() == 1, "C06: more than one EXPRIED notice")
				vfAssert(s*1000 >= int64(E), "C06: EXPRIED before the requested time had passed")
				vfReach("s-expired")
			} else {
				vfAssert(s < secs, "C06: a millisecond hold of 3 s or more was not ended by E + 2 s")
			}
		}
	}
	if !releaseFirst {
		vfAssert(expired() == 1, "C06: the hold did not end with exactly one EXPRIED")
		vfAssert(vfCountResult(env.replies, wreq, protocol.RESULT_SUCCED) == 1, "C06: the capacity of an expired hold was not handed to the waiter")
	}
	vfAssert(len(env.repliesFor(wreq)) == 1, "C06: the waiter was not answered exactly once")
	vfReach("end")
}
