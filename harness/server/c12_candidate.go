package server

// C12_candidate: the candidate's own acceptor state while it runs a proposal round.  The real
// ArbiterVoter.DoProposal asks the three members (itself through DoSelfProposal, the others
// through ArbiterClient.Request, redirected to a stub; each remote member accepts or the message
// is lost).  While the candidate waits for a remote answer, a foreign candidate's REPL_PROPOSAL
// with a higher number may be delivered to its own acceptor (real remote handler) — the handler
// goroutine and the voter run concurrently in the server, this is one of their interleavings.
// The member's accepted number must never decrease.
// No native replay (natively Request needs a connection).

import (
	"errors"

	"github.com/snower/slock/protocol"
	"github.com/snower/slock/protocol/protobuf"
	"google.golang.org/protobuf/proto"
)

func init() { vfHarnesses["C12_candidate"] = vfH_C12_candidate }

var vfCandLost map[string]bool
var vfCandForeignAt string // deliver the foreign proposal while waiting for this member's answer
var vfCandForeignId uint64
var vfCandMgr *ArbiterManager
var vfCandBp *BinaryServerProtocol
var vfCandMax uint64 // the largest accepted number observed

func vfCandNote() {
	if vfCandMgr.voter.proposalId > vfCandMax {
		vfCandMax = vfCandMgr.voter.proposalId
	}
}

func vfCandidateRequest(c *ArbiterClient, command *protocol.CallCommand) (*protocol.CallResultCommand, error) {
	vfCandNote()
	if vfCandForeignAt == c.member.host {
		vfCandForeignAt = ""
		var aofId [16]byte
		if vfRemoteProposal(vfCandMgr, vfCandBp, vfCandForeignId, "C", aofId) {
			vfReach("foreign-accepted")
		}
		vfCandNote()
	}
	if vfCandLost[c.member.host] {
		return nil, errors.New("lost")
	}
	if command.MethodName == "REPL_PROPOSAL" {
		data, err := proto.Marshal(&protobuf.ArbiterProposalResponse{ErrMessage: "", ProposalId: 0})
		if err != nil {
			return nil, err
		}
		return protocol.NewCallResultCommand(command, 0, "", data), nil
	}
	data, err := proto.Marshal(&protobuf.ArbiterCommitResponse{ErrMessage: "", CommitId: 0})
	if err != nil {
		return nil, err
	}
	return protocol.NewCallResultCommand(command, 0, "", data), nil
}

func vfH_C12_candidate() {
	env, m := vfArbiter(false)
	vfCandMgr = m
	// member C's server-side connection to this node (the foreign candidate speaks through it)
	vfCandBp = NewBinaryServerProtocol(env.slock, NewStream(&vfConn{}))
	m.members[2].server = NewArbiterServer(vfCandBp)
	v := m.voter
	v.proposalId, v.commitId = 4, 4
	v.voteHost = "A"
	vfCandLost = map[string]bool{"B": vfChoice("lostB", 2) == 1, "C": vfChoice("lostC", 2) == 1}
	vfCandForeignAt = [3]string{"", "B", "C"}[vfChoice("foreignAt", 3)]
	vfCandForeignId = 5 + uint64(vfChoice("foreignAhead", 3)) // equal to, one above, two above the candidate's number
	vfCandMax = v.proposalId
	vfGoInline(true)
	err := v.DoProposal()
	vfGoInline(false)
	vfCandNote()
	vfAssert(v.proposalId >= vfCandMax, "C12: a member's accepted proposal number decreased during its own proposal round")
	if err == nil {
		vfReach("proposed")
	}
	vfReach("end")
}
