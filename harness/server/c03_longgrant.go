package server

// C03_longgrant: a queued request that has waited long enough to sit in the long-wait table
// (the seconds wheel hands an entry over after ~44 s) is granted when the holder leaves.  From then
// on it is an answered request: however the key goes on (the new holder unlocks, a further
// request comes), its LOCK gets no second reply of any kind, and nobody holds the key who was
// not told so.

import (
	"github.com/snower/slock/protocol"
)

func init() { vfHarnesses["C03_longgrant"] = vfH_C03_longgrant }

func vfH_C03_longgrant() {
	env := vfNewEnv(3)
	vfSetDBTime(env.db, vfBaseTime)
	key := vfKey(1)
	count := uint16(vfChoice("count", 2)) // exclusive key, or two slots
	zeroExp := vfChoice("waiterE0", 2) == 1
	for i := 0; i <= int(count); i++ {
		h := env.newCmd(protocol.COMMAND_LOCK, key, vfLockId(uint8(1+i)))
		h.Expried, h.ExpriedFlag, h.Count = 0xffff, 0x4200, count
		env.lock(0, h)
	}
	w := env.newCmd(protocol.COMMAND_LOCK, key, vfLockId(10))
	w.Timeout, w.Expried, w.ExpriedFlag, w.Count = 100, 0xffff, 0x4200, count
	if zeroExp {
		w.Expried, w.ExpriedFlag = 0, 0
	}
	wreq := w.RequestId
	n0 := len(env.replies)
	env.lock(1, w)
	vfAssert(len(env.replies) == n0, "C03: harness: the request was not queued")
	waitFor := [2]int{10, 50}[vfChoice("waited", 2)] // still in the seconds wheel / in the long-wait table
	for i := 0; i < waitFor; i++ {
		vfTick(env, 1)
	}
	vfAssert(vfCountReq(env.replies, wreq) == 0, "C03: harness: the queued request was answered early")
	u := env.newCmd(protocol.COMMAND_UNLOCK, key, vfLockId(1))
	env.unlock(0, u)
	vfAssert(vfCountResult(env.replies, wreq, protocol.RESULT_SUCCED) == 1 && vfCountReq(env.replies, wreq) == 1, "C03: the queued request was not answered exactly once (SUCCED) when the holder left")
	// the key goes on
	if !zeroExp {
		u2 := env.newCmd(protocol.COMMAND_UNLOCK, key, vfLockId(10))
		env.unlock(1, u2)
		vfAssert(vfCountResult(env.replies, u2.RequestId, protocol.RESULT_SUCCED) == 1, "C03: the granted request's own unlock was not accepted")
	}
	vfAssert(vfCountReq(env.replies, wreq) == 1, "C03: a request granted out of the long-wait table was answered a second time")
	for i := 0; i < 3; i++ {
		vfTick(env, 1)
	}
	vfAssert(vfCountReq(env.replies, wreq) == 1, "C03: a request granted out of the long-wait table was answered a second time")
	// somebody else now gets the free slot
	x := env.newCmd(protocol.COMMAND_LOCK, key, vfLockId(20))
	x.Timeout, x.Expried, x.Count = 0, 5, count
	env.lock(2, x)
	vfAssert(vfCountResult(env.replies, x.RequestId, protocol.RESULT_SUCCED) == 1, "C03: the slot the granted request gave back is held by somebody who was never told")
	vfAssert(env.db.states[0].WaitCount == 0, "C03: WaitCount not zero with an empty queue")
	vfReach("end")
}

func vfCountReq(rs []vfReply, reqId [16]byte) int {
	n := 0
	for _, r := range rs {
		if r.reqId == reqId {
			n++
		}
	}
	return n
}
