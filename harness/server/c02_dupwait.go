package server

import "github.com/snower/slock/protocol"

// C02_dupwait: one LockId queued twice.  A key of capacity 2 (Count 1) held by Y and Z; LockId X asks
// twice (both requests queue: a queued LockId is not a holder, so neither the re-entrant nor the
// LOCKED_ERROR branch sees it; second request: same terms, or Rcount 1); Y and Z leave.  C02 speaks of
// "a hold with that LockId": however the two requests were answered, an UNLOCK of X with Rcount 0
// removes everything X holds, the key is free afterwards, and a second UNLOCK of X is refused.

func init() { vfHarnesses["C02_dupwait"] = vfH_C02_dupwait }

func vfH_C02_dupwait() {
	env := vfNewEnv(2)
	key := vfKey(1)
	mk := func(id uint8, timeout uint16, rcount uint8) *protocol.LockCommand {
		c := env.newCmd(protocol.COMMAND_LOCK, key, vfLockId(id))
		c.Count, c.Rcount, c.Timeout, c.Expried, c.ExpriedFlag = 1, rcount, timeout, 120, 0x0200
		return c
	}
	env.lock(0, mk(1, 0, 0))
	env.lock(0, mk(2, 0, 0))
	x1 := mk(3, 60, 0)
	x2 := mk(3, 60, uint8(vfChoice("rcount2", 2)))
	env.lock(1, x1)
	env.lock(1, x2)
	n0 := len(env.replies)
	vfAssert(n0 == 2 || (n0 == 3 && env.replies[2].reqId == x2.RequestId && env.replies[2].result != protocol.RESULT_SUCCED), "C02: harness: unexpected replies while both holders are present")
	env.unlock(0, env.newCmd(protocol.COMMAND_UNLOCK, key, vfLockId(1)))
	env.unlock(0, env.newCmd(protocol.COMMAND_UNLOCK, key, vfLockId(2)))
	granted := vfCountResult(env.replies, x1.RequestId, protocol.RESULT_SUCCED) + vfCountResult(env.replies, x2.RequestId, protocol.RESULT_SUCCED)
	vfAssert(granted >= 1, "C02: harness: no request of X was granted")
	if granted == 2 {
		vfReach("both-granted")
	}
	u := env.newCmd(protocol.COMMAND_UNLOCK, key, vfLockId(3))
	n := len(env.replies)
	env.unlock(1, u)
	vfAssert(len(env.replies) > n && env.replies[n].reqId == u.RequestId && env.replies[n].result == protocol.RESULT_SUCCED, "C02: the owner's unlock was refused")
	m := env.manager(key)
	left := 0
	if m != nil {
		left = len(vfHolders(m))
	}
	vfAssert(left == 0 && (m == nil || m.locked == 0), "C02: an unlock with Rcount 0 did not remove every level the LockId held (one LockId had been granted twice)")
	u2 := env.newCmd(protocol.COMMAND_UNLOCK, key, vfLockId(3))
	n = len(env.replies)
	env.unlock(1, u2)
	vfAssert(len(env.replies) == n+1 && (env.replies[n].result == protocol.RESULT_UNLOCK_ERROR || env.replies[n].result == protocol.RESULT_UNOWN_ERROR), "C02: an unlock by a LockId that holds nothing was not refused")
	vfReach("end")
}
