package server

import "github.com/snower/slock/protocol"

// C18_manyreconnects: a client that has reconnected many times.  N earlier connections (N = 3 / 5 / 6) under
// client id X each leave one queued request on a key of its own and close; a live connection L announces
// X and every one of the N grants is delivered to it (L adopts the earlier connections' proxies: more
// than the four a connection keeps across the server's 120 s session maintenance).  Optionally the
// maintenance runs.  Then L closes and L2 announces X.  The N holds expire: every EXPRIED notice is
// delivered exactly once to L2, the connection that now speaks for X — none is lost, none goes elsewhere.

func init() { vfHarnesses["C18_manyreconnects"] = vfH_C18_manyreconnects }

func vfCountNotices(buf []byte, reqId [16]byte, result uint8) int {
	n := 0
	for off := 0; off+64 <= len(buf); off += 64 {
		same := true
		for i := 0; i < 16; i++ {
			if buf[off+3+i] != reqId[i] {
				same = false
			}
		}
		if same && buf[off+19] == result {
			n++
		}
	}
	return n
}

func vfH_C18_manyreconnects() {
	env := vfNewEnv(1)
	vfSetDBTime(env.db, vfBaseTime)
	N := [3]int{3, 5, 6}[vfChoice("n", 3)]
	var cid [16]byte
	cid[0], cid[15] = 'X', 1
	var reqs [][16]byte
	for i := 0; i < N; i++ {
		k := vfKey(uint8(10 + i))
		h := env.newCmd(protocol.COMMAND_LOCK, k, vfLockId(uint8(100+i)))
		h.Expried, h.ExpriedFlag = 0xffff, 0x4200
		env.lock(0, h)
		p := NewBinaryServerProtocol(env.slock, NewStream(&vfConn{}))
		_ = p.ProcessCommad(protocol.NewInitCommand(cid))
		q := env.newCmd(protocol.COMMAND_LOCK, k, vfLockId(uint8(10+i)))
		q.Timeout, q.Expried, q.ExpriedFlag = 100, 20, 0x0200
		_ = p.ProcessCommad(q)
		reqs = append(reqs, q.RequestId)
		_ = p.Close()
	}
	connL, connL2 := &vfConn{}, &vfConn{}
	pl := NewBinaryServerProtocol(env.slock, NewStream(connL))
	_ = pl.ProcessCommad(protocol.NewInitCommand(cid))
	for i := 0; i < N; i++ {
		env.unlock(0, env.newCmd(protocol.COMMAND_UNLOCK, vfKey(uint8(10+i)), vfLockId(uint8(100+i))))
		vfAssert(vfCountNotices(connL.written, reqs[i], protocol.RESULT_SUCCED) == 1, "C18: a grant was not delivered to the connection that announced the same client id")
	}
	if vfChoice("maintenance", 2) == 1 {
		_ = env.slock.checkServerProtocolSession()
		vfReach("maintained")
	}
	_ = pl.Close()
	pl2 := NewBinaryServerProtocol(env.slock, NewStream(connL2))
	_ = pl2.ProcessCommad(protocol.NewInitCommand(cid))
	nL, nR := len(connL.written), len(env.replies)
	vfTick(env, 24)
	for i := 0; i < N; i++ {
		vfAssert(vfCountNotices(connL2.written, reqs[i], protocol.RESULT_EXPRIED) == 1, "C18: a reply addressed to a client that has reconnected was not delivered (exactly once) to the connection that now speaks for its client id")
	}
	vfAssert(len(connL.written) == nL, "C18: a reply was written to a closed connection")
	vfAssert(len(env.replies) == nR, "C18: a reply went to an unrelated client")
	vfReach("end")
}
