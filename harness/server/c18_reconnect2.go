package server

// C18_reconnect2: a client reconnects more than once.  Connection 1 (client id X) leaves two
// queued requests on two keys and closes; connection 2 announces X; the first grant is routed to
// it; connection 2 closes (or not) and connection 3 announces X (or not); the second grant must
// reach the connection that NOW speaks for X: connection 3 if it announced, else connection 2
// if still open, else it is dropped.

import (
	"github.com/snower/slock/protocol"
)

func init() { vfHarnesses["C18_reconnect2"] = vfH_C18_reconnect2 }

func vfGrantIn(buf []byte, reqId [16]byte) bool {
	for off := 0; off+64 <= len(buf); off += 64 {
		same := true
		for i := 0; i < 16; i++ {
			if buf[off+3+i] != reqId[i] {
				same = false
			}
		}
		if same && buf[off+19] == protocol.RESULT_SUCCED {
			return true
		}
	}
	return false
}

func vfH_C18_reconnect2() {
	env := vfNewEnv(1)
	conn1, conn2, conn3 := &vfConn{}, &vfConn{}, &vfConn{}
	p1 := NewBinaryServerProtocol(env.slock, NewStream(conn1))
	p2 := NewBinaryServerProtocol(env.slock, NewStream(conn2))
	p3 := NewBinaryServerProtocol(env.slock, NewStream(conn3))
	var cid [16]byte
	cid[0], cid[15] = 'X', 1
	_ = p1.ProcessCommad(protocol.NewInitCommand(cid))
	k1, k2 := vfKey(1), vfKey(2)
	for i, k := range [2][16]byte{k1, k2} {
		h := env.newCmd(protocol.COMMAND_LOCK, k, vfLockId(uint8(1+i)))
		h.Expried, h.ExpriedFlag = 0xffff, 0x4200
		env.lock(0, h)
	}
	q1 := env.newCmd(protocol.COMMAND_LOCK, k1, vfLockId(11))
	q1.Timeout, q1.Expried, q1.ExpriedFlag = 100, 0xffff, 0x4200
	_ = p1.ProcessCommad(q1)
	q2 := env.newCmd(protocol.COMMAND_LOCK, k2, vfLockId(12))
	q2.Timeout, q2.Expried, q2.ExpriedFlag = 100, 0xffff, 0x4200
	_ = p1.ProcessCommad(q2)
	_ = p1.Close()
	_ = p2.ProcessCommad(protocol.NewInitCommand(cid))
	n2 := len(conn2.written)
	env.unlock(0, env.newCmd(protocol.COMMAND_UNLOCK, k1, vfLockId(1)))
	vfAssert(vfGrantIn(conn2.written[n2:], q1.RequestId), "C18: the first grant was not delivered to the connection that announced the same client id")
	close2 := vfChoice("close2", 2) == 1
	init3 := vfChoice("init3", 2) == 1
	if close2 {
		_ = p2.Close()
	}
	if init3 {
		_ = p3.ProcessCommad(protocol.NewInitCommand(cid))
	}
	n2, n3 := len(conn2.written), len(conn3.written)
	env.unlock(0, env.newCmd(protocol.COMMAND_UNLOCK, k2, vfLockId(2)))
	vfAssert(len(vfHolders(env.manager(k2))) == 1, "C18: the second request left queued by the closed connection was not granted")
	at2, at3 := vfGrantIn(conn2.written[n2:], q2.RequestId), vfGrantIn(conn3.written[n3:], q2.RequestId)
	switch {
	case init3 && !close2:
		// two live connections speak for X: either may receive it, exactly once
		vfAssert(at2 != at3, "C18: with two live connections under the client id the reply was delivered to none or to both")
	case init3:
		vfAssert(at3 && !at2, "C18: after a second reconnect the reply was not delivered to the connection that now speaks for the client id")
		vfReach("third")
	case !close2:
		vfAssert(at2 && !at3, "C18: the reply was not delivered to the connection that announced the same client id")
	default:
		vfAssert(!at2 && !at3, "C18: a reply was delivered although no connection speaks for the client id")
		vfReach("dropped")
	}
	for _, r := range env.replies {
		vfAssert(r.reqId != q1.RequestId && r.reqId != q2.RequestId, "C18: the reply went to an unrelated client")
	}
	vfReach("end")
}
