package server

// C09_twowriters: two persistence channels (two shards) hand a record each to Aof.PushLock at the same
// time.  PushLock numbers and writes its record under aofGlock and publishes it to the replication ring
// under replGlock; the order of the ring is the order of the log only if nothing can slip in between the
// two critical sections.  The harness is the scheduler: right before the first writer acquires
// replGlock, a second writer tries to run its whole PushLock — which it can only do if the first writer
// no longer holds aofGlock (with the locks overlapping, the second writer waits at the door and runs
// afterwards).  Either way both records must come out of the ring in the order of their log positions,
// and the log files must hold them in that order too.  Executor only.

import (
	"io"

	"github.com/snower/slock/protocol"
)

func init() { vfHarnesses["C09_twowriters"] = vfH_C09_twowriters }

func vfH_C09_twowriters() {
	dir := vfFSDir()
	env := vfNewEnv(1)
	vfSetDBTime(env.db, vfBaseTime)
	vfOpenAof(env, dir)
	aof := env.slock.aof
	aof.isRewriting = true
	mk := func(n uint8) *AofLock {
		l := NewAofLock()
		l.CommandType = protocol.COMMAND_LOCK
		l.LockKey, l.LockId = vfKey(n), vfLockId(n)
		l.CommandTime, l.ExpriedFlag, l.ExpriedTime = uint64(vfBaseTime), 0x4100, 0xffff
		return l
	}
	first, second := mk(1), mk(2)
	slipped := false
	ran := false
	vfLockHook(aof.replGlock, func() {
		ran = true
		if vfMutexHeld(aof.aofGlock) {
			return // the second writer is still waiting for aofGlock: it runs after the first one has finished
		}
		slipped = true
		vfAssert(aof.PushLock(0, second) == nil, "C09: harness: the second writer failed")
	})
	vfAssert(aof.PushLock(0, first) == nil, "C09: harness: the first writer failed")
	vfAssert(ran, "C09: harness: PushLock never acquired replGlock")
	if !slipped {
		vfAssert(aof.PushLock(0, second) == nil, "C09: harness: the second writer failed")
		vfReach("serialised")
	} else {
		vfReach("slipped-in")
	}
	aof.Flush()
	vfDropSpawned()
	ring := env.slock.replicationManager.bufferQueue
	cur := NewReplicationBufferQueueCursor(make([]byte, 64))
	var offs []uint32
	for guard := 0; guard < 8; guard++ {
		perr := ring.Pop(cur)
		if perr == io.EOF {
			break
		}
		vfAssert(perr == nil, "C09: the ring reported a gap to a follower that reads from its start")
		rec := NewAofLock()
		copy(rec.buf, cur.buf)
		vfAssert(rec.Decode() == nil, "C09: harness: a ring record does not decode")
		offs = append(offs, rec.AofOffset)
	}
	vfAssert(len(offs) == 2, "C09: the ring does not hold both records")
	vfAssert(offs[0] < offs[1], "C09: two writers: the ring hands the records to followers in another order than their log positions")
	var fileOffs []uint32
	lerr, _ := aof.LoadAofFiles([]string{"append.aof.1"}, 0, func(filename string, aofFile *AofFile, lock *AofLock, firstLock bool) (bool, error) {
		fileOffs = append(fileOffs, lock.AofOffset)
		return true, nil
	})
	vfAssert(lerr == nil && len(fileOffs) == 2 && fileOffs[0] < fileOffs[1], "C09: two writers: the log file does not hold the records in the order of their positions")
	vfReach("end")
}
