package server

// C18_willopts: how a text command becomes a will.  LOCK / UNLOCK on a text connection followed by
// every sequence of 1..3 options out of {WILL 1, EXPRIED 100, TIMEOUT 0} (so WILL first, last, in the
// middle, and more than once).  Whenever WILL is among them the command must not be executed before the
// connection ends: it is either registered (+OK) and then runs exactly once at Close, or refused with an
// error and never runs.

func init() { vfHarnesses["C18_willopts"] = vfH_C18_willopts }

func vfH_C18_willopts() {
	env := vfNewEnv(1)
	vfSetDBTime(env.db, vfBaseTime)
	tp, conn := vfNewText(env)
	k1, k9 := string(vfKeyBytes(1)), string(vfKeyBytes(9))
	id9 := string(vfIdBytes(9))
	_ = vfTextRun(tp, []string{"LOCK", k9, "LOCK_ID", id9, "EXPRIED", "100", "TIMEOUT", "0"})
	vfAssert(vfHeldBy(env, vfKey(9), vfLockId(9)) == 1, "C18: harness: the text connection's hold was not taken")
	unlock := vfChoice("unlock", 2) == 1
	var args []string
	if unlock {
		args = []string{"UNLOCK", k9, "LOCK_ID", id9}
	} else {
		args = []string{"LOCK", k1, "LOCK_ID", string(vfIdBytes(50))}
	}
	n := 1 + vfChoice("nopts", 3)
	wills := 0
	for i := 0; i < n; i++ {
		switch vfChoice(vfName("opt", i), 3) {
		case 0:
			args = append(args, "WILL", "1")
			wills++
		case 1:
			args = append(args, "EXPRIED", "100")
		case 2:
			args = append(args, "TIMEOUT", "0")
		}
	}
	if wills == 0 {
		return
	}
	o0 := len(conn.out)
	_ = vfTextRun(tp, args)
	reply := string(conn.out[o0:])
	vfAssert(len(reply) > 0, "C18: a will registration was not answered")
	executed := func() bool {
		if unlock {
			return vfHeldBy(env, vfKey(9), vfLockId(9)) == 0
		}
		return env.manager(vfKey(1)) != nil && len(vfHolders(env.manager(vfKey(1)))) > 0
	}
	vfAssert(!executed(), "C18: a command carrying the WILL option was executed before the connection ended")
	registered := reply[0] == '+'
	_ = tp.Close()
	if registered {
		vfReach("registered")
		vfAssert(executed(), "C18: a registered will did not run when the connection ended")
		if !unlock {
			hs := vfHolders(env.manager(vfKey(1)))
			vfAssert(len(hs) == 1 && hs[0].locked == 1, "C18: a registered will ran more than once")
		}
	} else {
		vfReach("refused")
		vfAssert(!executed(), "C18: a will that was refused ran when the connection ended")
	}
	vfReach("end")
}
