package server

// C05 / C06: wait timeouts and hold expiries against the server clock.
//
// Server time is the integer LockDB.currentTime; a request that arrives at real
// time t in [s, s+1) sees currentTime == s.  The harnesses drive the clock
// second by second through the REAL sweep bodies (vfTick) and assert that the
// TIMEOUT / EXPRIED reply is produced exactly at the tick currentTime == s+T+1
// (resp. s+E+1): never before T has fully elapsed, never later than T+2 s.
// *_deadline harnesses prove the deadline formula for every 16-bit T / E and
// every unit flag symbolically.

import (
	"github.com/snower/slock/protocol"
)

func init() {
	vfHarnesses["C05_deadline"] = vfH_C05_deadline
	vfHarnesses["C05_sim"] = vfH_C05_sim
	vfHarnesses["C06_deadline"] = vfH_C06_deadline
	vfHarnesses["C06_sim"] = vfH_C06_sim
	vfHarnesses["C05_sim64"] = vfH_C05_sim64
	vfHarnesses["C06_sim64"] = vfH_C06_sim64
	vfHarnesses["C06_update"] = vfH_C06_update
}

func vfCountResult(rs []vfReply, reqId [16]byte, result uint8) int {
	n := 0
	for _, r := range rs {
		if r.reqId == reqId && r.result == result {
			n++
		}
	}
	return n
}

func vfTakeHold(env *vfEnv, key [16]byte, id uint8, count uint16, expried uint16, eflag uint16) *protocol.LockCommand {
	c := env.newCmd(protocol.COMMAND_LOCK, key, vfLockId(id))
	c.Count, c.Expried, c.ExpriedFlag = count, expried, eflag|0x0200
	env.lock(0, c)
	return c
}

// C05_deadline: for every T and every unit flag the queued request's deadline is
// s + T*unit + 1; T = 0 is answered TIMEOUT at once and leaves nothing queued.
func vfH_C05_deadline() {
	env := vfNewEnv(2)
	key := vfKey(1)
	vfTakeHold(env, key, 1, 0, 0xffff, 0x4000)
	s := env.db.currentTime
	c := env.newCmd(protocol.COMMAND_LOCK, key, vfLockId(2))
	c.Timeout = vfU16("T")
	c.TimeoutFlag = vfU16("tflag") & 0x0040
	c.Expried, c.ExpriedFlag = 3, 0x0200
	state := env.db.states[0]
	waitBefore := state.WaitCount
	n := len(env.replies)
	env.lock(1, c)
	m := env.manager(key)
	ws := vfLiveWaiters(m)
	if c.Timeout == 0 {
		vfReach("zero")
		vfAssert(len(env.replies) == n+1 && env.replies[n].result == protocol.RESULT_TIMEOUT, "C05: a request with timeout 0 that cannot be granted is not answered TIMEOUT at once")
		vfAssert(len(ws) == 0 && state.WaitCount == waitBefore, "C05: a request with timeout 0 left something queued")
		return
	}
	vfAssert(len(env.replies) == n, "C05: a request with a timeout was answered instead of queued")
	vfAssert(len(ws) == 1, "C05: request not queued")
	w := ws[0]
	unit := int64(1)
	if c.TimeoutFlag&0x0040 != 0 {
		unit = 60
	}
	vfAssert(w.timeoutTime == s+int64(c.Timeout)*unit+1, "C05: deadline of a queued request is not arrival + T + 1 in server time")
	// it sits in exactly one timeout structure, examined no later than its deadline
	vfAssert(w.refCount == 2, "C05: queued request not referenced by exactly the wait queue and one timeout structure")
	vfReach("end")
}

// C05_sim: T in 0..12 s; tick by tick.  Variants: nothing else happens / the
// holder unlocks at a chosen tick (the waiter is granted and must never get
// TIMEOUT afterwards) / the holder unlocks after the timeout (the request must
// not be granted any more).
// vfSimMax: largest T / E of the tick-by-tick simulations (12 in the quick tier, 64 in *_sim64:
// through all re-check rounds of the second wheel and into the long table).
var vfSimMax = 12

func vfH_C05_sim()   { vfSimMax = 12; vfC05Sim() }
func vfH_C05_sim64() { vfSimMax = 64; vfC05Sim() }

func vfC05Sim() {
	env := vfNewEnv(2)
	key := vfKey(1)
	vfTakeHold(env, key, 1, 0, 0xffff, 0x4000)
	T := vfRange("T", 1, vfSimMax)
	c := env.newCmd(protocol.COMMAND_LOCK, key, vfLockId(2))
	c.Timeout = uint16(T)
	c.Expried, c.ExpriedFlag = 0xffff, 0x4200
	req := c.RequestId
	env.lock(1, c)
	// a second waiter with a different timeout queues behind it, so that slots hold more than one entry
	c2 := env.newCmd(protocol.COMMAND_LOCK, key, vfLockId(3))
	c2.Timeout = uint16(vfRange("T2", 1, 3))
	c2.Expried, c2.ExpriedFlag = 0xffff, 0x4200
	env.lock(1, c2)
	variant := vfChoice("variant", 3)
	unlockAt := 0
	if variant == 1 {
		unlockAt = vfRange("unlockAt", 1, T) // strictly before the deadline tick T+1
	}
	granted := false
	for tick := 1; tick <= T+3; tick++ {
		if variant == 1 && tick == unlockAt {
			u := env.newCmd(protocol.COMMAND_UNLOCK, key, vfLockId(1))
			env.unlock(0, u)
			granted = vfCountResult(env.replies, req, protocol.RESULT_SUCCED) == 1
			vfAssert(granted, "C05: the queued request was not granted when the key became free before its timeout")
			vfReach("granted-before-timeout")
		}
		vfTick(env, 1)
		nto := vfCountResult(env.replies, req, protocol.RESULT_TIMEOUT)
		if granted {
			vfAssert(nto == 0, "C05: a request that was granted still got TIMEOUT")
		} else if tick <= T {
			vfAssert(nto == 0, "C05: TIMEOUT before the timeout T has elapsed")
		} else {
			vfAssert(nto == 1, "C05: no TIMEOUT within T+2 seconds (or more than one)")
		}
	}
	if variant == 2 {
		u := env.newCmd(protocol.COMMAND_UNLOCK, key, vfLockId(1))
		env.unlock(0, u)
		vfAssert(vfCountResult(env.replies, req, protocol.RESULT_SUCCED) == 0, "C05: a request was granted after it had been answered TIMEOUT")
		vfReach("not-granted-after-timeout")
	}
	state := env.db.states[0]
	vfAssert(state.WaitCount == 0, "C05: WaitCount not zero after every queued request ended")
	vfReach("end")
}

// C06_deadline: expiry deadline formula for every E and unit flag.
func vfH_C06_deadline() {
	env := vfNewEnv(1)
	key := vfKey(1)
	s := env.db.currentTime
	c := env.newCmd(protocol.COMMAND_LOCK, key, vfLockId(1))
	c.Expried = vfU16("E")
	c.ExpriedFlag = (vfU16("eflag") & 0x4040) | 0x0200
	vfAssume(c.Expried != 0)
	env.lock(0, c)
	m := env.manager(key)
	hs := vfHolders(m)
	vfAssert(len(hs) == 1, "C06: lock not granted on a free key")
	h := hs[0]
	if c.ExpriedFlag&0x4000 != 0 {
		vfReach("unlimited")
		vfAssert(h.expriedTime == 0x7fffffffffffffff, "C06: a hold with the unlimited-expiry flag has a finite deadline")
		return
	}
	unit := int64(1)
	if c.ExpriedFlag&0x0040 != 0 {
		unit = 60
	}
	vfAssert(h.expriedTime == s+int64(c.Expried)*unit+1, "C06: deadline of a hold is not grant time + E + 1 in server time")
	vfAssert(h.refCount == 2, "C06: hold not referenced by exactly the holder list and one expiry structure")
	vfReach("end")
}

// C06_sim: E in 1..12; the hold ends exactly at tick E+1 with one EXPRIED to the
// holder, its capacity is freed and the queued request is served; a re-lock at a
// chosen tick restarts the period; an unlimited hold never ends.
func vfH_C06_sim()   { vfSimMax = 12; vfC06Sim() }
func vfH_C06_sim64() { vfSimMax = 64; vfC06Sim() }

func vfC06Sim() {
	env := vfNewEnv(2)
	key := vfKey(1)
	E := vfRange("E", 1, vfSimMax)
	variant := vfChoice("variant", 3) // 0 plain, 1 re-lock restarts, 2 unlimited
	c := env.newCmd(protocol.COMMAND_LOCK, key, vfLockId(1))
	c.Count, c.Rcount, c.Expried, c.ExpriedFlag = 0, 5, uint16(E), 0x0200
	if variant == 2 {
		c.ExpriedFlag |= 0x4000
	}
	req := c.RequestId
	env.lock(0, c)
	// a queued request that can only be served when the hold ends
	w := env.newCmd(protocol.COMMAND_LOCK, key, vfLockId(2))
	w.Timeout, w.Expried, w.ExpriedFlag = 100, 0xffff, 0x4200
	wreq := w.RequestId
	env.lock(1, w)
	relockAt := 0
	if variant == 1 {
		relockAt = vfRange("relockAt", 1, E)
	}
	deadline := E + 1
	for tick := 1; tick <= E+15; tick++ {
		if variant == 1 && tick == relockAt {
			r := env.newCmd(protocol.COMMAND_LOCK, key, vfLockId(1))
			r.Count, r.Rcount, r.Expried, r.ExpriedFlag = 0, 5, uint16(E), 0x0200
			n := len(env.replies)
			env.lock(0, r)
			vfAssert(len(env.replies) == n+1 && env.replies[n].result == protocol.RESULT_SUCCED, "C06: re-entrant re-lock refused")
			req = r.RequestId
			deadline = (tick - 1) + E + 1 // re-locked when currentTime == s + tick - 1
			vfReach("relocked")
		}
		vfTick(env, 1)
		nex := vfCountResult(env.replies, req, protocol.RESULT_EXPRIED)
		if variant == 2 {
			vfAssert(nex == 0, "C06: a hold with the unlimited-expiry flag was ended by time")
			continue
		}
		if tick < deadline {
			vfAssert(nex == 0, "C06: hold ended before E has elapsed since grant / last re-lock")
			vfAssert(vfCountResult(env.replies, wreq, protocol.RESULT_SUCCED) == 0, "C06: queued request served before the hold ended")
		} else {
			vfAssert(nex == 1, "C06: hold not ended within E+2 seconds (or EXPRIED sent more than once)")
			vfAssert(vfCountResult(env.replies, wreq, protocol.RESULT_SUCCED) == 1, "C06: queued request not served when the hold expired")
		}
	}
	vfReach("end")
}

// C06_update: an update (lock flag 0x02 by the holder) with new expiry E2 either
// restarts the period from now (deadline = now + E2*unit + 1) or is ignored, and
// it may be ignored only if it would move the deadline by at most one unit.
func vfH_C06_update() {
	env := vfNewEnv(1)
	key := vfKey(1)
	c := env.newCmd(protocol.COMMAND_LOCK, key, vfLockId(1))
	c.Expried = vfU16("E1")
	c.ExpriedFlag = (vfU16("eflag1") & 0x0040) | 0x0200
	vfAssume(c.Expried != 0)
	env.lock(0, c)
	m := env.manager(key)
	h := vfHolders(m)[0]
	// some time passes (the clock only; no sweep is due within the first second)
	env.db.currentTime += int64(vfU8("dt") & 0x01)
	old := h.expriedTime
	now := env.db.currentTime
	u := env.newCmd(protocol.COMMAND_LOCK, key, vfLockId(1))
	u.Flag = 0x02
	u.Count, u.Rcount = c.Count, c.Rcount
	u.Expried = vfU16("E2")
	u.ExpriedFlag = (vfU16("eflag2") & 0x0040) | 0x0200
	vfAssume(u.Expried != 0)
	env.lock(0, u)
	unit := int64(1)
	if u.ExpriedFlag&0x0040 != 0 {
		unit = 60
	}
	want := now + int64(u.Expried)*unit + 1
	hs := vfHolders(env.manager(key))
	vfAssert(len(hs) == 1 && hs[0] == h, "C06: an update ended or replaced the hold")
	if h.expriedTime == want {
		vfReach("restarted")
	} else {
		vfReach("ignored")
		vfAssert(h.expriedTime == old, "C06: an update left a deadline that is neither the old one nor now + E + 1")
		d := want - old
		if d < 0 {
			d = -d
		}
		vfAssert(d <= unit, "C06: an update that moves the deadline by more than one unit was ignored")
	}
	vfReach("end")
}
