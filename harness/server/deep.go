package server

// Deeper scenario harnesses added after seeded changes showed what the one-step
// shapes cannot reach: wait queues beyond the inline representation, the
// long-wait tables (waits / expiries that outlive the 16-slot wheels), log
// histories with releases, and reconnects under the same client id.

import (
	"github.com/snower/slock/protocol"
)

func init() {
	vfHarnesses["C04_bigqueue"] = vfH_C04_bigqueue
	vfHarnesses["C05_long"] = vfH_C05_long
	vfHarnesses["C06_long"] = vfH_C06_long
	vfHarnesses["C18_reconnect"] = vfH_C18_reconnect
}

// C04_bigqueue: N waiters of one priority (N crosses the inline -> ring migration of the
// per-key wait queue at 144 entries), then one waiter of a different priority (queue switches to
// the priority ring), then holds end one after another: every queued request must be granted, in
// the order priority first, then arrival.
func vfH_C04_bigqueue() {
	env := vfNewEnv(2)
	key := vfKey(1)
	N := [4]int{3, 140, 150, 260}[vfChoice("n", 4)]
	h := env.newCmd(protocol.COMMAND_LOCK, key, vfLockId(0))
	h.Expried, h.ExpriedFlag = 0xffff, 0x4200
	env.lock(0, h)
	mkid := func(i int) [16]byte {
		var id [16]byte
		id[0], id[1], id[2] = 'w', byte(i), byte(i>>8)
		return id
	}
	var reqs [][16]byte
	for i := 0; i < N; i++ {
		c := env.newCmd(protocol.COMMAND_LOCK, key, mkid(i))
		c.RequestId[8], c.RequestId[9] = byte(i), byte(i>>8)
		c.Timeout, c.Expried, c.ExpriedFlag = 1000, 0xffff, 0x4200
		env.lock(1, c)
		reqs = append(reqs, c.RequestId)
	}
	prio := vfChoice("withPriority", 2) == 1
	var preq [16]byte
	if prio {
		c := env.newCmd(protocol.COMMAND_LOCK, key, mkid(9999))
		c.RequestId[8], c.RequestId[9] = 0xff, 0xff
		c.Timeout, c.TimeoutFlag, c.Rcount, c.Expried, c.ExpriedFlag = 1000, 0x0010, 5, 0xffff, 0x4200
		env.lock(1, c)
		preq = c.RequestId
	}
	vfAssert(len(env.replies) == 1, "C04: a request behind an exclusive holder was answered instead of queued")
	// release holder after holder; each release must grant exactly the next request in service order
	cur := vfLockId(0)
	expect := 0
	total := N
	if prio {
		total++
	}
	for k := 0; k < total; k++ {
		n := len(env.replies)
		u := env.newCmd(protocol.COMMAND_UNLOCK, key, cur)
		env.unlock(0, u)
		var granted [][16]byte
		var grantedIds [][16]byte
		for _, r := range env.replies[n:] {
			if r.result == protocol.RESULT_SUCCED && r.ctype == protocol.COMMAND_LOCK {
				granted = append(granted, r.reqId)
				grantedIds = append(grantedIds, r.lockId)
			}
		}
		vfAssert(len(granted) == 1, "C04: a hold ended with requests queued but not exactly one was granted (lost wake-up)")
		if len(granted) != 1 {
			return
		}
		if prio && k == 0 {
			vfAssert(granted[0] == preq, "C04: the higher-priority request was not served first")
		} else {
			vfAssert(granted[0] == reqs[expect], "C04: queued requests of equal priority were not served in arrival order")
			expect++
		}
		cur = grantedIds[0]
	}
	m := env.manager(key)
	vfAssert(len(vfLiveWaiters(m)) == 0 && env.db.states[0].WaitCount == 0, "C04: requests are still queued after every one of them should have been granted")
	vfReach("end")
}

// C05_long: waits long enough to migrate to the long-wait table (after 8 re-checks with growing
// intervals, about 44 s) and long-wait bucket queues recycled between waiters.  Three successive
// waiters W1, W2, W3 with T = 100 s; W1 and W2 leave before their deadlines (cancelled or
// granted, at a tick chosen by fork after they reached the long table); every TIMEOUT must
// come exactly at its own deadline tick.
func vfH_C05_long() {
	env := vfNewEnv(2)
	vfSetDBTime(env.db, vfBaseTime)
	key := vfKey(1)
	h := env.newCmd(protocol.COMMAND_LOCK, key, vfLockId(0))
	h.Expried, h.ExpriedFlag, h.Count = 0xffff, 0x4200, 0
	env.lock(0, h)
	now := 0
	type wt struct {
		req      [16]byte
		queuedAt int
		gone     bool
	}
	var ws []wt
	queue := func(i int) {
		c := env.newCmd(protocol.COMMAND_LOCK, key, vfLockId(uint8(10+i)))
		c.Timeout, c.Expried, c.ExpriedFlag, c.Count = 100, 0xffff, 0x4200, 0
		env.lock(1, c)
		ws = append(ws, wt{c.RequestId, now, false})
	}
	check := func() {
		for i := range ws {
			nto := vfCountResult(env.replies, ws[i].req, protocol.RESULT_TIMEOUT)
			if ws[i].gone {
				vfAssert(nto == 0, "C05: a request that was cancelled got TIMEOUT")
			} else if now <= ws[i].queuedAt+100 {
				vfAssert(nto == 0, "C05: TIMEOUT before the timeout T has elapsed (long-wait table)")
			} else {
				vfAssert(nto == 1, "C05: no TIMEOUT within T+2 seconds (long-wait table)")
			}
		}
	}
	advance := func(to int) {
		for now < to {
			vfTick(env, 1)
			now++
			check()
		}
	}
	cancel := func(i int) {
		u := env.newCmd(protocol.COMMAND_UNLOCK, key, vfLockId(uint8(10+i)))
		u.Flag = protocol.UNLOCK_FLAG_CANCEL_WAIT_LOCK_WHEN_UNLOCKED
		env.unlock(1, u)
		ws[i].gone = true
	}
	queue(0)
	t1 := 45 + vfChoice("leave1", 3)
	advance(t1)
	cancel(0)
	queue(1)
	t2 := now + 45 + vfChoice("leave2", 2)
	advance(t2)
	cancel(1)
	queue(2)
	advance(now + 103)
	vfAssert(env.db.states[0].WaitCount == 0, "C05: WaitCount not zero after every queued request ended")
	vfReach("end")
}

// C06_long: a hold that sits in the long-expiry table (zero-aof-time flag with E > 5 s puts it
// there at once) is updated to a longer or shorter expiry; it must end at the new deadline.
func vfH_C06_long() {
	env := vfNewEnv(2)
	vfSetDBTime(env.db, vfBaseTime)
	key := vfKey(1)
	E1 := 6 + vfChoice("e1", 3)
	c := env.newCmd(protocol.COMMAND_LOCK, key, vfLockId(1))
	c.Expried, c.ExpriedFlag, c.Count = uint16(E1), 0x0100, 0
	req := c.RequestId
	env.lock(0, c)
	m := env.manager(key)
	vfAssert(len(vfHolders(m)) == 1 && vfHolders(m)[0].longWaitIndex > 0, "C06: harness: the hold is not in the long-expiry table")
	w := env.newCmd(protocol.COMMAND_LOCK, key, vfLockId(2))
	w.Timeout, w.Expried, w.ExpriedFlag = 200, 0xffff, 0x4200
	env.lock(1, w)
	now := 0
	deadline := E1 + 1
	upAt := 1 + vfChoice("updateAt", 3)
	E2 := [3]int{20, 30, 4}[vfChoice("e2", 3)]
	for now < 45 {
		if now == upAt {
			u := env.newCmd(protocol.COMMAND_LOCK, key, vfLockId(1))
			u.Flag, u.Expried, u.ExpriedFlag, u.Count = 0x02, uint16(E2), 0x0100, 0
			env.lock(0, u)
			if vfHolders(env.manager(key))[0].command.RequestId == u.RequestId {
				req = u.RequestId
				deadline = now + E2 + 1
				vfReach("updated")
			}
		}
		vfTick(env, 1)
		now++
		nex := vfCountResult(env.replies, req, protocol.RESULT_EXPRIED)
		if now < deadline {
			vfAssert(nex == 0, "C06: a hold in the long-expiry table ended before its (updated) deadline")
			vfAssert(vfCountResult(env.replies, w.RequestId, protocol.RESULT_SUCCED) == 0, "C06: the queued request was served before the hold ended")
		} else if now >= deadline+10 {
			vfAssert(nex == 1, "C06: a hold in the long-expiry table did not end within 10 s of its (updated) deadline")
		}
	}
	vfReach("end")
}

// C18_reconnect: a client announces its id (INIT), leaves a queued request, reconnects under the
// same id while the old connection still exists, then the old connection closes; the grant that
// comes later must be delivered to the reconnected connection (and only there).
func vfH_C18_reconnect() {
	env := vfNewEnv(1)
	connA, connB := &vfConn{}, &vfConn{}
	a := NewBinaryServerProtocol(env.slock, NewStream(connA))
	b := NewBinaryServerProtocol(env.slock, NewStream(connB))
	var cid [16]byte
	cid[0], cid[15] = 'X', 1
	initA := protocol.NewInitCommand(cid)
	_ = a.ProcessCommad(initA)
	key := vfKey(1)
	h := env.newCmd(protocol.COMMAND_LOCK, key, vfLockId(1))
	h.Expried, h.ExpriedFlag = 0xffff, 0x4200
	env.lock(0, h)
	q := env.newCmd(protocol.COMMAND_LOCK, key, vfLockId(2))
	q.Timeout, q.Expried, q.ExpriedFlag = 100, 0xffff, 0x4200
	_ = a.ProcessCommad(q)
	order := vfChoice("order", 2)
	if order == 0 {
		_ = b.ProcessCommad(protocol.NewInitCommand(cid)) // reconnect before the old connection is closed
		_ = a.Close()
	} else {
		_ = a.Close()
		_ = b.ProcessCommad(protocol.NewInitCommand(cid))
	}
	nb := len(connB.written)
	u := env.newCmd(protocol.COMMAND_UNLOCK, key, vfLockId(1))
	env.unlock(0, u)
	got := connB.written[nb:]
	vfAssert(len(vfHolders(env.manager(key))) == 1, "C18: the request left queued by the closed connection was not granted")
	vfAssert(len(got) >= 64, "C18: the reply for a closed client was not delivered to the connection that announced the same client id")
	if len(got) >= 64 {
		same := true
		for i := 0; i < 16; i++ {
			if got[3+i] != q.RequestId[i] {
				same = false
			}
		}
		vfAssert(same && got[19] == protocol.RESULT_SUCCED, "C18: the reconnected connection received something else than the grant of the queued request")
	}
	for _, r := range env.replies {
		vfAssert(r.reqId != q.RequestId, "C18: the reply went to an unrelated client")
	}
	vfReach("end")
}
