package server

// C20_longwait2: the bucket queue of the long-wait / long-expiry tables at the server's own geometry
// (4 base nodes, 64 node slots, first node 256 entries) and under the server's own maintenance trigger:
// entries leave through the real LockDB.RemoveLongTimeOut / RemoveLongExpried, which restructure the
// bucket when a third of it (at least 256 entries, or all of it) has become holes.  Every program of 4
// (C20_longwait2x: 5) steps out of {300 new entries, 900 new entries, the older 40 % of the live entries leave one by one,
// the newer 40 % leave, all but the newest 2 leave}; then the rest is popped as the sweep does, the bucket
// is Reset (returned to the free list) and used again for 2000 entries.  At every step the queue holds the
// model's entries in order.

func init() {
	vfHarnesses["C20_longwait2"] = vfH_C20_longwait2
	vfHarnesses["C20_longwait2x"] = vfH_C20_longwait2x
}

func vfH_C20_longwait2()  { vfLongwait2(4) }
func vfH_C20_longwait2x() { vfLongwait2(5) }

func vfLongwait2(steps int) {
	env := vfNewEnv(0)
	expiry := vfChoice("table", 2) == 1
	t := vfBaseTime + 100
	q := NewLongWaitLockQueue(4, 64, LONG_LOCKS_QUEUE_INIT_SIZE, 0, t)
	if expiry {
		env.db.longExpriedLocks[0][t] = q
	} else {
		env.db.longTimeoutLocks[0][t] = q
	}
	mgr := &LockManager{glockIndex: 0}
	var model []*Lock
	push := func(n int) {
		for i := 0; i < n; i++ {
			l := &Lock{manager: mgr, refCount: 100, timeoutTime: t}
			vfAssert(q.Push(l) == nil, "long-wait queue: Push failed")
			model = append(model, l)
		}
	}
	removeAt := func(i int) {
		l := model[i]
		model = append(model[:i], model[i+1:]...)
		if expiry {
			env.db.RemoveLongExpried(l, t)
		} else {
			env.db.RemoveLongTimeOut(l)
		}
		if q.lockCount < 0 {
			// emptied: the restructuring gave the bucket back to the free list (Reset has run); take it into use again
			q.lockCount, q.freeCount = 0, 0
			if expiry {
				env.db.longExpriedLocks[0][t] = q
			} else {
				env.db.longTimeoutLocks[0][t] = q
			}
		}
	}
	for step := 0; step < steps; step++ {
		switch vfChoice(vfName("op", step), 5) {
		case 0:
			push(300)
		case 1:
			push(900)
		case 2:
			for n := len(model) * 2 / 5; n > 0; n-- {
				removeAt(0)
			}
		case 3:
			for n := len(model) * 2 / 5; n > 0; n-- {
				removeAt(len(model) - 1)
			}
		case 4:
			for len(model) > 2 {
				removeAt(0)
			}
		}
		vfAssert(int(q.lockCount-q.freeCount) == len(model), "long-wait queue: live count disagrees with the model")
	}
	for len(model) > 0 {
		l := q.Pop()
		for l == nil && q.Len() > 0 {
			l = q.Pop()
		}
		vfAssert(l == model[0], "long-wait queue: Pop returned the wrong entry")
		model = model[1:]
	}
	vfAssert(q.locks.Reset() == nil, "long-wait queue: Reset failed")
	q.lockCount, q.freeCount = 0, 0
	push(2000)
	for len(model) > 0 {
		l := q.Pop()
		vfAssert(l == model[0], "long-wait queue: Pop after reuse returned the wrong entry")
		model = model[1:]
	}
	vfReach("end")
}
