package protocol

// C14_chunks: the text parser yields the same argument list however the byte
// stream is split into reads, and parses its own BuildRequest / BuildResponse
// output back to the original arguments.  Argument bytes are symbolic; argument
// lengths and the cut offsets are chosen by forks, so every chunking of every
// stream of the bounded shape is covered.

func init() {
	vfHarnesses["C14_chunks_req"] = vfH_C14_chunks_req
	vfHarnesses["C14_chunks_resp"] = vfH_C14_chunks_resp
}

func vfName(s string, i int) string {
	return s + string(rune('0'+i/10)) + string(rune('0'+i%10))
}

// vfFeed hands one read's worth of bytes to the parser exactly as
// TextServerProtocol.Process / client Read do: copy into the read buffer,
// BufferUpdate(n), then parse until the buffer is consumed or the parse finishes.
func vfFeed(p *TextParser, chunk []byte, request bool) (finished bool) {
	if len(chunk) == 0 {
		return p.IsParseFinish() && len(p.GetArgs()) > 0
	}
	copy(p.GetReadBuf(), chunk)
	p.BufferUpdate(len(chunk))
	for guard := 0; guard < 8; guard++ {
		var err error
		if request {
			err = p.ParseRequest()
		} else {
			err = p.ParseResponse()
		}
		vfAssert(err == nil, "C14: parser rejected its own well-formed stream")
		if p.IsParseFinish() {
			return true
		}
		if p.IsBufferEnd() {
			return false
		}
	}
	vfFail("C14: parser does not consume its buffer")
	return false
}

func vfH_C14_chunks_req() {
	nargs := vfRange("nargs", 1, 2)
	args := make([]string, nargs)
	for i := range args {
		l := vfRange(vfName("len", i), 0, 3)
		args[i] = vfString(vfName("arg", i), l)
	}
	p := NewTextParser(make([]byte, 64), make([]byte, 64))
	stream := p.BuildRequest(args)
	n := len(stream)
	c1 := vfRange("cut1", 0, n)
	c2 := vfRange("cut2", c1, n)
	fin := vfFeed(p, stream[:c1], true)
	vfAssert(!fin || c1 == n, "C14: parse finished before the last byte of the command")
	if !fin {
		fin = vfFeed(p, stream[c1:c2], true)
		vfAssert(!fin || c2 == n, "C14: parse finished before the last byte of the command")
	}
	if !fin {
		fin = vfFeed(p, stream[c2:], true)
	}
	vfAssert(fin, "C14: parse did not finish at the last byte of the command")
	vfAssert(p.IsBufferEnd(), "C14: bytes left over after the command")
	got := p.GetArgs()
	vfAssert(len(got) == len(args), "C14: parsed argument count differs")
	for i := range args {
		vfAssert(got[i] == args[i], "C14: parsed argument differs from the original")
	}
	vfReach("end")
}

func vfH_C14_chunks_resp() {
	form := vfChoice("form", 4) // 0 status, 1 error, 2 bulk, 3 array
	p := NewTextParser(make([]byte, 64), make([]byte, 64))
	var stream []byte
	var results []string
	msg := ""
	switch form {
	case 0:
		// a status line of 1..3 symbolic bytes: anything a RESP simple string may hold (no CR, no LF)
		msg = vfString("msg", vfRange("msglen", 1, 3))
		for i := 0; i < len(msg); i++ {
			vfAssume(msg[i] != '\n' && msg[i] != '\r')
		}
		stream = p.BuildResponse(true, msg, nil)
	case 1:
		stream = p.BuildResponse(false, "ERR bad", nil)
	case 2:
		results = []string{vfString("r0", vfRange("len0", 0, 3))}
		stream = p.BuildResponse(true, "", results)
	case 3:
		results = []string{vfString("r0", vfRange("len0", 0, 2)), vfString("r1", vfRange("len1", 0, 2))}
		stream = p.BuildResponse(true, "", results)
	}
	n := len(stream)
	c1 := vfRange("cut1", 0, n)
	c2 := vfRange("cut2", c1, n)
	fin := vfFeed(p, stream[:c1], false)
	if !fin {
		fin = vfFeed(p, stream[c1:c2], false)
	}
	if !fin {
		fin = vfFeed(p, stream[c2:], false)
	}
	vfAssert(fin, "C14: response parse did not finish at the last byte")
	vfAssert(p.IsBufferEnd(), "C14: bytes left over after the response")
	got := p.GetArgs()
	switch form {
	case 0:
		// the same stream in one piece, by a second parser
		p2 := NewTextParser(make([]byte, 64), make([]byte, 64))
		whole := vfFeed(p2, stream, false)
		vfAssert(whole && p2.GetArgsType() == 1 && len(p2.GetArgs()) == 1, "C14: a status reply built by BuildResponse does not parse in one piece")
		vfAssert(p.GetArgsType() == 1 && len(got) == 1 && got[0] == p2.GetArgs()[0], "C14: a status reply parses differently depending on how the stream is split")
		hasCR := false
		for i := 0; i < len(msg); i++ {
			if msg[i] == '\r' {
				hasCR = true
			}
		}
		if !hasCR {
			vfAssert(got[0] == msg, "C14: status reply parsed differently from what was built")
		}
	case 1:
		vfAssert(p.GetArgsType() == 2 && p.GetErrorType() == "ERR" && p.GetErrorMessage() == "bad", "C14: error reply parsed differently")
	default:
		vfAssert(len(got) == len(results), "C14: parsed result count differs")
		for i := range results {
			vfAssert(got[i] == results[i], "C14: parsed result differs from the original")
		}
	}
	vfReach("end")
}
