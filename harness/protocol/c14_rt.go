package protocol

// C14_rt: decode-then-encode reproduces every defined byte of an arbitrary
// 64-byte buffer, and encode-then-decode returns the same field values.

func init() {
	vfHarnesses["C14_rt_lock"] = vfH_C14_rt_lock
}

func vfH_C14_rt_lock() {
	buf := vfBytes("buf", 64)
	cmd := &LockCommand{}
	err := cmd.Decode(buf)
	vfAssert(err == nil, "LockCommand.Decode of 64 bytes returned an error")
	out := make([]byte, 64)
	err = cmd.Encode(out)
	vfAssert(err == nil, "LockCommand.Encode returned an error")
	for i := 0; i < 64; i++ {
		vfAssert(out[i] == buf[i], "LockCommand decode-encode changed a byte")
	}
	// README offsets
	vfAssert(cmd.Magic == buf[0] && cmd.Version == buf[1] && cmd.CommandType == buf[2], "header offsets")
	vfAssert(cmd.Flag == buf[19] && cmd.DbId == buf[20], "flag/db offsets")
	vfAssert(cmd.Timeout == uint16(buf[53])|uint16(buf[54])<<8, "timeout offset")
	vfAssert(cmd.TimeoutFlag == uint16(buf[55])|uint16(buf[56])<<8, "timeout flag offset")
	vfAssert(cmd.Expried == uint16(buf[57])|uint16(buf[58])<<8, "expried offset")
	vfAssert(cmd.ExpriedFlag == uint16(buf[59])|uint16(buf[60])<<8, "expried flag offset")
	vfAssert(cmd.Count == uint16(buf[61])|uint16(buf[62])<<8, "count offset")
	vfAssert(cmd.Rcount == buf[63], "rcount offset")
	for i := 0; i < 16; i++ {
		vfAssert(cmd.RequestId[i] == buf[3+i], "request id offset")
		vfAssert(cmd.LockId[i] == buf[21+i], "lock id offset")
		vfAssert(cmd.LockKey[i] == buf[37+i], "lock key offset")
	}
	vfObserveBytes("out", out)
	vfReach("end")
}
