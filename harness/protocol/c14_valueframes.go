package protocol

// C14_valueframes: the value-frame constructors a client builds LOCK data with produce frames the
// result accessors read back to the same values: a key/value map of one entry (key and value of
// 1..3 symbolic bytes, lengths independent) through NewLockCommandDataSetKV -> GetKVValue, and an
// array of two elements through NewLockCommandDataSetArray -> GetArrayValue.

func init() { vfHarnesses["C14_valueframes"] = vfH_C14_valueframes }

func vfH_C14_valueframes() {
	if vfChoice("kind", 2) == 0 {
		k := vfBytes("k", vfRange("kn", 1, 3))
		v := vfBytes("v", vfRange("vn", 1, 3))
		d := NewLockCommandDataSetKV(map[string][]byte{string(k): v})
		vfAssert(len(d.Data) == 4+2+4+len(k)+4+len(v), "C14: a KV value frame has the wrong size")
		vfAssert(int(uint32(d.Data[0])|uint32(d.Data[1])<<8|uint32(d.Data[2])<<16|uint32(d.Data[3])<<24) == len(d.Data)-4, "C14: a KV value frame's length prefix is not its size")
		r := NewLockResultCommandDataFromOriginBytes(d.Data)
		got := r.GetKVValue()
		vfAssert(len(got) == 1, "C14: a KV value frame built by the constructor does not read back as one entry")
		gv, ok := got[string(k)]
		vfAssert(ok && len(gv) == len(v), "C14: a KV value frame built by the constructor does not read back with its key and value")
		for i := range v {
			vfAssert(gv[i] == v[i], "C14: a KV value frame reads back a different value")
		}
	} else {
		a := vfBytes("a", vfRange("an", 1, 3))
		b := vfBytes("b", vfRange("bn", 1, 3))
		d := NewLockCommandDataSetArray([][]byte{a, b})
		r := NewLockResultCommandDataFromOriginBytes(d.Data)
		got := r.GetArrayValue()
		vfAssert(len(got) == 2 && len(got[0]) == len(a) && len(got[1]) == len(b), "C14: an array value frame built by the constructor does not read back with its elements")
		for i := range a {
			vfAssert(got[0][i] == a[i], "C14: an array value frame reads back a different element")
		}
		for i := range b {
			vfAssert(got[1][i] == b[i], "C14: an array value frame reads back a different element")
		}
	}
	vfReach("end")
}
