package protocol

// C14_properties: the property block of a value frame.  A SET value frame built by the client-side
// constructor (NewLockCommandDataSetDataWithProperty) with 1..3 properties (symbolic codes, values of 0..2
// symbolic bytes, lengths independent) and a value of 0..2 symbolic bytes, read back the way the server's
// replies are read (LockResultCommandData.GetDataProperties / GetDataProperty / GetBytesValue): the same
// properties in the same order — an EMPTY property value included, first, in the middle or last — and the
// same value.

func init() { vfHarnesses["C14_properties"] = vfH_C14_properties }

func vfH_C14_properties() {
	n := vfRange("nprops", 1, 3)
	var props []*LockCommandDataProperty
	for i := 0; i < n; i++ {
		code := vfU8(vfName("code", i))
		v := vfBytes(vfName("pv", i), vfRange(vfName("plen", i), 0, 2))
		props = append(props, NewLockCommandDataProperty(code, v))
	}
	value := vfBytes("value", vfRange("vlen", 0, 2))
	d := NewLockCommandDataSetDataWithProperty(value, props)
	r := NewLockResultCommandDataFromOriginBytes(d.Data)
	got := r.GetDataProperties()
	vfAssert(len(got) == n, "a value frame's property block does not decode to the properties it was built from (count)")
	for i := 0; i < n && i < len(got); i++ {
		vfAssert(got[i].Code == props[i].Code, "a value frame's property block does not decode to the properties it was built from (code)")
		vfAssert(len(got[i].Value) == len(props[i].Value), "a value frame's property block does not decode to the properties it was built from (value length)")
		for k := range props[i].Value {
			if k < len(got[i].Value) {
				vfAssert(got[i].Value[k] == props[i].Value[k], "a value frame's property block does not decode to the properties it was built from (value)")
			}
		}
	}
	// lookup by code finds the first property carrying that code
	p0 := r.GetDataProperty(props[n-1].Code)
	vfAssert(p0 != nil, "GetDataProperty does not find a property the frame carries")
	bv := r.GetBytesValue()
	vfAssert(len(bv) == len(value), "the value behind a property block is not read back")
	for k := range value {
		if k < len(bv) {
			vfAssert(bv[k] == value[k], "the value behind a property block is not read back")
		}
	}
	vfReach("end")
}
