package protocol

// C14_chunks_long: arguments whose length has 1, 2, 3 or 4 decimal digits (9, 10, 11, 99, 100,
// 101, 999, 1000, 1001 bytes) and which are longer than one read: the "$<len>" line is parsed
// across digit-count boundaries and the body arrives over many reads.  First, middle and last
// body byte are symbolic; the first read's length is any 1..64, a later read is 1, 2, 3 or 64
// bytes, all others are full 64-byte reads (the parser's buffer is 64 bytes here).

func init() {
	vfHarnesses["C14_chunks_long"] = vfH_C14_chunks_long
}

func vfH_C14_chunks_long() {
	L := [9]int{9, 10, 11, 99, 100, 101, 999, 1000, 1001}[vfChoice("len", 9)]
	body := make([]byte, L)
	for i := range body {
		body[i] = 'x'
	}
	body[0], body[L/2], body[L-1] = vfU8("first"), vfU8("mid"), vfU8("last")
	args := []string{"SET", string(body)}
	bp := NewTextParser(make([]byte, 2048), make([]byte, 2048))
	stream := bp.BuildRequest(args)
	n := len(stream)
	p := NewTextParser(make([]byte, 64), make([]byte, 64))
	first := vfRange("read1", 1, 64)
	odd := [4]int{1, 2, 3, 64}[vfChoice("odd", 4)]
	oddAt := vfChoice("oddAt", 3) // which later read is the odd one
	pos, reads, fin := 0, 0, false
	for pos < n && !fin {
		sz := 64
		if reads == 0 {
			sz = first
		} else if reads == 1+oddAt {
			sz = odd
		}
		if sz > n-pos {
			sz = n - pos
		}
		fin = vfFeed(p, stream[pos:pos+sz], true)
		pos += sz
		reads++
		vfAssert(!fin || pos == n, "C14: parse finished before the last byte of the command")
	}
	vfAssert(fin, "C14: parse did not finish at the last byte of the command")
	got := p.GetArgs()
	vfAssert(len(got) == 2 && got[0] == "SET", "C14: parsed argument list differs")
	vfAssert(len(got[1]) == L, "C14: parsed argument has a different length")
	for i := 0; i < L && i < len(got[1]); i++ {
		vfAssert(got[1][i] == body[i], "C14: parsed argument differs from the original")
	}
	vfReach("end")
}
