package protocol

// C14_rt_fields: the other direction of the round trip for the types that carry multi-byte integers
// outside the LOCK frame: from ARBITRARY FIELD VALUES (every field a solver variable, padding zero)
// Encode, then Decode into a fresh value: every field comes back.  A decoder that misplaces one byte
// of an integer is invisible to decode-encode-decode (its own output never has that byte set) and
// shows only for field values that use the byte.

func init() { vfHarnesses["C14_rt_fields"] = vfH_C14_rt_fields }

func vfSymHeader(c *Command) {
	c.Magic, c.Version, c.CommandType = vfU8("magic"), vfU8("version"), vfU8("ctype")
	c.RequestId = vfArr16("rid")
}

func vfSymResultHeader(c *ResultCommand) {
	c.Magic, c.Version, c.CommandType = vfU8("magic"), vfU8("version"), vfU8("ctype")
	c.RequestId = vfArr16("rid")
	c.Result = vfU8("result")
}

func vfH_C14_rt_fields() {
	buf := make([]byte, 64)
	switch vfChoice("type", 5) {
	case 0:
		a, b := &SubscribeCommand{}, &SubscribeCommand{}
		vfSymHeader(&a.Command)
		a.Flag, a.ClientId, a.SubscribeId, a.SubscribeType = vfU8("flag"), vfU32("client"), vfU32("sub"), vfU8("stype")
		a.LockKeyMask = vfArr16("mask")
		a.Expried, a.MaxSize = vfU32("expried"), vfU32("maxsize")
		vfAssert(a.Encode(buf) == nil && b.Decode(buf) == nil, "SubscribeCommand: Encode / Decode error")
		vfAssert(*a == *b, "SubscribeCommand: a field value does not survive encode-then-decode")
	case 1:
		a, b := &SubscribeResultCommand{}, &SubscribeResultCommand{}
		vfSymResultHeader(&a.ResultCommand)
		a.Flag, a.ClientId, a.SubscribeId = vfU8("flag"), vfU32("client"), vfU32("sub")
		vfAssert(a.Encode(buf) == nil && b.Decode(buf) == nil, "SubscribeResultCommand: Encode / Decode error")
		vfAssert(*a == *b, "SubscribeResultCommand: a field value does not survive encode-then-decode")
	case 2:
		a, b := &StateResultCommand{}, &StateResultCommand{}
		vfSymResultHeader(&a.ResultCommand)
		a.Flag, a.DbState, a.DbId = vfU8("flag"), vfU8("dbstate"), vfU8("db")
		a.State.LockCount, a.State.UnLockCount = vfU64("s0"), vfU64("s1")
		a.State.LockedCount, a.State.KeyCount, a.State.WaitCount, a.State.TimeoutedCount = vfU32("s2"), vfU32("s3"), vfU32("s4"), vfU32("s5")
		a.State.ExpriedCount, a.State.UnlockErrorCount = vfU32("s6"), vfU32("s7")
		vfAssert(a.Encode(buf) == nil && b.Decode(buf) == nil, "StateResultCommand: Encode / Decode error")
		vfAssert(*a == *b, "StateResultCommand: a field value does not survive encode-then-decode")
	case 3:
		a, b := &LockCommand{}, &LockCommand{}
		vfSymHeader(&a.Command)
		a.Flag, a.DbId, a.LockId, a.LockKey = vfU8("flag"), vfU8("db"), vfArr16("lid"), vfArr16("key")
		a.TimeoutFlag, a.Timeout, a.ExpriedFlag, a.Expried = vfU16("tflag"), vfU16("timeout"), vfU16("eflag"), vfU16("expried")
		a.Count, a.Rcount = vfU16("count"), vfU8("rcount")
		vfAssert(a.Encode(buf) == nil && b.Decode(buf) == nil, "LockCommand: Encode / Decode error")
		vfAssert(*a == *b, "LockCommand: a field value does not survive encode-then-decode")
	case 4:
		a, b := &LockResultCommand{}, &LockResultCommand{}
		vfSymResultHeader(&a.ResultCommand)
		a.Flag, a.DbId, a.LockId, a.LockKey = vfU8("flag"), vfU8("db"), vfArr16("lid"), vfArr16("key")
		a.Lcount, a.Count, a.Lrcount, a.Rcount = vfU16("lcount"), vfU16("count"), vfU8("lrcount"), vfU8("rcount")
		vfAssert(a.Encode(buf) == nil && b.Decode(buf) == nil, "LockResultCommand: Encode / Decode error")
		vfAssert(*a == *b, "LockResultCommand: a field value does not survive encode-then-decode")
	}
	vfReach("end")
}
