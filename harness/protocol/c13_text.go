package protocol

// C13 (text protocol): no byte stream, in any split into reads, crashes the
// request parser.  C13_textchunks: every 3-read chunking of well-formed
// commands (argument bytes symbolic).  C13_textbytes: arbitrary bytes
// (malformed streams) delivered in up to 3 reads.  Any Go panic is a violation.

func init() {
	vfHarnesses["C13_textchunks"] = vfH_C13_textchunks
	vfHarnesses["C13_textbytes"] = vfH_C13_textbytes
	vfHarnesses["C13_textbytes9"] = vfH_C13_textbytes9
}

func vfFeedNoAssert(p *TextParser, chunk []byte) bool {
	if len(chunk) == 0 {
		return true
	}
	copy(p.GetReadBuf(), chunk)
	p.BufferUpdate(len(chunk))
	for guard := 0; guard < 16; guard++ {
		if p.ParseRequest() != nil {
			return false // malformed input earns an error (the connection is closed): fine
		}
		if p.IsParseFinish() {
			p.Reset()
		}
		if p.IsBufferEnd() {
			return true
		}
	}
	return true
}

func vfH_C13_textchunks() {
	nargs := vfRange("nargs", 1, 2)
	args := make([]string, nargs)
	for i := range args {
		args[i] = vfString(vfName("arg", i), vfRange(vfName("len", i), 0, 3))
	}
	p := NewTextParser(make([]byte, 64), make([]byte, 64))
	stream := p.BuildRequest(args)
	n := len(stream)
	c1 := vfRange("cut1", 0, n)
	c2 := vfRange("cut2", c1, n)
	if vfFeedNoAssert(p, stream[:c1]) && vfFeedNoAssert(p, stream[c1:c2]) {
		vfFeedNoAssert(p, stream[c2:])
	}
	vfReach("end")
}

func vfH_C13_textbytes()  { vfC13TextBytes(7) }
func vfH_C13_textbytes9() { vfC13TextBytes(9) }

func vfC13TextBytes(max int) {
	n := vfRange("n", 1, max)
	stream := vfBytes("s", n)
	// steer the search towards the parser's states: first byte '*', digits, CR, LF, '$' are all just values of the bytes
	p := NewTextParser(make([]byte, 64), make([]byte, 64))
	c1 := vfRange("cut1", 0, n)
	c2 := vfRange("cut2", c1, n)
	if vfFeedNoAssert(p, stream[:c1]) && vfFeedNoAssert(p, stream[c1:c2]) {
		vfFeedNoAssert(p, stream[c2:])
	}
	vfReach("end")
}
