package protocol

// C14_rt_all: for every command and result type, starting from an arbitrary
// 64-byte buffer: Decode, Encode, Decode again gives the same field values
// (encode-then-decode is the identity on decoded values), the second Encode
// reproduces the first Encode byte for byte, and the header bytes
// (magic, version, type, request id) sit at the documented offsets.

func init() {
	vfHarnesses["C14_rt_all"] = vfH_C14_rt_all
	vfHarnesses["C14_rt_call"] = vfH_C14_rt_call
}

type vfCodec interface {
	Decode(buf []byte) error
	Encode(buf []byte) error
}

func vfRoundTrip(a, b vfCodec, same func() bool, name string) {
	buf := vfBytes("buf", 64)
	if name == "LeaderResultCommand" {
		// the only type with an in-frame length field: frames whose host length points past the frame are rejected
		if a.Decode(buf) != nil {
			vfAssert(buf[20] > 43, "LeaderResultCommand: a frame with a host length that fits was rejected")
			vfReach("decode-rejected")
			return
		}
	}
	vfAssert(a.Decode(buf) == nil, name+": Decode of 64 bytes returned an error")
	out := make([]byte, 64)
	vfAssert(a.Encode(out) == nil, name+": Encode of a decoded value returned an error")
	vfAssert(b.Decode(out) == nil, name+": Decode of the encoding returned an error")
	vfAssert(same(), name+": encode-then-decode changed a field value")
	out2 := make([]byte, 64)
	vfAssert(b.Encode(out2) == nil, name+": second Encode returned an error")
	for i := 0; i < 64; i++ {
		vfAssert(out2[i] == out[i], name+": encoding is not stable under decode-encode")
	}
	for i := 0; i < 19; i++ {
		vfAssert(out[i] == buf[i], name+": header byte (magic/version/type/request id) not reproduced at its documented offset")
	}
	vfObserveBytes("out", out)
}

func vfH_C14_rt_all() {
	switch vfChoice("type", 18) {
	case 0:
		a, b := &Command{}, &Command{}
		vfRoundTrip(a, b, func() bool { return *a == *b }, "Command")
	case 1:
		a, b := &ResultCommand{}, &ResultCommand{}
		vfRoundTrip(a, b, func() bool { return *a == *b }, "ResultCommand")
	case 2:
		a, b := &InitCommand{}, &InitCommand{}
		vfRoundTrip(a, b, func() bool { return *a == *b }, "InitCommand")
	case 3:
		a, b := &InitResultCommand{}, &InitResultCommand{}
		vfRoundTrip(a, b, func() bool { return *a == *b }, "InitResultCommand")
	case 4:
		a, b := &LockCommand{}, &LockCommand{}
		vfRoundTrip(a, b, func() bool { return *a == *b }, "LockCommand")
	case 5:
		a, b := &LockResultCommand{}, &LockResultCommand{}
		vfRoundTrip(a, b, func() bool { return *a == *b }, "LockResultCommand")
		// documented offsets of the result frame
		buf := vfBytes("buf", 64)
		vfAssert(a.Result == buf[19] && a.Flag == buf[20] && a.DbId == buf[21], "LockResultCommand: result/flag/db offsets")
		vfAssert(a.Lcount == uint16(buf[54])|uint16(buf[55])<<8 && a.Count == uint16(buf[56])|uint16(buf[57])<<8, "LockResultCommand: lcount/count offsets")
		vfAssert(a.Lrcount == buf[58] && a.Rcount == buf[59], "LockResultCommand: lrcount/rcount offsets")
		for i := 0; i < 16; i++ {
			vfAssert(a.LockId[i] == buf[22+i] && a.LockKey[i] == buf[38+i], "LockResultCommand: lock id / key offsets")
		}
	case 6:
		a, b := &StateCommand{}, &StateCommand{}
		vfRoundTrip(a, b, func() bool { return *a == *b }, "StateCommand")
	case 7:
		a, b := &StateResultCommand{}, &StateResultCommand{}
		vfRoundTrip(a, b, func() bool { return *a == *b }, "StateResultCommand")
	case 8:
		a, b := &AdminCommand{}, &AdminCommand{}
		vfRoundTrip(a, b, func() bool { return *a == *b }, "AdminCommand")
	case 9:
		a, b := &AdminResultCommand{}, &AdminResultCommand{}
		vfRoundTrip(a, b, func() bool { return *a == *b }, "AdminResultCommand")
	case 10:
		a, b := &PingCommand{}, &PingCommand{}
		vfRoundTrip(a, b, func() bool { return *a == *b }, "PingCommand")
	case 11:
		a, b := &PingResultCommand{}, &PingResultCommand{}
		vfRoundTrip(a, b, func() bool { return *a == *b }, "PingResultCommand")
	case 12:
		a, b := &QuitCommand{}, &QuitCommand{}
		vfRoundTrip(a, b, func() bool { return *a == *b }, "QuitCommand")
	case 13:
		a, b := &QuitResultCommand{}, &QuitResultCommand{}
		vfRoundTrip(a, b, func() bool { return *a == *b }, "QuitResultCommand")
	case 14:
		a, b := &LeaderCommand{}, &LeaderCommand{}
		vfRoundTrip(a, b, func() bool { return *a == *b }, "LeaderCommand")
	case 15:
		a, b := &SubscribeCommand{}, &SubscribeCommand{}
		vfRoundTrip(a, b, func() bool { return *a == *b }, "SubscribeCommand")
	case 16:
		a, b := &SubscribeResultCommand{}, &SubscribeResultCommand{}
		vfRoundTrip(a, b, func() bool { return *a == *b }, "SubscribeResultCommand")
	case 17:
		a, b := &LeaderResultCommand{}, &LeaderResultCommand{}
		vfRoundTrip(a, b, func() bool { return *a == *b }, "LeaderResultCommand")
	}
	vfReach("end")
}

// CALL / CALL result: method name (<= 38 bytes) and error type (<= 37 bytes)
// of symbolic content without NUL bytes survive Encode-Decode unchanged.
func vfH_C14_rt_call() {
	if vfChoice("which", 2) == 0 {
		n := vfRange("len", 0, 38)
		name := vfString("name", n)
		for i := 0; i < n; i++ {
			vfAssume(name[i] != 0)
		}
		c := &CallCommand{}
		c.Magic, c.Version, c.CommandType = vfU8("magic"), vfU8("version"), vfU8("ctype")
		c.RequestId = vfArr16("rid")
		c.Flag, c.Encoding, c.Charset, c.ContentLen = vfU8("flag"), vfU8("enc"), vfU8("cs"), vfU32("clen")
		c.MethodName = name
		buf := make([]byte, 64)
		vfAssert(c.Encode(buf) == nil, "CallCommand: Encode refused a method name of <= 38 bytes")
		d := &CallCommand{}
		vfAssert(d.Decode(buf) == nil, "CallCommand: Decode error")
		vfAssert(d.Command == c.Command && d.Flag == c.Flag && d.Encoding == c.Encoding && d.Charset == c.Charset && d.ContentLen == c.ContentLen, "CallCommand: field changed by encode-decode")
		vfAssert(d.MethodName == name, "CallCommand: method name changed by encode-decode")
	} else {
		n := vfRange("len", 0, 37)
		name := vfString("name", n)
		for i := 0; i < n; i++ {
			vfAssume(name[i] != 0)
		}
		c := &CallResultCommand{}
		c.Magic, c.Version, c.CommandType, c.Result = vfU8("magic"), vfU8("version"), vfU8("ctype"), vfU8("result")
		c.RequestId = vfArr16("rid")
		c.Flag, c.Encoding, c.Charset, c.ContentLen = vfU8("flag"), vfU8("enc"), vfU8("cs"), vfU32("clen")
		c.ErrType = name
		buf := make([]byte, 64)
		vfAssert(c.Encode(buf) == nil, "CallResultCommand: Encode refused an error type of <= 37 bytes")
		d := &CallResultCommand{}
		vfAssert(d.Decode(buf) == nil, "CallResultCommand: Decode error")
		vfAssert(d.ResultCommand == c.ResultCommand && d.Flag == c.Flag && d.Encoding == c.Encoding && d.Charset == c.Charset && d.ContentLen == c.ContentLen, "CallResultCommand: field changed by encode-decode")
		vfAssert(d.ErrType == name, "CallResultCommand: error type changed by encode-decode")
	}
	vfReach("end")
}
