package protocol

// C14_textunits: the time options of the Redis-style commands (EX seconds, PX milliseconds for the
// expiry; TX, PTX for the wait) -> the command's 16-bit time field and unit flag.  The number is a
// string of 1..9 symbolic decimal digits.  Whatever unit the converter chooses (milliseconds, seconds,
// minutes), the duration the field then stands for must not be shorter than the duration that was
// written and must exceed it by less than one unit of the chosen granularity (durations beyond 65535
// minutes, which no field can say: rejected or saturated).

func init() { vfHarnesses["C14_textunits"] = vfH_C14_textunits }

func vfH_C14_textunits() {
	conv := NewTextCommandConverter()
	opt := [4]string{"EX", "PX", "TX", "PTX"}[vfChoice("opt", 4)]
	nS, n := vfDigits("n", vfRange("digits", 1, 9))
	c := &LockCommand{}
	err := conv.ConvertArgs2Flag(c, []string{opt, nS})
	if err != nil {
		vfAssert(n*1000 > 65535*60000, "a well-formed time option within the field's range was rejected")
		return
	}
	var field, flag uint16
	if opt == "EX" || opt == "PX" {
		field, flag = c.Expried, c.ExpriedFlag
	} else {
		field, flag = c.Timeout, c.TimeoutFlag
	}
	// the duration the field stands for, in milliseconds, and its granularity
	unit := uint64(1000)
	if flag&0x0400 != 0 { // millisecond flag (same bit in both flag words)
		unit = 1
	} else if flag&0x0040 != 0 { // minute flag
		unit = 60000
	}
	vfAssert(flag&0x0400 == 0 || flag&0x0040 == 0, "both unit flags set")
	got := uint64(field) * unit
	want := n
	if opt == "EX" || opt == "TX" {
		want = n * 1000
	}
	if want > 65535*60000 {
		// longer than the 16-bit field can say in minutes (45.5 days): rejected, or the longest duration there is
		vfReach("beyond-field")
		vfAssert(got >= 65535*60000, "a time option longer than 65535 minutes was neither rejected nor saturated: it wraps to a shorter duration")
		return
	}
	vfAssert(got >= want, "a time option of a text command was converted to a SHORTER duration than written")
	vfAssert(got < want+unit, "a time option of a text command was converted to a duration that exceeds the written one by a unit or more")
	vfReach("end")
}
