package protocol

// C14 (text form of LOCK/UNLOCK):
//   C14_idnorm      key / id strings of every length 0..64 with symbolic bytes through
//                   ConvertArgId2LockId and ConvertString2LockKey against the documented rule
//                   (<=16 bytes left-padded with zeros, 32 hex characters decoded, else MD5).
//   C14_textlock    LOCK/UNLOCK argument lists -> LockCommand fields against the documented
//                   mapping (TIMEOUT/EXPRIED 32-bit split, COUNT/RCOUNT minus one, FLAG).
//   C14_resulttext  every defined result code renders through the text result writer, and the
//                   rendering parses back (TextParser.ParseResponse) to the result's fields
//                   (COUNT/RCOUNT plus one).

import (
	"crypto/md5"
	"fmt"
)

func init() {
	vfHarnesses["C14_idnorm"] = vfH_C14_idnorm
	vfHarnesses["C14_textlock"] = vfH_C14_textlock
	vfHarnesses["C14_resulttext"] = vfH_C14_resulttext
}

type vfTextProto struct {
	parser *TextParser
	lockId [16]byte
	freed  int
}

func (p *vfTextProto) GetDBId() uint8                     { return 3 }
func (p *vfTextProto) GetLockId() [16]byte                { return p.lockId }
func (p *vfTextProto) GetTimeout() uint16                 { return 7 }
func (p *vfTextProto) GetLockCommand() *LockCommand       { return &LockCommand{} }
func (p *vfTextProto) FreeLockCommand(*LockCommand) error { p.freed++; return nil }
func (p *vfTextProto) GetParser() *TextParser             { return p.parser }

func vfNewTextProto() *vfTextProto {
	p := &vfTextProto{parser: NewTextParser(make([]byte, 1024), make([]byte, 1024))}
	p.lockId[0], p.lockId[15] = 'S', 1
	return p
}

func vfHexVal(c byte) (byte, bool) {
	switch {
	case '0' <= c && c <= '9':
		return c - '0', true
	case 'a' <= c && c <= 'f':
		return c - 'a' + 10, true
	case 'A' <= c && c <= 'F':
		return c - 'A' + 10, true
	}
	return 0, false
}

// vfRefId is the documented normalisation, written independently of the implementation.
func vfRefId(s []byte) [16]byte {
	var out [16]byte
	n := len(s)
	if n <= 16 {
		copy(out[16-n:], s)
		return out
	}
	if n == 32 {
		ok := true
		for i := 0; i < 16; i++ {
			hi, ok1 := vfHexVal(s[2*i])
			lo, ok2 := vfHexVal(s[2*i+1])
			if !ok1 || !ok2 {
				ok = false
				break
			}
			out[i] = hi<<4 | lo
		}
		if ok {
			return out
		}
	}
	return md5.Sum(s)
}

func vfH_C14_idnorm() {
	n := vfRange("len", 0, 64)
	s := vfBytes("s", n)
	want := vfRefId(s)
	var got [16]byte
	got[3] = 0x77 // stale content of a reused command must not survive
	NewTextCommandConverter().ConvertArgId2LockId(string(s), &got)
	got2 := ConvertString2LockKey(string(s))
	for i := 0; i < 16; i++ { // byte by byte: sixteen small queries instead of one large one
		vfAssert(got[i] == want[i], "ConvertArgId2LockId differs from the documented key/id normalisation")
		vfAssert(got2[i] == want[i], "ConvertString2LockKey differs from the documented key/id normalisation")
	}
	vfReach("end")
}

// vfDigits: n symbolic decimal digits (leading zeros allowed) and the number they spell,
// accumulated the way strconv does (n*10 + d), so that the converter's strconv result and
// the harness's expectation are the same term.
func vfDigits(tag string, n int) (string, uint64) {
	b := vfBytes(tag, n)
	v := uint64(0)
	for i := range b {
		vfAssume(b[i] >= '0' && b[i] <= '9')
		v = v*10 + uint64(b[i]-'0')
	}
	return string(b), v
}

func vfH_C14_textlock() {
	p := vfNewTextProto()
	conv := NewTextCommandConverter()
	unlock := vfBool("unlock")
	name := "LOCK"
	if unlock {
		name = "UNLOCK"
	}
	key := vfBytes("key", vfRange("klen", 1, 16))
	args := []string{name, string(key)}
	// which options are present: one choice out of 8 shapes (all, none, and each one alone)
	shape := vfChoice("shape", 8)
	has := func(i int) bool { return shape == 0 || shape == i+2 }
	hasId, hasFlag, hasT, hasE, hasC, hasR := has(0), has(1), has(2), has(3), has(4), has(5)
	lid := vfBytes("lid", 16)
	flagS, flag := vfDigits("flag", 3)
	tS, t := vfDigits("t", 10)
	eS, e := vfDigits("e", 10)
	countS, count := vfDigits("count", 5)
	rcountS, rcount := vfDigits("rcount", 3)
	if hasId {
		args = append(args, "LOCK_ID", string(lid))
	}
	if hasFlag {
		args = append(args, "FLAG", flagS)
	}
	if hasT {
		args = append(args, "TIMEOUT", tS)
	}
	if hasE {
		args = append(args, "EXPRIED", eS)
	}
	if hasC {
		args = append(args, "COUNT", countS)
	}
	if hasR {
		args = append(args, "RCOUNT", rcountS)
	}
	cmd, w, err := conv.ConvertTextLockAndUnLockCommand(p, args)
	vfAssert(err == nil && cmd != nil && w != nil, "well-formed text LOCK/UNLOCK refused")
	wantType := uint8(COMMAND_LOCK)
	if unlock {
		wantType = COMMAND_UNLOCK
	}
	vfAssert(cmd.Magic == MAGIC && cmd.Version == VERSION && cmd.CommandType == wantType && cmd.DbId == 3, "text LOCK header fields")
	vfAssert(cmd.LockKey == vfRefId(key), "text LOCK key not normalised as documented")
	if hasId {
		vfAssert(cmd.LockId == vfRefId(lid), "text LOCK_ID not taken as given")
	} else if unlock {
		vfAssert(cmd.LockId == p.lockId, "text UNLOCK without LOCK_ID does not address the session's last lock")
	} else {
		vfAssert(cmd.LockId == cmd.RequestId, "text LOCK without LOCK_ID does not get a fresh id")
	}
	if hasFlag {
		vfAssert(cmd.Flag == uint8(flag), "FLAG not carried")
	} else {
		vfAssert(cmd.Flag == 0, "FLAG default")
	}
	if hasT {
		vfAssert(cmd.Timeout == uint16(t) && cmd.TimeoutFlag == uint16(t>>16), "TIMEOUT not split into value (low 16 bits) and flags (next 16 bits)")
	} else {
		vfAssert(cmd.Timeout == 15 && cmd.TimeoutFlag == 0, "TIMEOUT default")
	}
	if hasE {
		vfAssert(cmd.Expried == uint16(e) && cmd.ExpriedFlag == uint16(e>>16), "EXPRIED not split into value (low 16 bits) and flags (next 16 bits)")
	} else {
		vfAssert(cmd.Expried == 120 && cmd.ExpriedFlag == 0, "EXPRIED default")
	}
	if hasC {
		wc := uint16(0)
		if count > 0 {
			wc = uint16(count - 1)
		}
		vfAssert(cmd.Count == wc, "COUNT n does not become Count n-1")
	} else {
		vfAssert(cmd.Count == 0, "COUNT default")
	}
	if hasR {
		wr := uint8(0)
		if rcount > 0 {
			wr = uint8(rcount - 1)
		}
		vfAssert(cmd.Rcount == wr, "RCOUNT n does not become Rcount n-1")
	} else {
		vfAssert(cmd.Rcount == 0, "RCOUNT default")
	}
	vfReach("end")
}

func vfH_C14_resulttext() {
	p := vfNewTextProto()
	conv := NewTextCommandConverter()
	res := &LockResultCommand{}
	res.Magic, res.Version = MAGIC, VERSION
	res.CommandType = COMMAND_LOCK
	res.Result = vfU8("result")
	vfAssume(res.Result <= RESULT_LOCK_ACK_WAITING) // the 13 defined result codes
	res.LockId = vfArr16("lid")
	// two numeric fields symbolic at a time (each symbolic number forks on its digit count)
	if vfChoice("which", 2) == 0 {
		res.Lcount, res.Lrcount = vfU16("lcount"), vfU8("lrcount")
		res.Count, res.Rcount = 4, 2
	} else {
		res.Count, res.Rcount = vfU16("count"), vfU8("rcount")
		res.Lcount, res.Lrcount = 7, 1
	}
	out := NewMemBytesArrayStream()
	err := conv.WriteTextLockAndUnLockCommandResult(p, out, res)
	vfAssert(err == nil, "result writer failed")
	vfReach("rendered")
	// parse the rendering back
	buf := make([]byte, 1024)
	n, _ := out.ReadBytes(buf)
	rp := NewTextParser(make([]byte, 1024), make([]byte, 1024))
	copy(rp.GetReadBuf(), buf[:n])
	rp.BufferUpdate(n)
	vfAssert(rp.ParseResponse() == nil && rp.IsParseFinish(), "the server's own rendering does not parse as a response")
	a := rp.GetArgs()
	vfAssert(len(a) == 12, "rendered result is not 12 elements")
	// numeric fields: compared as decimal strings (rendering a number is fmt's job, which
	// the executor models; what is checked is which number lands in which field)
	vfAssert(a[0] == fmt.Sprintf("%d", res.Result), "result code not rendered")
	vfAssert(len(a[1]) > 0, "result code has no text rendering")
	vfAssert(a[2] == "LOCK_ID" && a[4] == "LCOUNT" && a[6] == "COUNT" && a[8] == "LRCOUNT" && a[10] == "RCOUNT", "field names")
	vfAssert(a[3] == fmt.Sprintf("%x", res.LockId), "LOCK_ID not rendered as 32 hex characters of the id")
	vfAssert(a[5] == fmt.Sprintf("%d", res.Lcount) && a[9] == fmt.Sprintf("%d", res.Lrcount), "LCOUNT/LRCOUNT not rendered as is")
	vfAssert(a[7] == fmt.Sprintf("%d", uint32(res.Count)+1), "COUNT not rendered as Count plus one")
	vfAssert(a[11] == fmt.Sprintf("%d", uint32(res.Rcount)+1), "RCOUNT not rendered as Rcount plus one")
	vfReach("end")
}
