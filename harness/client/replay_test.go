package client

// Native replay driver: VF_REPLAY names a JSON file
//   [{"harness": "...", "model": {...}, "expect": "ok|violation|panic", "obs": ["tag=val",...]}, ...]
// Each case runs the harness natively with the model and prints one line
//   VFREPLAY <index> <outcome> <detail>
// where outcome is ok | assume | violation | panic | obs-mismatch.

import (
	"encoding/json"
	"fmt"
	"os"
	"runtime"
	"runtime/debug"
	"strconv"
	"strings"
	"testing"
	"time"
)

type vfReplayCase struct {
	Harness string            `json:"harness"`
	Model   map[string]uint64 `json:"model"`
	Obs     []string          `json:"obs"`
}

func vfRunCase(c vfReplayCase) (outcome string, detail string) {
	defer func() {
		if r := recover(); r != nil {
			if _, ok := r.(vfAssumeFailed); ok {
				outcome, detail = "assume", ""
				return
			}
			s := fmt.Sprint(r)
			if strings.HasPrefix(s, "VF-ASSERT") {
				outcome, detail = "violation", s
				return
			}
			st := string(debug.Stack())
			// the frame below runtime.gopanic / panicindex is where it happened
			outcome, detail = "panic", s+" || "+vfPanicSite(st)
		}
	}()
	h := vfHarnesses[c.Harness]
	if h == nil {
		return "error", "no harness " + c.Harness
	}
	vfSetModel(c.Model)
	vfFSReset()
	defer vfFSReset()
	h()
	if c.Obs != nil {
		if len(c.Obs) != len(vfObsLog) {
			return "obs-mismatch", fmt.Sprintf("count %d vs native %d", len(c.Obs), len(vfObsLog))
		}
		for i := range c.Obs {
			if c.Obs[i] != vfObsLog[i] {
				return "obs-mismatch", fmt.Sprintf("symbolic %s native %s", c.Obs[i], vfObsLog[i])
			}
		}
	}
	return "ok", ""
}

func vfPanicSite(st string) string {
	lines := strings.Split(st, "\n")
	for i, l := range lines {
		if strings.HasPrefix(l, "panic(") || strings.HasPrefix(l, "runtime.goPanic") || strings.HasPrefix(l, "runtime.panic") {
			// skip runtime frames
			for j := i + 2; j+1 < len(lines); j += 2 {
				if !strings.HasPrefix(lines[j], "runtime.") {
					return strings.TrimSpace(lines[j]) + " " + strings.TrimSpace(lines[j+1])
				}
			}
		}
	}
	return ""
}

func TestVFReplay(t *testing.T) {
	path := os.Getenv("VF_REPLAY")
	if path == "" {
		t.Skip("no VF_REPLAY")
	}
	b, err := os.ReadFile(path)
	if err != nil {
		t.Fatal(err)
	}
	var cases []vfReplayCase
	if err := json.Unmarshal(b, &cases); err != nil {
		t.Fatal(err)
	}
	hangS := 90
	if v, err := strconv.Atoi(os.Getenv("VF_REPLAY_HANG_S")); err == nil && v > 0 {
		hangS = v
	}
	for i, c := range cases {
		// each case under a watchdog: a case that blocks natively (the executor said the path completes)
		// is reported with the stack of its goroutine and the run goes on with the next case
		type res struct{ o, d string }
		done := make(chan res, 1)
		go func(c vfReplayCase) {
			o, d := vfRunCase(c)
			done <- res{o, d}
		}(c)
		var r res
		select {
		case r = <-done:
		case <-time.After(time.Duration(hangS) * time.Second):
			buf := make([]byte, 1<<20)
			n := runtime.Stack(buf, true)
			st := ""
			for _, g := range strings.Split(string(buf[:n]), "\n\n") {
				if strings.Contains(g, "vfRunCase") {
					st = g
				}
			}
			if len(st) > 3000 {
				st = st[:3000]
			}
			r = res{"hang", st}
		}
		fmt.Printf("VFREPLAY %d %s %s\n", i, r.o, strings.ReplaceAll(r.d, "\n", " | "))
	}
}
