package client

// Harness intrinsics.  Under symgo every call to a vf* function is intercepted
// by the executor (the bodies below are never interpreted).  Compiled natively
// (go test -overlay) the same functions read the solver's model from the file
// named by VF_MODEL, so that a counterexample — or the witness of any explored
// path — replays against the real build.

import (
	"encoding/json"
	"fmt"
	"os"
	"path/filepath"
	"sync"
)

type vfAssumeFailed struct{}

var vfModelValues map[string]uint64
var vfObsLog []string
var vfReachLog []string

func vfLoadModel(path string) {
	vfModelValues = map[string]uint64{}
	vfObsLog = nil
	vfReachLog = nil
	if path == "" {
		return
	}
	b, err := os.ReadFile(path)
	if err != nil {
		panic(err)
	}
	if err := json.Unmarshal(b, &vfModelValues); err != nil {
		panic(err)
	}
}

func vfSetModel(m map[string]uint64) {
	vfModelValues = m
	vfObsLog = nil
	vfReachLog = nil
}

func vfGet(name string) uint64 { return vfModelValues[name] }

func vfU8(name string) uint8   { return uint8(vfGet(name)) }
func vfU16(name string) uint16 { return uint16(vfGet(name)) }
func vfU32(name string) uint32 { return uint32(vfGet(name)) }
func vfU64(name string) uint64 { return vfGet(name) }
func vfI64(name string) int64  { return int64(vfGet(name)) }
func vfInt(name string) int    { return int(int64(vfGet(name))) }
func vfBool(name string) bool  { return vfGet(name)&1 == 1 }

func vfBytes(name string, n int) []byte {
	b := make([]byte, n)
	for i := range b {
		b[i] = byte(vfGet(fmt.Sprintf("%s[%d]", name, i)))
	}
	return b
}

func vfString(name string, n int) string { return string(vfBytes(name, n)) }

func vfArr16(name string) [16]byte {
	var a [16]byte
	for i := range a {
		a[i] = byte(vfGet(fmt.Sprintf("%s[%d]", name, i)))
	}
	return a
}

// vfChoice returns a value in 0..n-1 (the executor forks over all of them).
func vfChoice(name string, n int) int { return int(vfGet(name)) }

// vfRange returns a value in lo..hi inclusive (forked).
func vfRange(name string, lo, hi int) int { return int(int64(vfGet(name))) }

func vfAssume(c bool) {
	if !c {
		panic(vfAssumeFailed{})
	}
}

func vfAssert(c bool, msg string) {
	if !c {
		panic("VF-ASSERT: " + msg)
	}
}

func vfFail(msg string) { panic("VF-ASSERT: " + msg) }

func vfReach(tag string) { vfReachLog = append(vfReachLog, tag) }

func vfObserve(tag string, v uint64) { vfObsLog = append(vfObsLog, fmt.Sprintf("%s=%d", tag, v)) }

func vfObserveBytes(tag string, b []byte) {
	for i, x := range b {
		vfObserve(fmt.Sprintf("%s[%d]", tag, i), uint64(x))
	}
	vfObserve(tag+".len", uint64(len(b)))
}

// vfConcrete: identity natively; the executor forks over the feasible values.
func vfConcrete(x uint64) uint64 { return x }

// vfSymbolic reports whether the code runs under the symbolic executor.
func vfSymbolic() bool { return false }

// vfSetClock sets what time.Now() returns under the executor (no native effect).
func vfSetClock(sec int64, nsec int64) {}

func vfSpawnCount() int   { return 0 }
func vfRunSpawned(i int)  {}
func vfDropSpawned()      {}
func vfChanUnbounded()    {}
func vfGoInline(on bool)  {}

// vfClockHook: under the executor f runs once at the next time.Now() of the code under test (no native effect).
func vfClockHook(f func()) {}

// vfHavocLoads: under the executor the next n atomic loads of *p return an arbitrary value each (no native effect).
func vfHavocLoads(p *uint32, n int) {}

// vfBlockHook: under the executor f is called when the running thread is about to block on an empty channel; it may
// let recorded goroutines run (vfRunSpawnedToBlock) and reports whether it did; the receive is then retried.
func vfBlockHook(f func() bool) {}

// vfRunSpawnedToBlock runs recorded goroutine i until it returns (false) or blocks (true).
func vfRunSpawnedToBlock(i int) bool { return false }

// vfRunToBlock runs f as another goroutine would: until it returns (false) or blocks on a channel (true).
func vfRunToBlock(f func()) bool { f(); return false }

// vfLockHook: under the executor f runs once right before the next Lock of m (no native effect).
func vfLockHook(m *sync.Mutex, f func()) {}

// vfMutexHeld: under the executor, whether the running thread holds m (natively unknown: harnesses that use it have no native replay).
func vfMutexHeld(m *sync.Mutex) bool { return true }

// --- file system: the executor has an in-memory model; natively a temporary directory is used ---

var vfFSTmp string

// vfFSDir returns the data directory of this run (created empty on first use per case).
func vfFSDir() string {
	if vfFSTmp == "" {
		d, err := os.MkdirTemp("", "vfdata")
		if err != nil {
			panic(err)
		}
		vfFSTmp = d
	}
	return vfFSTmp
}

func vfFSReset() {
	if vfFSTmp != "" {
		_ = os.RemoveAll(vfFSTmp)
		vfFSTmp = ""
	}
}

func vfFSWrite(name string, data []byte) {
	if err := os.WriteFile(name, data, 0644); err != nil {
		panic(err)
	}
}

func vfFSRead(name string) []byte {
	b, err := os.ReadFile(name)
	if err != nil {
		return nil
	}
	return b
}

func vfFSExists(name string) bool {
	_, err := os.Stat(name)
	return err == nil
}

func vfFSRemove(name string) { _ = os.Remove(name) }

func vfMkdir(name string) { _ = os.Mkdir(name, 0755) }

// crash images exist only under the executor
func vfFSMutations() int             { return 0 }
func vfFSMutationName(i int) string  { return "" }
func vfFSRestore(i int)              {}
func vfFSMark() int                  { return 0 }
func vfFSShortReads(n int)           {}

var _ = filepath.Join

var vfHarnesses = map[string]func(){}

func vfBool2u(b bool) uint64 {
	if b {
		return 1
	}
	return 0
}
