#!/bin/sh
# usage: seedconfirm.sh <id> <pkgdir: server|protocol>
# confirms in the scratch worktree /tmp/seed/<id>: builds, existing tests pass with the patch, demo fails with it and passes without it
id=$1; pkg=${2:-server}; wt=/tmp/seed/$id
export GOFLAGS=-mod=mod GOPROXY=off GOSUMDB=off GOTOOLCHAIN=local
cd $wt || exit 2
git checkout -q -- . ; rm -f server/zz_seed_demo_test.go protocol/zz_seed_demo_test.go server/append.aof.* 
git apply SEED/patch.diff || { echo "PATCH-DOES-NOT-APPLY"; exit 2; }
go build ./... || { echo BUILD-FAIL; exit 2; }
echo "-- existing tests with patch:"; go test -vet=off -count=1 ./protocol/ ./server/ 2>&1 | tail -2
cp SEED/zz_seed_demo_test.go $pkg/zz_seed_demo_test.go
echo "-- demo with patch (expect FAIL):"; go test -vet=off -count=1 -run 'Seed' ./$pkg/ 2>&1 | tail -3 | cut -c1-200
git apply -R SEED/patch.diff
echo "-- demo without patch (expect ok):"; go test -vet=off -count=1 -run 'Seed' ./$pkg/ 2>&1 | tail -2 | cut -c1-200
rm -f $pkg/zz_seed_demo_test.go server/append.aof.*; git checkout -q -- .
