"""Properties not (yet) claimed, with reasons; level texts for claimed ones."""

_PENDING = "check not built yet in this session (work in progress; see DESIGN.md section 8 order of work)"

NOT_APPLICABLE = {pid: _PENDING for pid in ["C%02d" % i for i in range(1, 21)]}

LEVEL_TEXT = {
    "C01": "Bounded model checking of the real LockDB.Lock/UnLock (and everything they reach) by symbolic execution: the grant rule is asserted at every new hold for every command of the core subset, from every state of a bounded shape (<=3 holders, <=2 queued requests, symbolic Count/Rcount/priority/depth, any outstanding-hold counter < 2^31) and for every 2-operation history from the empty database. Inside the bound the solver's verdict covers all values; outside it nothing is claimed.",
    "C14": "Bounded model checking of the real codec functions: all 2^512 input buffers per command type are one symbolic execution; round-trip and README offsets are assertions discharged by constant folding or z3.",
    "C20": "Bounded symbolic execution of the real queue code against a slice model for every operation program up to the stated length and every constructor parameter in the stated range.",
}

LEVEL_NOTE = {
    "C01": "Trusted: the symgo executor (validated per run by native replay of sampled path witnesses), z3. Schedules: single-threaded critical sections only (no interleaving of two requests inside LockDB.Lock is explored); time values drawn from classes {0,3}/{0,4}; millisecond flags and aof-timing flags fixed in these harnesses.",
    "C14": "Trusted: symgo, z3. crypto/md5 is an uninterpreted function.",
    "C20": "Trusted: symgo. Programs longer than the bound and constructor parameters above 3 are outside the claim.",
}
