"""Properties not (yet) claimed, with reasons; level texts for claimed ones."""

_UNUSED = "check not built yet in this session (work in progress; see DESIGN.md section 8 order of work)"

NOT_APPLICABLE = {}

LEVEL_TEXT = {
    "C01": "Bounded model checking of the real LockDB.Lock/UnLock (and everything they reach) by symbolic execution: the grant rule is asserted at every new hold for every command of the core subset, from every state of a bounded shape (<=3 holders, <=2 queued requests, symbolic Count/Rcount/priority/depth, any outstanding-hold counter < 2^31) and for every 2-operation history from the empty database. Inside the bound the solver's verdict covers all values; outside it nothing is claimed.",
    "C14": "Bounded model checking of the real codec functions: all 2^512 input buffers per command type are one symbolic execution; round-trip and README offsets are assertions discharged by constant folding or z3.",
    "C20": "Bounded symbolic execution of the real queue code against a slice model for every operation program up to the stated length and every constructor parameter in the stated range.",
}

LEVEL_TEXT.update({
    "C02": "Bounded model checking: one UNLOCK or re-entrant LOCK with symbolic LockId choice/Rcount/flags from every state of the bounded shape; ownership, error codes and depth arithmetic asserted against snapshots of the real holder list and the reply log.",
    "C03": "Bounded model checking (C03_step, C03_relock): reply accounting (exactly one terminal reply per request, at most one EXPRIED, right connection, no double free of command objects; EXPRIED goes to the connection and RequestId that last set the terms when a second connection re-locks/updates) after one arbitrary step (LOCK/UNLOCK/clock tick through the real sweeps) from every state of the bounded shape.",
    "C04": "Bounded model checking: after one arbitrary step from every state of the bounded shape, no admissible request is left at the head of the queue and no request overtook an earlier one of equal or higher priority (C04_step); wait queues of 3/140/150/260 entries crossing the inline->ring->priority-ring representations are drained hold by hold with exact grant order (C04_bigqueue).",
    "C17": "Bounded model checking: STATE counters and reply LCount/LRCount compared with a census of the real structures after one arbitrary step from every state of the bounded shape.",
})

LEVEL_TEXT.update({
    "C13": "Bounded model checking for crash freedom: every implicit Go run-time check in the code reached from a connection's input (value frames on LOCK/UNLOCK so far; see harness bounds) is an obligation; a feasible panic is replayed natively and must occur at the same source line. 17 crash sites in the value-operation code are recorded findings; a panic at any other site is a violation.",
})

LEVEL_TEXT.update({
    "C10": "Bounded model checking of the in-process kernel: a non-leader refuses every client LOCK/UNLOCK with STATE_ERROR and changes nothing (state, counters, log queue), applies the leader's stream identically to the leader, and keeps replicated holds past their deadline. One recorded finding (probable-lock shortcut).",
})

LEVEL_TEXT.update({
    "C05": "Bounded model checking: the deadline formula arrival+T+1 is proved for every 16-bit T and unit flag; firing exactly at the tick currentTime = arrival+T+1 (never earlier, hence within [T, T+2s]) is checked by driving the real sweeps second by second for T in 1..12 with grants and late unlocks injected at every tick.",
    "C06": "Bounded model checking: deadline formula grant+E+1 for every 16-bit E and flag; expiry exactly at the tick grant+E+1 with one EXPRIED, capacity freed and the queued request served, period restart on re-lock, unlimited never ends (E in 1..12 through the real sweeps); update window (ignored only within one unit) for every E1, E2.",
})

LEVEL_TEXT.update({
    "C08": "Bounded model checking of the real loader over a file model: for a log of <=3 records with symbolic bytes and every cut offset, loading succeeds and delivers exactly the complete records before the cut, byte for byte; a record appended after the restart is checked on the second restart (recorded finding for cuts inside a record).",
})

LEVEL_TEXT.update({
    "C07": "Bounded model checking of the real persist-and-reload chain over the file model: for every 16-bit expiry, unit and aof-timing flag, Count/Rcount, depth 1..2 and five outage lengths, exactly the persisted still-live hold comes back with the same LockId/Count/Rcount/depth and a deadline within one unit plus a second; never-persist holds do not come back, expired ones do not either.",
})

LEVEL_TEXT.update({
    "C16": "Bounded model checking / fault enumeration inside the executor: the real compaction runs over a file model and every directory image after each of its mutations is recovered by a fresh instance; recovered holds must equal those of the pre-compaction image. One recorded finding (inputs removed before the rename).",
})

LEVEL_TEXT.update({
    "C11": "Bounded model checking of the acknowledgement protocol on the leader: SUCCED exactly when the configured number of acknowledgements (leader flush report + follower acks) has arrived, never before, exactly once; LOCK_ACK_WAITING for the same LockId meanwhile; on a negative ack or the wait timing out exactly one error reply, hold removed and the queued request served.",
})

LEVEL_TEXT.update({
    "C09": "Bounded model checking of the replication ring only (the in-process kernel of the property): every record a consumer pops is the successor of the previous one, a gap surfaces as the 'out of buf' error and only when the consumer's position has left the ring, end-of-stream only when everything was read, size accounting exact.",
})

LEVEL_TEXT.update({
    "C12": "Bounded model checking of the acceptor kernel: numbers never decrease; a proposal is accepted only above both numbers, with no outstanding commit, no online leader, and no newer log at this member or any known member; a commit only for the accepted number and once; two overlapping candidacies never both get this acceptor's commit (all 5-delivery sequences); CompareAofId antisymmetric. Recorded finding: accepted commits are not persisted across a restart.",
})

LEVEL_TEXT.update({
    "C18": "Bounded model checking of the disconnect kernel: wills run only at Close, exactly once, in registration order (observable through an exclusive key), a second Close changes nothing, the connection's holds stay, its queued request ends by timeout without leaking counters, and a reply for a closed client goes to the client with the same client id or nowhere (symbolic ids).",
})

LEVEL_TEXT.update({
    "C19": "Bounded model checking of the composition 'client primitive builds the command' o 'server admits it': Lock exclusive, RLock re-entrant for its holder only with as many unlocks as locks, Semaphore(n)/MaxConcurrentFlow(n) admit exactly n (symbolic n), RWLock one writer or many readers.",
})

LEVEL_TEXT.update({
    "C15": "Bounded differential model checking: after each of 3 value operations the stored value (decoded with the real accessors) equals the reference interpreter's, the reply carries the value from before the operation, and a refused request leaves it unchanged and reports it.",
})

LEVEL_NOTE = {
    "C01": "Trusted: the symgo executor (validated per run by native replay of sampled path witnesses), z3. Schedules: single-threaded critical sections only (no interleaving of two requests inside LockDB.Lock is explored); time values drawn from classes {0,3}/{0,4}; millisecond flags and aof-timing flags fixed in these harnesses.",
    "C02": "Trusted: symgo (validated by native replay of sampled witnesses), z3. Single-threaded critical sections; holder list shapes <=3 (inline queue only); show/update flags excluded here (C06).",
    "C03": "Trusted: symgo, z3. In-memory protocol (MemWaiterServerProtocol) only: the socket write path and text-protocol lockWaiter hand-off are outside; require-ack flag excluded (C11); no interleaving of two threads.",
    "C04": "Trusted: symgo, z3. Symbolic shapes have <=2 queued entries; the long queues of C04_bigqueue use concrete commands (one priority level plus one other). Two recorded findings (known_findings.json).",
    "C17": "Trusted: symgo, z3. One key, one shard; free collectors outside; the drain phase is checked only over the single step.",
    "C05": "Millisecond-flag timeouts (wall-clock wheel and its goroutines) and waits longer than 12 s in the simulation are outside; larger T are covered only by the symbolic deadline formula plus the long-table sweep exercised at T > 8. One shard, one key.",
    "C06": "Millisecond-flag expiries, updates that shorten a wheel entry (the 10 s clause) and follower deferral (C10) are outside. One shard, one key.",
    "C07": "One key and one hold per run; value payloads, updates, several databases, file rotation (C16) and the AofChannel goroutine / 200 ms timer are outside; millisecond flag excluded. Arithmetic obligations that z3 cannot decide in 3 s go to cvc5 --solve-bv-as-int=sum.",
    "C16": "Crash images exist only in the executor's file model (C16_crash has no native replay; C16_renamefail is the native twin of its finding). One small history; appends concurrent with the compaction and the admin/start-up triggers are outside; contents of holds limited to key/LockId/depth.",
    "C08": "File model: full reads and whole-buffer writes; records without attached values (the value file is empty); real disks, fsync and page-cache reordering are outside. LoadAofFiles is driven directly (not Aof.LoadAndInit).",
    "C09": "Kernel only: sockets, file transfer (sendFiles/recvFiles), handleInitSync's protobuf decision, the follower's replay/append/re-publish pipelines and the convergence of two real nodes are outside this check (nothing in the executor models two processes).",
    "C10": "Kernel only: Server.checkProtocol/handle choosing the forwarding wrapper, the TCP connection to the leader, the relay of frames by Transparency*ServerProtocol and the text-protocol relay are outside this check (no sockets in the executor).",
    "C11": "Reading of 'written to the leader's own log': handed to the log by Aof.PushLock; in majority mode with two followers their two acknowledgements complete the lock before the leader's flush report (reach tag succed-before-flush-report) — counted as satisfying the configured number. Value operations with rollback, demotion (SwitchToFollower/FlushDB) and grants from the wait queue are outside this harness.",
    "C12": "Kernel only: the remote handlers (same rules behind protobuf decoding), ArbiterVoter.DoVote's candidate choice and majority counting over goroutines, 3..5-process clusters and the kill -9 experiment are outside this check.",
    "C18": "Kernel only: binary protocol; the text protocol's Close and lockWaiter hand-off, re-entrant Close from inside a will's reply, and how the OS reports a closed socket are outside.",
    "C19": "Kernel only: TCP transport, request/response matching, reconnects, forwarding through a follower, concurrency of goroutines, PriorityLock hand-over and Event.Wait are outside this check.",
    "C15": "Payloads <= 3 bytes, arrays <= 3 items, sequences of 3 operations on LOCK requests only (not on unlock / update / re-lock); PIPELINE, property headers, first-or-last flag and the Redis-style text commands are outside this check; kind-mismatched operations unasserted.",
    "C13": "Trusted: symgo, z3. Frames <= 8 bytes; paths that would allocate more than 300 distinct sizes are cut (listed as unsupported in the evidence); text handlers, CALL and the 64-byte header parser are covered by separate harnesses where registered.",
    "C14": "Trusted: symgo, z3. crypto/md5 is an uninterpreted function.",
    "C20": "Trusted: symgo. Programs longer than the bound and constructor parameters above 3 are outside the claim.",
}
