"""Properties not (yet) claimed, with reasons; level texts for claimed ones."""

_UNUSED = "check not built yet in this session (work in progress; see DESIGN.md section 8 order of work)"

NOT_APPLICABLE = {}

LEVEL_TEXT = {
    "C01": "Bounded model checking of the real LockDB.Lock/UnLock (and everything they reach) by symbolic execution: the grant rule is asserted at every new hold for every command of the core subset, from every state of a bounded shape (<=3 holders, <=2 queued requests, symbolic Count/Rcount/priority/depth, any outstanding-hold counter < 2^31) and for every 2-operation history from the empty database. Inside the bound the solver's verdict covers all values; outside it nothing is claimed.",
    "C14": "Bounded model checking of the real codec functions: all 2^512 input buffers per command type are one symbolic execution; round-trip and README offsets are assertions discharged by constant folding or z3.",
    "C20": "Bounded symbolic execution of the real queue code against a slice model for every operation program up to the stated length and every constructor parameter in the stated range.",
}

LEVEL_TEXT.update({
    "C02": "Bounded model checking: one UNLOCK or re-entrant LOCK with symbolic LockId choice/Rcount/flags from every state of the bounded shape; ownership, error codes and depth arithmetic asserted against snapshots of the real holder list and the reply log.",
    "C03": "Bounded model checking (C03_step, C03_relock): reply accounting (exactly one terminal reply per request, at most one EXPRIED, right connection, no double free of command objects; EXPRIED goes to the connection and RequestId that last set the terms when a second connection re-locks/updates) after one arbitrary step (LOCK/UNLOCK/clock tick through the real sweeps) from every state of the bounded shape.",
    "C04": "Bounded model checking: after one arbitrary step from every state of the bounded shape, no admissible request is left at the head of the queue and no request overtook an earlier one of equal or higher priority (C04_step); wait queues of 3/140/150/260 entries crossing the inline->ring->priority-ring representations are drained hold by hold with exact grant order (C04_bigqueue).",
    "C17": "Bounded model checking: STATE counters and reply LCount/LRCount compared with a census of the real structures after one arbitrary step from every state of the bounded shape.",
})

LEVEL_TEXT.update({
    "C13": "Bounded model checking for crash freedom: every implicit Go run-time check in the code reached from a connection's input (value frames on LOCK/UNLOCK so far; see harness bounds) is an obligation; a feasible panic is replayed natively and must occur at the same source line. 17 crash sites in the value-operation code are recorded findings; a panic at any other site is a violation.",
})

LEVEL_TEXT.update({
    "C10": "Bounded model checking of the in-process kernel: a non-leader refuses every client LOCK/UNLOCK with STATE_ERROR and changes nothing (state, counters, log queue), applies the leader's stream identically to the leader, and keeps replicated holds past their deadline. One recorded finding (probable-lock shortcut).",
})

LEVEL_TEXT.update({
    "C05": "Bounded model checking: the deadline formula arrival+T+1 is proved for every 16-bit T and unit flag; firing exactly at the tick currentTime = arrival+T+1 (never earlier, hence within [T, T+2s]) is checked by driving the real sweeps second by second for T in 1..12 with grants and late unlocks injected at every tick.",
    "C06": "Bounded model checking: deadline formula grant+E+1 for every 16-bit E and flag; expiry exactly at the tick grant+E+1 with one EXPRIED, capacity freed and the queued request served, period restart on re-lock, unlimited never ends (E in 1..12 through the real sweeps); update window (ignored only within one unit) for every E1, E2.",
})

LEVEL_TEXT.update({
    "C08": "Bounded model checking of the real loader over a file model: for a log of <=3 records with symbolic bytes and every cut offset, loading succeeds and delivers exactly the complete records before the cut, byte for byte; a record appended after the restart is checked on the second restart (recorded finding for cuts inside a record).",
})

LEVEL_TEXT.update({
    "C07": "Bounded model checking of the real persist-and-reload chain over the file model: for every 16-bit expiry, unit and aof-timing flag, Count/Rcount, depth 1..2 and five outage lengths, exactly the persisted still-live hold comes back with the same LockId/Count/Rcount/depth and a deadline within one unit plus a second; never-persist holds do not come back, expired ones do not either.",
})

LEVEL_TEXT.update({
    "C16": "Bounded model checking / fault enumeration inside the executor: the real compaction runs over a file model and every directory image after each of its mutations is recovered by a fresh instance; recovered holds must equal those of the pre-compaction image. One recorded finding (inputs removed before the rename).",
})

LEVEL_TEXT.update({
    "C11": "Bounded model checking of the acknowledgement protocol on the leader: SUCCED exactly when the configured number of acknowledgements (leader flush report + follower acks) has arrived, never before, exactly once; LOCK_ACK_WAITING for the same LockId meanwhile; on a negative ack or the wait timing out exactly one error reply, hold removed and the queued request served.",
})

LEVEL_TEXT.update({
    "C09": "Bounded model checking of the replication ring only (the in-process kernel of the property): every record a consumer pops is the successor of the previous one, a gap surfaces as the 'out of buf' error and only when the consumer's position has left the ring, end-of-stream only when everything was read, size accounting exact.",
})

LEVEL_TEXT.update({
    "C12": "Bounded model checking of the acceptor kernel: numbers never decrease; a proposal is accepted only above both numbers, with no outstanding commit, no online leader, and no newer log at this member or any known member; a commit only for the accepted number and once; two overlapping candidacies never both get this acceptor's commit (all 5-delivery sequences); CompareAofId antisymmetric. Recorded finding: accepted commits are not persisted across a restart.",
})

LEVEL_TEXT.update({
    "C18": "Bounded model checking of the disconnect kernel: wills run only at Close, exactly once, in registration order (observable through an exclusive key), a second Close changes nothing, the connection's holds stay, its queued request ends by timeout without leaking counters, and a reply for a closed client goes to the client with the same client id or nowhere (symbolic ids).",
})

LEVEL_TEXT.update({
    "C19": "Bounded model checking of the composition 'client primitive builds the command' o 'server admits it': Lock exclusive, RLock re-entrant for its holder only with as many unlocks as locks, Semaphore(n)/MaxConcurrentFlow(n) admit exactly n (symbolic n), RWLock one writer or many readers.",
})

LEVEL_TEXT.update({
    "C15": "Bounded differential model checking: after each of 3 value operations the stored value (decoded with the real accessors) equals the reference interpreter's, the reply carries the value from before the operation, and a refused request leaves it unchanged and reports it.",
})

LEVEL_NOTE = {
    "C01": "Trusted: the symgo executor (validated per run by native replay of sampled path witnesses), z3. Schedules: single-threaded critical sections only (no interleaving of two requests inside LockDB.Lock is explored); time values drawn from classes {0,3}/{0,4}; millisecond flags and aof-timing flags fixed in these harnesses.",
    "C02": "Trusted: symgo (validated by native replay of sampled witnesses), z3. Single-threaded critical sections; holder list shapes <=3 (inline queue only); show/update flags excluded here (C06).",
    "C03": "Trusted: symgo, z3. In-memory protocol (MemWaiterServerProtocol) only: the socket write path and text-protocol lockWaiter hand-off are outside; require-ack flag excluded (C11); no interleaving of two threads.",
    "C04": "Trusted: symgo, z3. Symbolic shapes have <=2 queued entries; the long queues of C04_bigqueue use concrete commands (one priority level plus one other). Two recorded findings (known_findings.json).",
    "C17": "Trusted: symgo, z3. One key, one shard; free collectors outside; the drain phase is checked only over the single step.",
    "C05": "Millisecond-flag timeouts (wall-clock wheel and its goroutines) and waits longer than 12 s in the simulation are outside; larger T are covered only by the symbolic deadline formula plus the long-table sweep exercised at T > 8. One shard, one key.",
    "C06": "Millisecond-flag expiries, updates that shorten a wheel entry (the 10 s clause) and follower deferral (C10) are outside. One shard, one key.",
    "C07": "One key and one hold per run; value payloads, updates, several databases, file rotation (C16) and the AofChannel goroutine / 200 ms timer are outside; millisecond flag excluded. Arithmetic obligations that z3 cannot decide in 3 s go to cvc5 --solve-bv-as-int=sum.",
    "C16": "Crash images exist only in the executor's file model (C16_crash has no native replay; C16_renamefail is the native twin of its finding). One small history; appends concurrent with the compaction and the admin/start-up triggers are outside; contents of holds limited to key/LockId/depth.",
    "C08": "File model: full reads and whole-buffer writes; records without attached values (the value file is empty); real disks, fsync and page-cache reordering are outside. LoadAofFiles is driven directly (not Aof.LoadAndInit).",
    "C09": "Kernel only: sockets, file transfer (sendFiles/recvFiles), handleInitSync's protobuf decision, the follower's replay/append/re-publish pipelines and the convergence of two real nodes are outside this check (nothing in the executor models two processes).",
    "C10": "Kernel only: Server.checkProtocol/handle choosing the forwarding wrapper, the TCP connection to the leader, the relay of frames by Transparency*ServerProtocol and the text-protocol relay are outside this check (no sockets in the executor).",
    "C11": "Reading of 'written to the leader's own log': handed to the log by Aof.PushLock; in majority mode with two followers their two acknowledgements complete the lock before the leader's flush report (reach tag succed-before-flush-report) — counted as satisfying the configured number. Value operations with rollback, demotion (SwitchToFollower/FlushDB) and grants from the wait queue are outside this harness.",
    "C12": "Kernel only: the remote handlers (same rules behind protobuf decoding), ArbiterVoter.DoVote's candidate choice and majority counting over goroutines, 3..5-process clusters and the kill -9 experiment are outside this check.",
    "C18": "Kernel only: binary protocol; the text protocol's Close and lockWaiter hand-off, re-entrant Close from inside a will's reply, and how the OS reports a closed socket are outside.",
    "C19": "Kernel only: TCP transport, request/response matching, reconnects, forwarding through a follower, concurrency of goroutines, PriorityLock hand-over and Event.Wait are outside this check.",
    "C15": "Payloads <= 3 bytes, arrays <= 3 items, sequences of 3 operations on LOCK requests only (not on unlock / update / re-lock); PIPELINE, property headers, first-or-last flag and the Redis-style text commands are outside this check; kind-mismatched operations unasserted.",
    "C13": "Trusted: symgo, z3. Frames <= 8 bytes; paths that would allocate more than 300 distinct sizes are cut (listed as unsupported in the evidence); text handlers, CALL and the 64-byte header parser are covered by separate harnesses where registered.",
    "C14": "Trusted: symgo, z3. crypto/md5 is an uninterpreted function.",
    "C20": "Trusted: symgo. Programs longer than the bound and constructor parameters above 3 are outside the claim.",
}

# ---- texts as of the end of the build (they replace the earlier ones above) ----
LEVEL_TEXT.update({
 "C01": "Bounded model checking of the real LockDB.Lock/UnLock (and everything they reach) by symbolic execution: the grant rule is asserted at every new hold for every command of the core subset, from every state of a bounded shape (<=3 holders, <=2 queued requests, symbolic Count/Rcount/priority/depth, any outstanding-hold counter < 2^31), for every 2-operation history from the empty database (3 in the thorough tier), and on keys whose manager lives in the ordinary key map (long-expiry downgrade, fast-slot collision).",
 "C02": "Bounded model checking: one UNLOCK or re-entrant LOCK with symbolic LockId choice/Rcount/flags from every state of the bounded shape (incl. a free key with a parked request, persisted holders, released-holder tombstones) and on a key with 300 holders; ownership, error codes, cancel-wait and depth arithmetic asserted against snapshots of the real holder list and the reply log.",
 "C03": "Bounded model checking of reply accounting (exactly one terminal reply per request, at most one EXPRIED, right connection and RequestId, no double free) after one arbitrary step (LOCK/UNLOCK/clock tick through the real sweeps) from every state of the bounded shape; plus scripted connection scenarios through the real protocol objects: re-lock from a second connection, cancel of queued requests, millisecond waits, a text connection around an expiring hold and around PUSH commands, two reconnects under one client id.",
 "C04": "Bounded model checking: after one arbitrary step (clock steps second by second) from every state of the bounded shape no admissible request is left at the head of the queue, no request overtook an earlier one of equal or higher priority, and the queue's service order is priority first, arrival among equals; wait queues of 3..260 entries crossing the inline/ring/priority-ring representations are drained with exact grant order.",
 "C05": "Bounded model checking: the deadline formula for every 16-bit T and unit flag; firing exactly at tick arrival+T+1 by driving the real sweeps second by second (T in 1..12; 1..64 thorough) with grants and late unlocks at every tick; long-wait buckets with several entries; millisecond waits at listed values, with the arrival at 0/150/850/999 ms inside the server's second; the unlock-then-wait path.",
 "C06": "Bounded model checking: deadline formula for every 16-bit E and flag; expiry exactly at tick grant+E+1 with one EXPRIED, capacity freed and the queue served, period restart on re-lock, unlimited never ends; update window for every E1, E2; long-expiry buckets; millisecond holds at listed values and arrival offsets; holds granted from the wait queue (period starts at the grant).",
 "C07": "Bounded model checking of the real persist-and-reload chain over the file model: for every 16-bit expiry, unit and persistence-timing flag, Count/Rcount, depth 1..2 and five outage lengths exactly the persisted still-live hold comes back with the same terms and a deadline within one unit plus a second; histories of re-entrant holds; values; several holders with their own timing; millisecond and share-of-expiry holds; values of holds that follow a run-out valued hold.",
 "C08": "Bounded model checking of the real loader over a file model: a log of <=3 records (5 thorough) with symbolic bytes cut at every byte, with and without values, with the read buffer scaled down so that every record straddles it; the log position read from a torn tail; a record appended after the restart checked on the second restart (recorded finding for cuts inside a record).",
 "C09": "Bounded model checking of the in-process kernel of replication: the ring under every push/pop/resume program of 6 operations (8 thorough); what the leader writes to its log files is what it publishes on the ring (with rotation); a follower-state instance applying the ring converges to the leader's holds, depths and values; the follower's side of the handshake (real ReplicationClient.InitSync against a scripted leader: ERR_NOT_FOUND resynchronises from scratch, a cut before the first record starts over) and the leader's file phase (real sendFiles stops exactly at the announced position).",
 "C10": "Bounded model checking of the in-process kernel: a non-leader refuses every client LOCK/UNLOCK with STATE_ERROR and changes nothing, also through the real binary protocol object with any flag byte; it applies the leader's stream identically to the leader, keeps 1..3 replicated holds past their deadline, and after a demotion does not grant the client requests it still has queued. Two recorded findings.",
 "C11": "Bounded model checking of the acknowledgement protocol on the leader: SUCCED exactly when the configured number of acknowledgements has arrived, never before, exactly once; LOCK_ACK_WAITING for the same LockId (and for an unlock-first that would hit the pending hold) meanwhile; on a negative ack or the wait timing out exactly one error reply, hold removed, value operation undone, the queued request served; all <=4-event sequences (5 thorough).",
 "C12": "Bounded model checking of the election kernel: acceptor rules for every number and log position (self and remote handlers); two overlapping candidacies never both get this acceptor's commit (all 5-delivery sequences, 7 thorough); the candidate's choice in DoVote; the order of log positions against the real log writer with rotation; the candidate's own acceptor state while a foreign candidacy is delivered during its proposal / before its commit round. One recorded finding (accepted commits are not persisted).",
 "C13": "Bounded model checking for crash freedom: every implicit Go run-time check in the code reached from a connection's input is an obligation: value frames on LOCK/UNLOCK, any 64-byte binary frame, programs of 3 binary frames (4 thorough) and 3 text commands, every registered text key-value/keyspace/session command with <=3-4 arguments, the text parser on arbitrary bytes, the buffered reply path, the CALL LIST_* handlers with any db_id, the connection's stream buffer under every 4-read program. 17 crash sites in the value-operation code are recorded findings; a panic at any other site is a violation.",
 "C14": "Bounded model checking of the real codec functions: all 2^512 input buffers per command type are one symbolic execution; round trip and README offsets; text parser under every 3-read chunking; the server's hand-inlined decoder/encoder against the protocol package; key/id normalisation for every string of 0..64 bytes; text LOCK options for all digit strings; every result code rendered and parsed back.",
 "C15": "Bounded differential model checking: after each of 3 value operations (4 thorough; with and without property blocks; also inside a PIPELINE frame, on unlock, re-lock and refused requests) the stored value equals a reference interpreter's and the reply carries the value from before; every 3-command program of 16 Redis-style text commands (4 thorough) against a map. Recorded findings for EXPIRE/PERSIST on absent keys, SETNX-created keys and INCR on SET values.",
 "C16": "Bounded model checking / fault enumeration inside the executor: the real compaction over a file model; every directory image after each of its mutations recovered by a fresh instance; a second compaction; a compaction after an interrupted one; updated terms (also of priority holds) and values across compaction. Recorded findings: inputs removed before the rename, the two-step rename, values of released holds.",
 "C17": "Bounded model checking: STATE counters and reply LCount/LRCount compared with a census of the real structures after one arbitrary step from every state of the bounded shape; drain scenarios: keys on the fast and the ordinary key table with values, re-entrant holds in the long-expiry table, shared keys released out of order.",
 "C18": "Bounded model checking of the disconnect kernel through the real protocol objects: wills run only at Close, exactly once, in order (binary, text, and the ADMIN text sub-session; 0..6 wills; Close must return); holds stay; queued requests end without leaking; a reply for a closed client goes to the connection that speaks for the same client id or nowhere (symbolic ids, repeated INIT, two reconnects, a connection that never announced an id, a reply routed during another connection's will drain).",
 "C19": "Bounded model checking of the composition 'client primitive builds the command' o 'server admits it': Lock exclusive, RLock re-entrant for its holder only, Semaphore(n)/MaxConcurrentFlow(n) admit exactly n (symbolic n; Release and ReleaseN), RWLock one writer or many readers (plain and ...WithData calls), Event as a boolean under every 4-op program, PriorityLock hand-over by priority.",
 "C20": "Bounded symbolic execution of the real queue code against slice / stable-priority-queue models for every operation program up to the stated length: LockQueue and its two copies, the ring and priority ring, the per-key wait queue (both constructor modes, Reset) and holder queue pre-filled up to 300 entries, the long-wait bucket queue with its restructuring (scaled geometry).",
})
LEVEL_NOTE.update({
 "C01": "Trusted: the symgo executor (validated per run by native replay of sampled path witnesses), z3. Single-threaded critical sections only (no interleaving of two requests inside LockDB.Lock or in the lock-free key table); one recorded finding (Count 0xffff on both sides is unlimited).",
 "C02": "Trusted: symgo, z3. Single-threaded critical sections; symbolic shapes have <=3 holders (4 thorough); show/update flags excluded here (C06). One recorded finding (unlock-first takes the hold's Rcount).",
 "C03": "Trusted: symgo, z3. No sockets: connections are in-memory net.Conn stubs behind the real protocol objects; require-ack excluded (C11); no interleaving of two threads (the text connection's request filter is written and read by different goroutines in the server).",
 "C04": "Trusted: symgo, z3. Symbolic shapes have <=2 queued entries (3 thorough) plus the step's; two recorded findings (no wake-up after the head left the queue / after a holder's terms changed).",
 "C05": "Millisecond harnesses have no native replay (the sweeper is a sleeping goroutine natively; the executor runs the recorded goroutine at its slot time). One shard, one key. Sweeper latency is outside.",
 "C06": "As C05; the shortening clause (10 s) is outside. One recorded finding (a millisecond hold below 3 s is not moved by a re-lock).",
 "C07": "File model: full reads and whole-buffer writes. Rotation and compaction are C16's; the AofChannel goroutine / 200 ms timer are replaced by explicit drains. Two recorded findings (later holders inherit the first holder's persistence timing; a re-entrant level whose own record ran out is dropped).",
 "C08": "File model; real disks, fsync and page-cache reordering are outside; both files torn at once is outside. LoadAofFiles is driven directly (not Aof.LoadAndInit). Three recorded findings of one defect (a torn tail is appended to).",
 "C09": "Kernel only: no sockets and no second process; the handshake harnesses script the peer's bytes; file transfer with files, the follower's replay/append/re-publish goroutines and reconnect patterns beyond the two scripted ones are outside; concurrent writers inside PushLock (seed C09d) cannot be decided without a scheduler.",
 "C10": "Kernel only: Server.checkProtocol/handle choosing the forwarding wrapper, the TCP connection to the leader and the relay of frames by Transparency*ServerProtocol are outside (no sockets in the executor).",
 "C11": "Reading of 'written to the leader's own log': handed to the log by Aof.PushLock; the flush report and each follower's acknowledgement count alike towards the configured number. Follower side and duplicate frames of one follower are outside. One recorded finding (never-persist first holder disables the ack requirement for later holders).",
 "C12": "Kernel only: ArbiterClient.Request is stubbed (the two candidate harnesses and C12_vote have no native replay); 3..5-process clusters and the kill -9 experiment are outside; log positions more than 2^31 files apart are outside.",
 "C13": "Trusted: symgo, z3. Frames <= 8 bytes; arguments from a small alphabet with symbolic ASCII bytes; admin text commands, CALL handlers other than LIST_* and the arbiter's, malformed protobuf bodies are outside; paths that would allocate more than 300 distinct sizes are cut (listed as unsupported in the evidence).",
 "C14": "Trusted: symgo, z3 (cvc5 --solve-bv-as-int=sum for the digit-string harnesses). crypto/md5 is an uninterpreted function. 64 KiB arguments, the client-side text protocol and text value options on LOCK are outside.",
 "C15": "Payloads <= 3 bytes, arrays <= 3 items; nested pipelines, EXECUTE and kind-mismatched operations are unasserted.",
 "C16": "Crash images exist only in the executor's file model (C16_crash / C16_stale have no native replay; C16_renamefail and C16_staletmp are native twins). Appends concurrent with the compaction and the start-up race of LoadAndInit are outside.",
 "C17": "Trusted: symgo, z3. One shard; free collectors outside.",
 "C18": "Kernel only: how the OS reports a closed socket, close racing a pending grant and re-entrant Close are outside; the Transparency wrappers' Close is outside.",
 "C19": "Kernel only: TCP transport, request/response matching, reconnects, forwarding through a follower and goroutine concurrency are outside (calls are sequential; a call that would block returns to the harness).",
 "C20": "Trusted: symgo. Programs longer than the bound and constructor parameters above 3 are outside the claim; the long-wait bucket is checked at a scaled-down geometry (4 node slots for 64).",
})
