#!/usr/bin/env python3
"""Regenerates MANIFEST.json from checks.py (claimed properties) and na.py (not applicable)."""
import json, os, sys
ROOT = os.path.dirname(os.path.abspath(__file__))
sys.path.insert(0, ROOT)
from checks import CHECKS
from na import NOT_APPLICABLE, LEVEL_TEXT, LEVEL_NOTE

import subprocess
HOOK_COMMITS = subprocess.check_output(['git','-C','/repo','log','--format=%H','--grep=^verif hooks','--reverse']).decode().split()
props = [json.loads(l) for l in open(os.path.join(ROOT, "properties.jsonl"))]
ids = [p["id"] for p in props]
checks = []
for pid in ids:
    if pid not in CHECKS:
        continue
    spec = CHECKS[pid]
    hs = [h["name"] for h in spec["harnesses"]]
    checks.append(dict(
        property_id=pid,
        quick_cmd="./vf check %s --tier quick" % pid,
        thorough_cmd="./vf check %s --tier thorough" % pid,
        evidence_file="evidence/%s.json" % pid,
        replay_cmd_template="./vf replay {path}",
        engine="symgo",
        level_claimed=dict(category="model_checking", text=LEVEL_TEXT.get(pid, ""), design_ref="DESIGN.md section 4, " + pid),
        level_note=LEVEL_NOTE.get(pid, ""),
        technique="bounded symbolic execution of the real Go code from go/ssa into SMT-LIB2 (bit-vectors), decided by z3 (cvc5 second opinion in the thorough tier); counterexamples replayed natively; harnesses: " + ", ".join(hs),
    ))
na = [dict(property_id=pid, reason=NOT_APPLICABLE[pid]) for pid in ids if pid not in CHECKS]
m = dict(
    version=1,
    setup_cmd="cd symgo && GOFLAGS=-mod=mod GOPROXY=off GOSUMDB=off GOTOOLCHAIN=local go build -o ../bin/symgo .",
    hooks=dict(guard="verif", enable="go build tag: -tags verif (symgo loads /repo with BuildFlags -tags=verif; native replays run go test -tags verif). The hooks are two variables in server/verif_hooks_on.go (constants false in verif_hooks_off.go): vfNoBackground, tested at the top of LockDB.startCheckLoop and AofChannel.Run, and vfSingleRound, tested at the end of a round of the sweeper loops LockDB.checkTimeOut / checkExpried; harness code itself is injected with overlays and never written into /repo",
               baseline_off_cmd="cd /repo && GOFLAGS=-mod=mod GOPROXY=off go test -vet=off -count=1 ./protocol/... ./server/...",
               source_commits=HOOK_COMMITS, add_only=True),
    engines=[dict(name="symgo", path="symgo/", serves_properties=[c["property_id"] for c in checks],
                  kind_free_text="own SSA-level symbolic executor for Go (go/ssa -> SMT-LIB2 bit-vector terms, z3/cvc5 back ends), path exploration by re-execution, if-conversion of pure diamonds, native replay of every counterexample and of sampled path witnesses")],
    checks=checks,
    not_applicable=na,
    notes="All checks are bounded; bounds are listed per harness in evidence/<id>.json (coverage.harnesses[].bound) and in DESIGN.md. A property not yet claimed is listed under not_applicable with the reason.",
)
json.dump(m, open(os.path.join(ROOT, "MANIFEST.json"), "w"), indent=1)
print("claimed:", [c["property_id"] for c in checks], "n/a:", [x["property_id"] for x in na])
