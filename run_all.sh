#!/bin/sh
# regenerate every claimed check's evidence (quick tier) against /repo
cd /verif
for p in $(python3 -c "import json;print(' '.join(c['property_id'] for c in json.load(open('MANIFEST.json'))['checks']))"); do
  echo "== $p"; ./vf check $p --tier ${1:-quick} | grep -v "^KNOWN-FINDING" | tail -4 | cut -c1-300
done
