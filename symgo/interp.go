package main

// The SSA interpreter.  Structure follows golang.org/x/tools/go/ssa/interp,
// with integers/bools replaced by SMT terms and every implicit Go runtime
// check turned into a fork (panic path / continuing path).

import (
	"fmt"
	"go/constant"
	"go/token"
	"go/types"
	"os"
	"runtime/debug"
	"strings"
	"sync"

	"golang.org/x/tools/go/ssa"
)

func goStack() string { return string(debug.Stack()) }

type deferred struct {
	fn    Value
	args  []Value
	instr *ssa.Defer
}

type frame struct {
	e         *Exec
	fn        *ssa.Function
	caller    *frame
	env       map[ssa.Value]Value
	block     *ssa.BasicBlock
	prev      *ssa.BasicBlock
	phiDone   bool
	defers    []deferred
	result    Value
	panicking bool
	panicVal  targetPanic
	lastPos   token.Pos
}

func (fr *frame) get(v ssa.Value) Value {
	switch v := v.(type) {
	case nil:
		return nil
	case *ssa.Function:
		return v
	case *ssa.Builtin:
		return v
	case *ssa.Const:
		return fr.e.constValue(v)
	case *ssa.Global:
		return fr.e.global(v)
	}
	if r, ok := fr.env[v]; ok {
		return r
	}
	panic(fmt.Sprintf("get: no value for %T %s in %s", v, v.Name(), fr.fn))
}

func (e *Exec) constValue(c *ssa.Const) Value {
	t := c.Type()
	if c.Value == nil {
		return e.zero(t)
	}
	switch ut := t.Underlying().(type) {
	case *types.Basic:
		switch {
		case ut.Info()&types.IsBoolean != 0:
			return e.ts.Bool(constant.BoolVal(c.Value))
		case ut.Info()&types.IsInteger != 0:
			w := intWidth(ut)
			if i, ok := constant.Int64Val(constant.ToInt(c.Value)); ok {
				return e.ts.Const(w, uint64(i))
			}
			u, _ := constant.Uint64Val(constant.ToInt(c.Value))
			return e.ts.Const(w, u)
		case ut.Info()&types.IsFloat != 0:
			f, _ := constant.Float64Val(c.Value)
			return Float{v: f}
		case ut.Info()&types.IsString != 0:
			if c.Value.Kind() == constant.String {
				return constant.StringVal(c.Value)
			}
			return string(rune(c.Int64()))
		}
	}
	panic(fmt.Sprintf("constValue: unsupported %v : %v", c, t))
}

var initWhitelist = map[string]bool{
	"io": true, "errors": true, "bufio": true, "bytes": true, "strings": true, "strconv": true,
	"encoding/hex": true, "encoding/binary": true, "unicode/utf8": true, "math/bits": true,
	"sort": true, "path/filepath": true, "path": true, "io/fs": true,
}

func (e *Exec) initAllowed(p *ssa.Package) bool {
	if p == nil {
		return false
	}
	path := p.Pkg.Path()
	if initWhitelist[path] {
		return true
	}
	if strings.HasPrefix(path, "github.com/snower/slock") && !strings.Contains(path, "protobuf") {
		return true
	}
	return false
}

func (e *Exec) ensureInit(p *ssa.Package) {
	if p == nil || e.inited[p] {
		return
	}
	e.inited[p] = true
	if !e.initAllowed(p) {
		return
	}
	buildPkg(p)
	if init := p.Func("init"); init != nil && init.Blocks != nil {
		save := e.callStack
		e.callSSA(init, nil, nil)
		e.callStack = save
	}
}

var buildMu sync.Mutex
var built = map[*ssa.Package]bool{}

func buildPkg(p *ssa.Package) {
	buildMu.Lock()
	if !built[p] {
		p.Build()
		built[p] = true
	}
	buildMu.Unlock()
}

func (e *Exec) global(g *ssa.Global) *Value {
	if p, ok := e.globals[g]; ok {
		return p
	}
	p := new(Value)
	*p = e.zero(g.Type().(*types.Pointer).Elem())
	e.globals[g] = p
	e.ensureInit(g.Pkg)
	return p
}

// ---------------------------------------------------------------------------

func (e *Exec) srcLine(pos token.Pos) (string, string) {
	if !pos.IsValid() {
		return "?", ""
	}
	p := e.prog.Fset.Position(pos)
	where := fmt.Sprintf("%s:%d", p.Filename, p.Line)
	return where, sourceLine(p.Filename, p.Line)
}

var srcMu sync.Mutex
var srcCache = map[string][]string{}

func sourceLine(file string, line int) string {
	srcMu.Lock()
	defer srcMu.Unlock()
	ls, ok := srcCache[file]
	if !ok {
		if b := overlayContent(file); b != nil {
			ls = strings.Split(string(b), "\n")
		} else if b, err := os.ReadFile(file); err == nil {
			ls = strings.Split(string(b), "\n")
		}
		srcCache[file] = ls
	}
	if line-1 < len(ls) && line >= 1 {
		return strings.TrimSpace(ls[line-1])
	}
	return ""
}

func (fr *frame) throw(kind string, instr ssa.Instruction) {
	pos := token.NoPos
	if instr != nil {
		pos = instr.Pos()
	}
	if !pos.IsValid() {
		pos = fr.lastPos
	}
	where, expr := fr.e.srcLine(pos)
	panic(targetPanic{v: "runtime error: " + kind, kind: kind, where: where, expr: expr, fn: fr.fn.String()})
}

// ---------------------------------------------------------------------------

func (e *Exec) call(fn Value, args []Value) Value {
	switch f := fn.(type) {
	case *ssa.Function:
		if f == nil {
			panic(targetPanic{v: "runtime error: nil func call", kind: "nil func call", fn: e.curFn()})
		}
		return e.callFunc(f, args, nil)
	case *Closure:
		return e.callFunc(f.fn, args, f.env)
	case *ssa.Builtin:
		return e.callBuiltin(nil, f, args, nil)
	case *Native:
		return f.fn(e, args)
	}
	panic(fmt.Sprintf("call of %T", fn))
}

func (e *Exec) curFn() string {
	if n := len(e.callStack); n > 0 {
		return e.callStack[n-1].String()
	}
	return "?"
}

func (e *Exec) callFunc(fn *ssa.Function, args []Value, env []Value) Value {
	if fn.Synthetic == "package initializer" {
		// dependency initialisers are run lazily, on first use of a global
		return nil
	}
	name := fn.String()
	if len(e.spec) > 0 {
		if _, isStub := stubs[name]; isStub || fn.Blocks == nil || fn.Recover != nil || len(e.callStack) > 300 ||
			(fn.Pkg == e.x.hpkg && strings.HasPrefix(fn.Name(), "vf")) {
			panic(specAbort{"call not allowed in a speculated region"})
		}
		if _, isPre := prefixStubs(name); isPre {
			panic(specAbort{"stub call in a speculated region"})
		}
		return e.callSSA(fn, args, env)
	}
	if fn.Pkg == e.x.hpkg && strings.HasPrefix(fn.Name(), "vf") {
		if h, ok := intrinsics[fn.Name()]; ok {
			return h(e, fn, args)
		}
	}
	if st, ok := stubs[name]; ok {
		e.stubs[name] = true
		return st(e, fn, args)
	}
	if rd := e.redirect(fn); rd != nil {
		e.stubs[name+" -> "+rd.Name()] = true
		return e.callSSA(rd, args, nil)
	}
	if fn.Blocks == nil {
		if fn.Pkg != nil {
			buildPkg(fn.Pkg)
		}
		if fn.Blocks == nil {
			panic(unsupported("no body for %s", name))
		}
	}
	if pre, ok := prefixStubs(name); ok {
		e.stubs[name] = true
		return pre(e, fn, args)
	}
	return e.callSSA(fn, args, env)
}

// redirect: a method (*T).M of the harness's package is replaced by the harness function
// vfStub_T_M(recv, args...) when the harness defines one (environment stub written in Go, e.g. a
// network request answered in process).  Such harnesses have no native replay.  The table is
// built once (buildRedirects) and read-only afterwards.
func (e *Exec) redirect(fn *ssa.Function) *ssa.Function {
	if len(e.x.redirects) == 0 {
		return nil
	}
	return e.x.redirects[fn]
}

func buildRedirects(prog *ssa.Program, hpkg *ssa.Package) map[*ssa.Function]*ssa.Function {
	out := map[*ssa.Function]*ssa.Function{}
	for name, mem := range hpkg.Members {
		f, ok := mem.(*ssa.Function)
		if !ok || !strings.HasPrefix(name, "vfStub_") {
			continue
		}
		parts := strings.SplitN(strings.TrimPrefix(name, "vfStub_"), "_", 2)
		if len(parts) != 2 {
			continue
		}
		tn, ok := hpkg.Pkg.Scope().Lookup(parts[0]).(*types.TypeName)
		if !ok {
			continue
		}
		ms := prog.MethodSets.MethodSet(types.NewPointer(tn.Type()))
		for i := 0; i < ms.Len(); i++ {
			if ms.At(i).Obj().Name() == parts[1] {
				if m := prog.MethodValue(ms.At(i)); m != nil {
					out[m] = f
				}
			}
		}
	}
	return out
}

func (e *Exec) callSSA(fn *ssa.Function, args []Value, env []Value) Value {
	e.funcs[fn.String()] = true
	if len(e.callStack) > 400 {
		// 400 frames deep with one function on the stack 100 times or more: unbounded recursion, which the
		// Go run time ends with "fatal error: stack overflow" (not recoverable: the process dies)
		n := 0
		for _, f := range e.callStack {
			if f == fn {
				n++
			}
		}
		if n >= 100 {
			panic(targetPanic{v: "stack overflow", kind: "stack overflow (unbounded recursion)", fn: fn.String()})
		}
		panic(unsupported("call depth > 400"))
	}
	e.callStack = append(e.callStack, fn)
	fr := &frame{e: e, fn: fn, env: make(map[ssa.Value]Value, 16)}
	for i, p := range fn.Params {
		fr.env[p] = args[i]
	}
	for i, fv := range fn.FreeVars {
		fr.env[fv] = env[i]
	}
	for _, l := range fn.Locals {
		p := new(Value)
		*p = e.zero(l.Type().(*types.Pointer).Elem())
		fr.env[l] = p
	}
	fr.block = fn.Blocks[0]
	if fn.Recover == nil {
		fr.runPlain()
	} else {
		for fr.block != nil {
			fr.runGuarded()
		}
	}
	e.callStack = e.callStack[:len(e.callStack)-1]
	return fr.result
}

func (fr *frame) runPlain() {
	for fr.block != nil {
		fr.runBlock()
	}
}

func (fr *frame) runGuarded() {
	depth := len(fr.e.callStack)
	defer func() {
		if fr.block == nil {
			return
		}
		r := recover()
		tp, ok := r.(targetPanic)
		if !ok {
			panic(r)
		}
		fr.e.callStack = fr.e.callStack[:depth]
		fr.panicking = true
		fr.panicVal = tp
		fr.runDefers()
		fr.block = fr.fn.Recover
	}()
	for fr.block != nil {
		fr.runBlock()
	}
}

func (fr *frame) runDefers() {
	for len(fr.defers) > 0 {
		d := fr.defers[len(fr.defers)-1]
		fr.defers = fr.defers[:len(fr.defers)-1]
		fr.runDefer(d)
	}
	if fr.panicking {
		panic(fr.panicVal)
	}
}

func (fr *frame) runDefer(d deferred) {
	depth := len(fr.e.callStack)
	ok := false
	defer func() {
		if !ok {
			r := recover()
			tp, isTP := r.(targetPanic)
			if !isTP {
				panic(r)
			}
			fr.e.callStack = fr.e.callStack[:depth]
			fr.panicking = true
			fr.panicVal = tp
		}
	}()
	fr.e.deferFrame = append(fr.e.deferFrame, fr)
	fr.e.callValue(fr, d.fn, d.args)
	fr.e.deferFrame = fr.e.deferFrame[:len(fr.e.deferFrame)-1]
	ok = true
}

// callValue calls fn (possibly a builtin needing the caller's frame).
func (e *Exec) callValue(fr *frame, fn Value, args []Value) Value {
	if b, ok := fn.(*ssa.Builtin); ok {
		return e.callBuiltin(fr, b, args, nil)
	}
	return e.call(fn, args)
}

func (fr *frame) runBlock() {
	e := fr.e
	b := fr.block
	// phis are evaluated in parallel
	nphi := 0
	for _, instr := range b.Instrs {
		if _, ok := instr.(*ssa.Phi); ok {
			nphi++
		} else {
			break
		}
	}
	if fr.phiDone {
		fr.phiDone = false
	} else if nphi > 0 {
		tmp := make([]Value, nphi)
		for k := 0; k < nphi; k++ {
			phi := b.Instrs[k].(*ssa.Phi)
			for i, pred := range b.Preds {
				if fr.prev == pred {
					tmp[k] = fr.get(phi.Edges[i])
					break
				}
			}
		}
		for k := 0; k < nphi; k++ {
			fr.env[b.Instrs[k].(*ssa.Phi)] = tmp[k]
		}
	}
	for _, instr := range b.Instrs[nphi:] {
		e.steps++
		if e.steps > e.x.cfg.MaxSteps {
			panic(pathEnd{"limit", fmt.Sprintf("step limit %d in %s", e.x.cfg.MaxSteps, fr.fn)})
		}
		if p := instr.Pos(); p.IsValid() {
			fr.lastPos = p
			e.lastPos = p
		}
		if fr.visit(instr) {
			return
		}
	}
	panic("fell off block end")
}

func (fr *frame) prepareCall(c *ssa.CallCommon, instr ssa.Instruction) (Value, []Value) {
	e := fr.e
	v := fr.get(c.Value)
	var fn Value
	var args []Value
	if c.Method == nil {
		fn = v
	} else {
		recv := v.(Iface)
		if strings.Contains(c.Value.Type().String(), "go-logging") {
			// logging is a no-op (also with a nil logger)
			sig := c.Signature()
			return &Native{name: "log", fn: func(e *Exec, _ []Value) Value {
				switch sig.Results().Len() {
				case 0:
					return nil
				case 1:
					return e.zero(sig.Results().At(0).Type())
				}
				return e.zero(sig.Results())
			}}, nil
		}
		if recv.t == nil {
			fr.throw("nil pointer dereference (method call on nil interface)", instr)
		}
		m := e.prog.LookupMethod(recv.t, c.Method.Pkg(), c.Method.Name())
		if m == nil {
			panic(fmt.Sprintf("method %s not found on %v", c.Method.Name(), recv.t))
		}
		fn = m
		args = append(args, recv.v)
	}
	for _, a := range c.Args {
		args = append(args, fr.get(a))
	}
	return fn, args
}

// visit executes one instruction; it returns true when control leaves the block.
func (fr *frame) visit(instr ssa.Instruction) bool {
	e := fr.e
	ts := e.ts
	if len(e.spec) > 0 && !specAllowed(instr) {
		panic(specAbort{"instruction not allowed in a speculated region"})
	}
	switch instr := instr.(type) {
	case *ssa.DebugRef:
	case *ssa.UnOp:
		fr.env[instr] = fr.unop(instr)
	case *ssa.BinOp:
		fr.env[instr] = fr.binop(instr, instr.Op, instr.X.Type(), fr.get(instr.X), fr.get(instr.Y), instr.Y.Type())
	case *ssa.Call:
		fn, args := fr.prepareCall(&instr.Call, instr)
		if b, ok := fn.(*ssa.Builtin); ok {
			fr.env[instr] = e.callBuiltin(fr, b, args, instr)
		} else {
			fr.env[instr] = e.call(fn, args)
		}
	case *ssa.ChangeInterface:
		fr.env[instr] = fr.get(instr.X)
	case *ssa.ChangeType:
		fr.env[instr] = fr.get(instr.X)
	case *ssa.Convert:
		fr.env[instr] = fr.conv(instr, instr.Type(), instr.X.Type(), fr.get(instr.X))
	case *ssa.MakeInterface:
		fr.env[instr] = Iface{t: instr.X.Type(), v: fr.get(instr.X)}
	case *ssa.Extract:
		fr.env[instr] = fr.get(instr.Tuple).(Tuple)[instr.Index]
	case *ssa.Slice:
		fr.env[instr] = fr.slice(instr)
	case *ssa.Return:
		switch len(instr.Results) {
		case 0:
		case 1:
			fr.result = fr.get(instr.Results[0])
		default:
			res := make(Tuple, len(instr.Results))
			for i, r := range instr.Results {
				res[i] = fr.get(r)
			}
			fr.result = res
		}
		fr.block = nil
		return true
	case *ssa.RunDefers:
		fr.runDefers()
	case *ssa.Panic:
		v := fr.get(instr.X)
		where, expr := e.srcLine(instr.Pos())
		var pv Value = v
		if iv, ok := v.(Iface); ok {
			pv = iv.v
		}
		panic(targetPanic{v: pv, kind: "panic", where: where, expr: expr, fn: fr.fn.String()})
	case *ssa.Send:
		ch := fr.get(instr.Chan).(*Chan)
		e.chanSend(ch, fr.get(instr.X))
	case *ssa.Store:
		fr.store(instr, fr.get(instr.Addr), fr.get(instr.Val))
	case *ssa.If:
		c := fr.get(instr.Cond).(*Term)
		if !c.IsConst() {
			if fr.tryMerge(instr, c) {
				return true
			}
			if len(e.spec) > 0 {
				panic(specAbort{"nested branch cannot be merged"})
			}
		}
		succ := 1
		if e.branch(c) {
			succ = 0
		}
		fr.prev, fr.block = fr.block, fr.block.Succs[succ]
		return true
	case *ssa.Jump:
		fr.prev, fr.block = fr.block, fr.block.Succs[0]
		return true
	case *ssa.Defer:
		fn, args := fr.prepareCall(&instr.Call, instr)
		fr.defers = append(fr.defers, deferred{fn, args, instr})
	case *ssa.Go:
		fn, args := fr.prepareCall(&instr.Call, instr)
		if e.extra["go_inline"] != nil {
			// vfGoInline: the goroutine body runs to completion at the go statement (one schedule)
			e.callValue(fr, fn, args)
		} else {
			e.spawned = append(e.spawned, spawn{fn, args})
		}
	case *ssa.MakeChan:
		n := e.concretize(fr.get(instr.Size).(*Term), 4, "chan size")
		fr.env[instr] = &Chan{cap: int(n)}
	case *ssa.Alloc:
		var addr *Value
		if instr.Heap {
			addr = new(Value)
			fr.env[instr] = addr
		} else {
			addr = fr.env[instr].(*Value)
		}
		*addr = e.zero(instr.Type().Underlying().(*types.Pointer).Elem())
	case *ssa.MakeSlice:
		ln := fr.toInt64(instr.Len)
		cp := fr.toInt64(instr.Cap)
		if !e.branch(ts.And(ts.Sle(ts.Const(64, 0), ln), ts.Sle(ln, cp))) {
			fr.throw("makeslice: len out of range", instr)
		}
		if !e.branch(ts.Sle(cp, ts.Const(64, 1<<26))) {
			panic(unsupported("makeslice: cap > 2^26 (would be an allocation of that size at run time)"))
		}
		c := int(e.concretize(cp, 300, "makeslice cap"))
		l := int(e.concretize(ln, 300, "makeslice len"))
		s := make(Slice, c)
		et := instr.Type().Underlying().(*types.Slice).Elem()
		if isScalarType(et) {
			z := e.zero(et)
			for i := range s {
				s[i] = z
			}
		} else if _, isPtr := et.Underlying().(*types.Pointer); isPtr {
			z := e.zero(et)
			for i := range s {
				s[i] = z
			}
		} else {
			for i := range s {
				s[i] = e.zero(et)
			}
		}
		fr.env[instr] = s[:l]
	case *ssa.MakeMap:
		mt := instr.Type().Underlying().(*types.Map)
		fr.env[instr] = &Map{kt: mt.Key(), vt: mt.Elem()}
	case *ssa.Range:
		fr.env[instr] = fr.rangeIter(instr)
	case *ssa.Next:
		fr.env[instr] = fr.next(instr)
	case *ssa.FieldAddr:
		p := fr.get(instr.X)
		pp, ok := p.(*Value)
		if !ok {
			panic(unsupported("FieldAddr on %T", p))
		}
		if pp == nil {
			fr.throw("nil pointer dereference", instr)
		}
		fr.env[instr] = &(*pp).(Struct)[instr.Field]
	case *ssa.Field:
		fr.env[instr] = fr.get(instr.X).(Struct)[instr.Field]
	case *ssa.IndexAddr:
		fr.env[instr] = fr.indexAddr(instr)
	case *ssa.Index:
		fr.env[instr] = fr.index(instr)
	case *ssa.Lookup:
		fr.env[instr] = fr.lookup(instr)
	case *ssa.MapUpdate:
		m := fr.get(instr.Map).(*Map)
		if m == nil {
			fr.throw("assignment to entry in nil map", instr)
		}
		e.mapUpdate(m, fr.get(instr.Key), fr.get(instr.Value))
	case *ssa.TypeAssert:
		fr.env[instr] = fr.typeAssert(instr)
	case *ssa.MakeClosure:
		var bindings []Value
		for _, b := range instr.Bindings {
			bindings = append(bindings, fr.get(b))
		}
		fr.env[instr] = &Closure{instr.Fn.(*ssa.Function), bindings}
	case *ssa.Select:
		fr.env[instr] = fr.selectInstr(instr)
	case *ssa.SliceToArrayPointer:
		s := fr.get(instr.X).(Slice)
		n := int(instr.Type().Underlying().(*types.Pointer).Elem().Underlying().(*types.Array).Len())
		if len(s) < n {
			fr.throw("cannot convert slice to array pointer: length too short", instr)
		}
		// aliasing of slice storage as an array is not modelled: copy
		arr := make(Array, n)
		copy(arr, s[:n])
		p := new(Value)
		*p = arr
		fr.env[instr] = p
	default:
		panic(unsupported("instruction %T", instr))
	}
	return false
}

func (fr *frame) toInt64(v ssa.Value) *Term {
	t := fr.get(v).(*Term)
	return fr.e.ext64(t, isSigned(v.Type()))
}

func (e *Exec) ext64(t *Term, signed bool) *Term {
	if t.w == 64 {
		return t
	}
	if signed {
		return e.ts.SExt(t, 64)
	}
	return e.ts.ZExt(t, 64)
}

func (fr *frame) load(instr ssa.Instruction, p Value) Value {
	switch p := p.(type) {
	case *Value:
		if p == nil {
			fr.throw("nil pointer dereference", instr)
		}
		if len(fr.e.spec) > 0 {
			return copyVal(fr.e.read(p))
		}
		return copyVal(*p)
	case *SymPtr:
		e := fr.e
		var r *Term
		for i := len(p.cands) - 1; i >= 0; i-- {
			v := e.read(p.cands[i]).(*Term)
			if r == nil {
				r = v
			} else {
				r = e.ts.Ite(e.ts.Eq(p.idx, e.ts.Const(64, uint64(i))), v, r)
			}
		}
		return r
	}
	panic(unsupported("load through %T", p))
}

func (fr *frame) store(instr ssa.Instruction, p Value, v Value) {
	switch p := p.(type) {
	case *Value:
		if p == nil {
			fr.throw("nil pointer dereference", instr)
		}
		if n := len(fr.e.spec); n > 0 {
			switch v.(type) {
			case Struct, Array:
				panic(specAbort{"aggregate store"})
			}
			fr.e.spec[n-1].set(p, v)
			return
		}
		storeInto(p, v)
		return
	case *SymPtr:
		e := fr.e
		nv := v.(*Term)
		for i, c := range p.cands {
			old := e.read(c).(*Term)
			nw := e.ts.Ite(e.ts.Eq(p.idx, e.ts.Const(64, uint64(i))), nv, old)
			if n := len(e.spec); n > 0 {
				e.spec[n-1].set(c, nw)
			} else {
				*c = nw
			}
		}
		return
	}
	panic(unsupported("store through %T", p))
}

// checkIndex forks on "idx in [0,n)" and throws on the failing side; returns
// the 64-bit index term.
func (fr *frame) checkIndex(instr ssa.Instruction, idxV ssa.Value, n int) *Term {
	e := fr.e
	idx := fr.toInt64(idxV)
	e.obligations++
	if idx.IsConst() {
		if sval(64, idx.c) < 0 || sval(64, idx.c) >= int64(n) {
			fr.throw("index out of range", instr)
		}
		e.discharged++
		e.concreteObl++
		return idx
	}
	if !e.branch(e.ts.Ult(idx, e.ts.Const(64, uint64(n)))) {
		fr.throw("index out of range", instr)
	}
	e.discharged++
	return idx
}

func (fr *frame) indexAddr(instr *ssa.IndexAddr) Value {
	e := fr.e
	x := fr.get(instr.X)
	var cells []Value
	var et types.Type
	switch x := x.(type) {
	case Slice:
		cells = x
		et = instr.X.Type().Underlying().(*types.Slice).Elem()
	case *Value:
		if x == nil {
			fr.throw("nil pointer dereference", instr)
		}
		cells = (*x).(Array)
		et = instr.X.Type().Underlying().(*types.Pointer).Elem().Underlying().(*types.Array).Elem()
	default:
		panic(unsupported("IndexAddr on %T", x))
	}
	idx := fr.checkIndex(instr, instr.Index, len(cells))
	if idx.IsConst() {
		return &cells[idx.c]
	}
	if isScalarType(et) && len(cells) <= 4096 {
		sp := &SymPtr{idx: idx}
		for i := range cells {
			sp.cands = append(sp.cands, &cells[i])
		}
		return sp
	}
	i := e.concretize(idx, 128, "index of non-scalar element")
	return &cells[i]
}

func (fr *frame) index(instr *ssa.Index) Value {
	e := fr.e
	x := fr.get(instr.X)
	switch x := x.(type) {
	case Array:
		idx := fr.checkIndex(instr, instr.Index, len(x))
		if idx.IsConst() {
			return copyVal(x[idx.c])
		}
		et := instr.X.Type().Underlying().(*types.Array).Elem()
		if isScalarType(et) {
			return e.iteChain(idx, x)
		}
		return copyVal(x[e.concretize(idx, 64, "index")])
	case string, *SymStr:
		b := e.strBytes(x)
		idx := fr.checkIndex(instr, instr.Index, len(b))
		if idx.IsConst() {
			return b[idx.c]
		}
		vs := make([]Value, len(b))
		for i := range b {
			vs[i] = b[i]
		}
		return e.iteChain(idx, vs)
	}
	panic(unsupported("Index on %T", x))
}

func (e *Exec) iteChain(idx *Term, cells []Value) *Term {
	var r *Term
	for i := len(cells) - 1; i >= 0; i-- {
		v := cells[i].(*Term)
		if r == nil {
			r = v
		} else {
			r = e.ts.Ite(e.ts.Eq(idx, e.ts.Const(64, uint64(i))), v, r)
		}
	}
	return r
}

func (fr *frame) slice(instr *ssa.Slice) Value {
	e := fr.e
	ts := e.ts
	x := fr.get(instr.X)
	var ln, cp int
	switch x := x.(type) {
	case Slice:
		ln, cp = len(x), cap(x)
	case string, *SymStr:
		ln = strLen(x)
		cp = ln
	case *Value:
		if x == nil {
			fr.throw("nil pointer dereference", instr)
		}
		ln = len((*x).(Array))
		cp = ln
	default:
		panic(unsupported("Slice of %T", x))
	}
	lo := ts.Const(64, 0)
	hi := ts.Const(64, uint64(ln))
	mx := ts.Const(64, uint64(cp))
	if instr.Low != nil {
		lo = fr.toInt64(instr.Low)
	}
	if instr.High != nil {
		hi = fr.toInt64(instr.High)
	}
	if instr.Max != nil {
		mx = fr.toInt64(instr.Max)
	}
	ok := ts.And(ts.And(ts.Sle(ts.Const(64, 0), lo), ts.Sle(lo, hi)), ts.And(ts.Sle(hi, mx), ts.Sle(mx, ts.Const(64, uint64(cp)))))
	e.obligations++
	if !e.branch(ok) {
		fr.throw("slice bounds out of range", instr)
	}
	e.discharged++
	if ok.IsConst() {
		e.concreteObl++
	}
	l := int(e.concretize(lo, 300, "slice low"))
	h := int(e.concretize(hi, 300, "slice high"))
	m := int(e.concretize(mx, 300, "slice max"))
	switch x := x.(type) {
	case Slice:
		if x == nil {
			return Slice(nil)
		}
		return x[l:h:m]
	case string:
		return x[l:h]
	case *SymStr:
		return mkStr(x.b[l:h])
	case *Value:
		return Slice((*x).(Array))[l:h:m]
	}
	panic("unreachable")
}

func (fr *frame) lookup(instr *ssa.Lookup) Value {
	e := fr.e
	x := fr.get(instr.X)
	switch x := x.(type) {
	case string, *SymStr:
		b := e.strBytes(x)
		idx := fr.checkIndex(instr, instr.Index, len(b))
		if idx.IsConst() {
			return b[idx.c]
		}
		vs := make([]Value, len(b))
		for i := range b {
			vs[i] = b[i]
		}
		return e.iteChain(idx, vs)
	case *Map:
		mt := instr.X.Type().Underlying().(*types.Map)
		key := fr.get(instr.Index)
		var v Value
		found := false
		if x != nil {
			if i := e.mapFind(x, key); i >= 0 {
				v = copyVal(x.vals[i])
				found = true
			}
		}
		if !found {
			v = e.zero(mt.Elem())
		}
		if instr.CommaOk {
			return Tuple{v, e.ts.Bool(found)}
		}
		return v
	}
	panic(unsupported("Lookup on %T", x))
}

func (e *Exec) mapFind(m *Map, key Value) int {
	for i, k := range m.keys {
		if e.branch(e.equal(m.kt, k, key)) {
			return i
		}
	}
	return -1
}

func (e *Exec) mapUpdate(m *Map, key, val Value) {
	if i := e.mapFind(m, key); i >= 0 {
		m.vals[i] = copyVal(val)
		return
	}
	m.keys = append(m.keys, copyVal(key))
	m.vals = append(m.vals, copyVal(val))
}

func (e *Exec) mapDelete(m *Map, key Value) {
	if m == nil {
		return
	}
	if i := e.mapFind(m, key); i >= 0 {
		m.keys = append(append([]Value(nil), m.keys[:i]...), m.keys[i+1:]...)
		m.vals = append(append([]Value(nil), m.vals[:i]...), m.vals[i+1:]...)
	}
}

func (fr *frame) rangeIter(instr *ssa.Range) Value {
	x := fr.get(instr.X)
	switch x := x.(type) {
	case *Map:
		it := &MapIter{m: x}
		if x != nil {
			it.keys = append(it.keys, x.keys...)
		}
		return it
	case string:
		return &StrIter{s: x}
	}
	panic(unsupported("range over %T", x))
}

func (fr *frame) next(instr *ssa.Next) Value {
	e := fr.e
	it := fr.get(instr.Iter)
	switch it := it.(type) {
	case *MapIter:
		for it.pos < len(it.keys) {
			k := it.keys[it.pos]
			it.pos++
			// entry may have been deleted during iteration
			for i, kk := range it.m.keys {
				if sameKey(kk, k) {
					return Tuple{e.ts.True, copyVal(k), copyVal(it.m.vals[i])}
				}
			}
		}
		return Tuple{e.ts.False, nil, nil}
	case *StrIter:
		if it.pos >= len(it.s) {
			return Tuple{e.ts.False, e.ts.Const(64, 0), e.ts.Const(32, 0)}
		}
		for i, r := range it.s[it.pos:] {
			_ = i
			p := it.pos
			n := len(string(r))
			if r == 0xFFFD {
				n = 1
			}
			it.pos += n
			return Tuple{e.ts.True, e.ts.Const(64, uint64(p)), e.ts.Const(32, uint64(r))}
		}
	}
	panic(unsupported("next on %T", it))
}

// sameKey: identity of stored key objects (used only to re-find an entry that
// was present when the iteration started).
func sameKey(a, b Value) bool {
	switch a := a.(type) {
	case *Term:
		bt, ok := b.(*Term)
		return ok && a == bt
	case string:
		bs, ok := b.(string)
		return ok && a == bs
	case *Value:
		bp, ok := b.(*Value)
		return ok && a == bp
	case Array:
		ba, ok := b.(Array)
		if !ok || len(a) != len(ba) {
			return false
		}
		for i := range a {
			if !sameKey(a[i], ba[i]) {
				return false
			}
		}
		return true
	case Struct:
		ba, ok := b.(Struct)
		if !ok || len(a) != len(ba) {
			return false
		}
		for i := range a {
			if !sameKey(a[i], ba[i]) {
				return false
			}
		}
		return true
	case *SymStr:
		bs, ok := b.(*SymStr)
		if !ok || len(a.b) != len(bs.b) {
			return false
		}
		for i := range a.b {
			if a.b[i] != bs.b[i] {
				return false
			}
		}
		return true
	case Iface:
		bi, ok := b.(Iface)
		return ok && a.t == bi.t && sameKey(a.v, bi.v)
	}
	return false
}

func (fr *frame) typeAssert(instr *ssa.TypeAssert) Value {
	e := fr.e
	v := fr.get(instr.X).(Iface)
	ok := false
	if v.t != nil {
		if it, isIface := instr.AssertedType.Underlying().(*types.Interface); isIface {
			ok = types.Implements(v.t, it)
			if !ok {
				// pointer receiver method sets are already in v.t when v.t is a pointer
				ok = types.AssignableTo(v.t, instr.AssertedType)
			}
		} else {
			ok = types.Identical(v.t, instr.AssertedType)
		}
	}
	var res Value
	if ok {
		if _, isIface := instr.AssertedType.Underlying().(*types.Interface); isIface {
			res = v
		} else {
			res = v.v
		}
	} else {
		if !instr.CommaOk {
			fr.throw(fmt.Sprintf("interface conversion: %v is not %v", v.t, instr.AssertedType), instr)
		}
		res = e.zero(instr.AssertedType)
	}
	if instr.CommaOk {
		return Tuple{res, e.ts.Bool(ok)}
	}
	return res
}

func (e *Exec) chanSend(ch *Chan, v Value) {
	if ch == nil {
		panic(pathEnd{"blocked", "send on nil channel"})
	}
	if ch.closed {
		panic(targetPanic{v: "send on closed channel", kind: "send on closed channel", fn: e.curFn()})
	}
	if len(ch.buf) >= ch.cap {
		// single-threaded: a rendezvous or a full buffer blocks forever; model as a dropped hand-off
		// only when the harness allowed it
		if e.extra["chan_unbounded"] != nil {
			ch.buf = append(ch.buf, v)
			return
		}
		panic(pathEnd{"blocked", "send on full channel"})
	}
	ch.buf = append(ch.buf, v)
}

func (fr *frame) chanRecv(instr *ssa.UnOp, ch *Chan) Value {
	e := fr.e
	et := instr.X.Type().Underlying().(*types.Chan).Elem()
	var v Value
	ok := true
	if ch == nil {
		panic(pathEnd{"blocked", "receive from nil channel"})
	}
	if len(ch.buf) > 0 {
		v = ch.buf[0]
		ch.buf = ch.buf[1:]
	} else if ch.closed {
		v = e.zero(et)
		ok = false
	} else {
		// vfBlockHook(f): the thread is about to block on an empty channel; f is the harness's scheduler — it lets
		// other (recorded) goroutines run and says whether it did anything; the receive is retried while it does
		if h, has := e.extra["block_hook"]; has && e.extra["in_block_hook"] == nil {
			for tries := 0; tries < 64 && len(ch.buf) == 0 && !ch.closed; tries++ {
				e.extra["in_block_hook"] = true
				r := e.callValue(nil, h.(Value), nil)
				delete(e.extra, "in_block_hook")
				if t, isT := r.(*Term); !isT || !t.IsTrue() {
					break
				}
			}
			if len(ch.buf) > 0 || ch.closed {
				return fr.chanRecv(instr, ch)
			}
		}
		panic(pathEnd{"blocked", "receive from empty channel"})
	}
	if instr.CommaOk {
		return Tuple{v, e.ts.Bool(ok)}
	}
	return v
}

func (fr *frame) selectInstr(instr *ssa.Select) Value {
	e := fr.e
	// choose the first ready case in order; default if none
	for i, st := range instr.States {
		ch := fr.get(st.Chan).(*Chan)
		if ch == nil {
			continue
		}
		if st.Dir == types.RecvOnly {
			if len(ch.buf) > 0 || ch.closed {
				var v Value
				ok := true
				if len(ch.buf) > 0 {
					v = ch.buf[0]
					ch.buf = ch.buf[1:]
				} else {
					v = e.zero(st.Chan.Type().Underlying().(*types.Chan).Elem())
					ok = false
				}
				res := Tuple{e.ts.Const(64, uint64(i)), e.ts.Bool(ok)}
				for j, s2 := range instr.States {
					if s2.Dir == types.RecvOnly {
						if j == i {
							res = append(res, v)
						} else {
							res = append(res, e.zero(s2.Chan.Type().Underlying().(*types.Chan).Elem()))
						}
					}
				}
				return res
			}
		} else {
			if len(ch.buf) < ch.cap {
				ch.buf = append(ch.buf, fr.get(st.Send))
				res := Tuple{e.ts.Const(64, uint64(i)), e.ts.False}
				for _, s2 := range instr.States {
					if s2.Dir == types.RecvOnly {
						res = append(res, e.zero(s2.Chan.Type().Underlying().(*types.Chan).Elem()))
					}
				}
				return res
			}
		}
	}
	if !instr.Blocking {
		res := Tuple{e.ts.Const(64, ^uint64(0)), e.ts.False}
		for _, s2 := range instr.States {
			if s2.Dir == types.RecvOnly {
				res = append(res, e.zero(s2.Chan.Type().Underlying().(*types.Chan).Elem()))
			}
		}
		return res
	}
	panic(pathEnd{"blocked", "select with no ready case"})
}
