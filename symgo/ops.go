package main

import (
	"fmt"
	"go/token"
	"go/types"
	"math"
	"strings"

	"golang.org/x/tools/go/ssa"
)

func (fr *frame) unop(instr *ssa.UnOp) Value {
	e := fr.e
	x := fr.get(instr.X)
	switch instr.Op {
	case token.MUL: // load
		return fr.load(instr, x)
	case token.ARROW:
		return fr.chanRecv(instr, x.(*Chan))
	case token.NOT:
		return e.ts.Not(x.(*Term))
	case token.SUB:
		switch x := x.(type) {
		case *Term:
			return e.ts.Neg(x)
		case Float:
			return Float{v: -x.v, sym: x.sym}
		}
	case token.XOR:
		return e.ts.BNot(x.(*Term))
	}
	panic(unsupported("unop %v on %T", instr.Op, x))
}

func (fr *frame) binop(instr ssa.Instruction, op token.Token, t types.Type, x, y Value, yt types.Type) Value {
	e := fr.e
	ts := e.ts
	switch op {
	case token.EQL:
		return e.equal(t, x, y)
	case token.NEQ:
		return ts.Not(e.equal(t, x, y))
	}
	switch x := x.(type) {
	case *Term:
		yv := y.(*Term)
		if x.w == 0 { // bool &&, || do not occur in SSA; AND/OR on bools may
			switch op {
			case token.AND, token.LAND:
				return ts.And(x, yv)
			case token.OR, token.LOR:
				return ts.Or(x, yv)
			case token.XOR:
				return ts.Not(ts.Eq(x, yv))
			}
			panic(unsupported("bool binop %v", op))
		}
		signed := isSigned(t)
		switch op {
		case token.ADD:
			return ts.Bin(OpAdd, x, yv)
		case token.SUB:
			return ts.Bin(OpSub, x, yv)
		case token.MUL:
			return ts.Bin(OpMul, x, yv)
		case token.QUO, token.REM:
			if !e.branch(ts.Not(ts.Eq(yv, ts.Const(yv.w, 0)))) {
				fr.throw("integer divide by zero", instr)
			}
			if op == token.QUO {
				if signed {
					return ts.Bin(OpSDiv, x, yv)
				}
				return ts.Bin(OpUDiv, x, yv)
			}
			if signed {
				return ts.Bin(OpSRem, x, yv)
			}
			return ts.Bin(OpURem, x, yv)
		case token.AND:
			return ts.Bin(OpBAnd, x, yv)
		case token.OR:
			return ts.Bin(OpBOr, x, yv)
		case token.XOR:
			return ts.Bin(OpBXor, x, yv)
		case token.AND_NOT:
			return ts.Bin(OpBAnd, x, ts.BNot(yv))
		case token.SHL, token.SHR:
			// shift count: any integer type; negative signed count panics
			if isSigned(yt) {
				if !e.branch(ts.Sle(ts.Const(yv.w, 0), yv)) {
					fr.throw("negative shift amount", instr)
				}
			}
			var cnt *Term
			big := ts.False
			if yv.w > x.w {
				big = ts.Ule(ts.Const(yv.w, uint64(x.w)), yv)
				cnt = ts.Trunc(yv, x.w)
			} else {
				cnt = ts.ZExt(yv, x.w)
			}
			var r *Term
			if op == token.SHL {
				r = ts.Bin(OpShl, x, cnt)
				return ts.Ite(big, ts.Const(x.w, 0), r)
			}
			if signed {
				r = ts.Bin(OpAShr, x, cnt)
				fill := ts.Bin(OpAShr, x, ts.Const(x.w, uint64(x.w-1)))
				return ts.Ite(big, fill, r)
			}
			r = ts.Bin(OpLShr, x, cnt)
			return ts.Ite(big, ts.Const(x.w, 0), r)
		case token.LSS:
			if signed {
				return ts.Slt(x, yv)
			}
			return ts.Ult(x, yv)
		case token.LEQ:
			if signed {
				return ts.Sle(x, yv)
			}
			return ts.Ule(x, yv)
		case token.GTR:
			if signed {
				return ts.Slt(yv, x)
			}
			return ts.Ult(yv, x)
		case token.GEQ:
			if signed {
				return ts.Sle(yv, x)
			}
			return ts.Ule(yv, x)
		}
	case Float:
		yf := y.(Float)
		sym := x.sym || yf.sym
		switch op {
		case token.ADD:
			return Float{v: x.v + yf.v, sym: sym}
		case token.SUB:
			return Float{v: x.v - yf.v, sym: sym}
		case token.MUL:
			return Float{v: x.v * yf.v, sym: sym}
		case token.QUO:
			return Float{v: x.v / yf.v, sym: sym}
		case token.LSS, token.LEQ, token.GTR, token.GEQ:
			if sym {
				return e.freshBool("floatcmp")
			}
			switch op {
			case token.LSS:
				return ts.Bool(x.v < yf.v)
			case token.LEQ:
				return ts.Bool(x.v <= yf.v)
			case token.GTR:
				return ts.Bool(x.v > yf.v)
			case token.GEQ:
				return ts.Bool(x.v >= yf.v)
			}
		}
	case string, *SymStr:
		switch op {
		case token.ADD:
			if xs, ok := x.(string); ok {
				if ys, ok := y.(string); ok {
					return xs + ys
				}
			}
			return mkStr(append(append([]*Term(nil), e.strBytes(x)...), e.strBytes(y)...))
		case token.LSS, token.LEQ, token.GTR, token.GEQ:
			xs, ok1 := x.(string)
			ys, ok2 := y.(string)
			if ok1 && ok2 {
				switch op {
				case token.LSS:
					return ts.Bool(xs < ys)
				case token.LEQ:
					return ts.Bool(xs <= ys)
				case token.GTR:
					return ts.Bool(xs > ys)
				case token.GEQ:
					return ts.Bool(xs >= ys)
				}
			}
			// lexicographic comparison over byte terms
			lt := e.strLess(e.strBytes(x), e.strBytes(y))
			eq := e.equal(t, x, y)
			switch op {
			case token.LSS:
				return lt
			case token.LEQ:
				return ts.Or(lt, eq)
			case token.GTR:
				return ts.Not(ts.Or(lt, eq))
			case token.GEQ:
				return ts.Not(lt)
			}
		}
	}
	panic(unsupported("binop %v on %T", op, x))
}

func (e *Exec) strLess(a, b []*Term) *Term {
	ts := e.ts
	// a < b  lexicographically
	n := len(a)
	if len(b) < n {
		n = len(b)
	}
	// build from the end
	var r *Term
	if len(a) < len(b) {
		r = ts.True
	} else {
		r = ts.False
	}
	for i := n - 1; i >= 0; i-- {
		r = ts.Or(ts.Ult(a[i], b[i]), ts.And(ts.Eq(a[i], b[i]), r))
	}
	return r
}

func (fr *frame) conv(instr ssa.Instruction, dst, src types.Type, x Value) Value {
	e := fr.e
	ts := e.ts
	ud := dst.Underlying()
	us := src.Underlying()
	switch ud := ud.(type) {
	case *types.Basic:
		switch {
		case ud.Info()&types.IsInteger != 0:
			w := intWidth(ud)
			switch x := x.(type) {
			case *Term:
				if x.w == w {
					return x
				}
				if x.w > w {
					return ts.Trunc(x, w)
				}
				if isSigned(src) {
					return ts.SExt(x, w)
				}
				return ts.ZExt(x, w)
			case Float:
				if x.sym {
					return e.freshVar("float2int", w)
				}
				if ud.Info()&types.IsUnsigned != 0 {
					return ts.Const(w, uint64(x.v))
				}
				return ts.Const(w, uint64(int64(x.v)))
			case *Value: // unsafe.Pointer -> uintptr
				panic(unsupported("pointer to integer conversion"))
			}
		case ud.Info()&types.IsFloat != 0:
			switch x := x.(type) {
			case *Term:
				if !x.IsConst() {
					return Float{sym: true}
				}
				if isSigned(src) {
					return Float{v: float64(sval(x.w, x.c))}
				}
				return Float{v: float64(x.c)}
			case Float:
				if ud.Kind() == types.Float32 {
					return Float{v: float64(float32(x.v)), sym: x.sym}
				}
				return x
			}
		case ud.Info()&types.IsString != 0:
			switch x := x.(type) {
			case string, *SymStr:
				return x
			case Slice: // []byte or []rune
				et := us.(*types.Slice).Elem().Underlying().(*types.Basic)
				if et.Kind() == types.Uint8 {
					b := make([]*Term, len(x))
					for i := range x {
						b[i] = x[i].(*Term)
					}
					return mkStr(b)
				}
				var sb strings.Builder
				for _, r := range x {
					t := r.(*Term)
					if !t.IsConst() {
						panic(unsupported("[]rune with symbolic content to string"))
					}
					sb.WriteRune(rune(t.c))
				}
				return sb.String()
			case *Term:
				if !x.IsConst() {
					panic(unsupported("symbolic integer to string"))
				}
				return string(rune(sval(x.w, x.c)))
			}
		case ud.Kind() == types.UnsafePointer:
			return x
		case ud.Info()&types.IsBoolean != 0:
			return x
		}
	case *types.Slice:
		switch x := x.(type) {
		case string, *SymStr:
			et := ud.Elem().Underlying().(*types.Basic)
			if et.Kind() == types.Uint8 {
				b := e.strBytes(x)
				s := make(Slice, len(b))
				for i := range b {
					s[i] = b[i]
				}
				return s
			}
			xs, ok := x.(string)
			if !ok {
				panic(unsupported("symbolic string to []rune"))
			}
			var s Slice
			for _, r := range xs {
				s = append(s, ts.Const(32, uint64(r)))
			}
			if s == nil {
				s = Slice{}
			}
			return s
		case Slice:
			return x
		}
	case *types.Pointer:
		return x
	}
	panic(unsupported("conversion %v -> %v (%T)", src, dst, x))
}

// ---------------------------------------------------------------------------

func (e *Exec) callBuiltin(fr *frame, b *ssa.Builtin, args []Value, instr *ssa.Call) Value {
	ts := e.ts
	switch b.Name() {
	case "append":
		if len(args) == 1 {
			return args[0]
		}
		dst := args[0].(Slice)
		var src []Value
		switch s := args[1].(type) {
		case Slice:
			src = s
		case string, *SymStr:
			for _, t := range e.strBytes(s) {
				src = append(src, t)
			}
		}
		if len(src) == 0 {
			return dst
		}
		cp := make([]Value, len(src))
		for i := range src {
			cp[i] = copyVal(src[i])
		}
		return Slice(append([]Value(dst), cp...))
	case "copy":
		dst := args[0].(Slice)
		var src []Value
		switch s := args[1].(type) {
		case Slice:
			src = s
		case string, *SymStr:
			for _, t := range e.strBytes(s) {
				src = append(src, t)
			}
		}
		n := len(dst)
		if len(src) < n {
			n = len(src)
		}
		// memmove semantics
		tmp := make([]Value, n)
		for i := 0; i < n; i++ {
			tmp[i] = copyVal(src[i])
		}
		copy(dst, tmp)
		return ts.Const(64, uint64(n))
	case "close":
		ch := args[0].(*Chan)
		if ch == nil {
			panic(targetPanic{v: "close of nil channel", kind: "close of nil channel", fn: e.curFn()})
		}
		if ch.closed {
			panic(targetPanic{v: "close of closed channel", kind: "close of closed channel", fn: e.curFn()})
		}
		ch.closed = true
		return nil
	case "delete":
		e.mapDelete(args[0].(*Map), args[1])
		return nil
	case "print", "println":
		return nil
	case "len":
		switch x := args[0].(type) {
		case Slice:
			return ts.Const(64, uint64(len(x)))
		case string, *SymStr:
			return ts.Const(64, uint64(strLen(x)))
		case Array:
			return ts.Const(64, uint64(len(x)))
		case *Value:
			if x == nil {
				// len of nil *array is the array length (static); take it from the type
				return ts.Const(64, 0)
			}
			return ts.Const(64, uint64(len((*x).(Array))))
		case *Map:
			if x == nil {
				return ts.Const(64, 0)
			}
			return ts.Const(64, uint64(len(x.keys)))
		case *Chan:
			if x == nil {
				return ts.Const(64, 0)
			}
			return ts.Const(64, uint64(len(x.buf)))
		}
	case "cap":
		switch x := args[0].(type) {
		case Slice:
			return ts.Const(64, uint64(cap(x)))
		case Array:
			return ts.Const(64, uint64(len(x)))
		case *Value:
			if x == nil {
				return ts.Const(64, 0)
			}
			return ts.Const(64, uint64(len((*x).(Array))))
		case *Chan:
			if x == nil {
				return ts.Const(64, 0)
			}
			return ts.Const(64, uint64(x.cap))
		}
	case "min", "max":
		r := args[0]
		for _, a := range args[1:] {
			x, ok1 := r.(*Term)
			y, ok2 := a.(*Term)
			if !ok1 || !ok2 {
				panic(unsupported("min/max on non-integers"))
			}
			signed := true
			if instr != nil {
				signed = isSigned(instr.Type())
			}
			var lt *Term
			if signed {
				lt = ts.Slt(x, y)
			} else {
				lt = ts.Ult(x, y)
			}
			if b.Name() == "min" {
				r = ts.Ite(lt, x, y)
			} else {
				r = ts.Ite(lt, y, x)
			}
		}
		return r
	case "panic":
		var pv Value = args[0]
		if iv, ok := pv.(Iface); ok {
			pv = iv.v
		}
		panic(targetPanic{v: pv, kind: "panic", fn: e.curFn()})
	case "recover":
		if n := len(e.deferFrame); n > 0 {
			df := e.deferFrame[n-1]
			if df.panicking {
				df.panicking = false
				tp := df.panicVal
				if s, ok := tp.v.(string); ok {
					return Iface{t: types.Typ[types.String], v: s}
				}
				if iv, ok := tp.v.(Iface); ok {
					return iv
				}
				return Iface{t: types.Typ[types.String], v: fmt.Sprint(tp.kind)}
			}
		}
		return Iface{}
	case "ssa:wrapnilchk":
		if isNilPtr(args[0]) {
			panic(targetPanic{v: "value method called using nil pointer", kind: "nil pointer dereference", fn: e.curFn()})
		}
		return args[0]
	case "clear":
		switch x := args[0].(type) {
		case *Map:
			if x != nil {
				x.keys, x.vals = nil, nil
			}
		case Slice:
			panic(unsupported("clear(slice)"))
		}
		return nil
	}
	if len(args) == 0 {
		panic(unsupported("builtin %s without arguments", b.Name()))
	}
	panic(unsupported("builtin %s on %T", b.Name(), args[0]))
}

var _ = math.MaxInt64
