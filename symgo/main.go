package main

// symgo — bounded symbolic executor for Go SSA, emitting SMT-LIB2 to z3/cvc5.
//
//   symgo -repo /repo -pkg ./server -overlay /verif/harness/server -harness C20_lockqueue \
//         -out result.json [-workers 16] [-solver z3] [-alt cvc5] [-witness 50]

import (
	"crypto/md5"
	"encoding/json"
	"flag"
	"fmt"
	"os"
	"path/filepath"
	"runtime/debug"
	"runtime/pprof"
	"sort"
	"strings"
	"time"

	"golang.org/x/tools/go/packages"
	"golang.org/x/tools/go/ssa"
	"golang.org/x/tools/go/ssa/ssautil"
)

func md5sum(b []byte) [16]byte { return md5.Sum(b) }

var overlayFiles = map[string][]byte{}

func overlayContent(file string) []byte { return overlayFiles[file] }

type Output struct {
	Harness      string         `json:"harness"`
	Pkg          string         `json:"pkg"`
	Paths        int            `json:"paths"`
	ByKind       map[string]int `json:"by_kind"`
	Branches     int            `json:"branches"`
	Obligations  int            `json:"obligations"`
	Discharged   int            `json:"discharged"`
	ConcreteObl  int            `json:"concrete_obligations"`
	SolverQ      int            `json:"solver_queries"`
	SolverSec    float64        `json:"solver_seconds"`
	SolverErrors int            `json:"solver_errors"`
	Inconclusive int            `json:"inconclusive"`
	AltAgree     int            `json:"alt_agree"`
	AltDisagree  int            `json:"alt_disagree"`
	Reach        map[string]int `json:"reach"`
	Known        map[string]int `json:"known"`
	Fallback     int            `json:"decided_by_cvc5_bv_as_int"`
	Funcs        []string       `json:"functions_encoded"`
	Stubs        []string       `json:"stubs_used"`
	WallSec      float64        `json:"wall_seconds"`
	LoadSec      float64        `json:"load_seconds"`
	Results      []*PathResult  `json:"results"`
	Solver       string         `json:"solver"`
	Alt          string         `json:"alt_solver,omitempty"`
	Complete     bool           `json:"complete"`
	MaxSteps     int            `json:"max_steps"`
}

func main() {
	repo := flag.String("repo", "/repo", "repository root")
	pkgPat := flag.String("pkg", "./server", "package pattern (relative to repo)")
	overlay := flag.String("overlay", "", "directory of harness files injected into the package")
	harness := flag.String("harness", "", "harness function name (without the vfH_ prefix)")
	out := flag.String("out", "", "result json")
	workers := flag.Int("workers", 16, "parallel workers")
	solver := flag.String("solver", "z3-new", "z3 | z3-new | cvc5 | cvc5-int")
	alt := flag.String("alt", "", "second solver for final obligations")
	timeout := flag.Int("timeout", 20000, "per-query timeout (ms)")
	maxSteps := flag.Int("maxsteps", 3000000, "instruction limit per path")
	maxPaths := flag.Int("maxpaths", 0, "stop after this many paths (0 = all)")
	witness := flag.Int("witness", 0, "attach a witness model to every n-th ok path")
	blockedModels := flag.Bool("blockedmodels", false, "attach the inputs of paths that end blocked")
	known := flag.String("known", "", "known_findings.json")
	verbose := flag.Bool("v", false, "verbose")
	slog := flag.String("solverlog", "", "write worker 0's solver input here")
	list := flag.Bool("list", false, "list harness functions and exit")
	nomerge := flag.Bool("nomerge", false, "disable if-conversion of pure diamonds")
	fixed := flag.String("model", "", "json file name->value: run concretely with these inputs")
	cpuprof := flag.String("cpuprofile", "", "write a CPU profile here")
	budget := flag.Int("budget", 0, "wall-clock budget in seconds (0 = none); exceeding it makes the run incomplete")
	flag.Parse()

	if *cpuprof != "" {
		f, err := os.Create(*cpuprof)
		if err != nil {
			fatal(err)
		}
		pprof.StartCPUProfile(f)
		defer pprof.StopCPUProfile()
	}
	debug.SetGCPercent(600)
	t0 := time.Now()
	cfg := &packages.Config{
		Mode: packages.NeedName | packages.NeedFiles | packages.NeedCompiledGoFiles | packages.NeedImports |
			packages.NeedDeps | packages.NeedTypes | packages.NeedSyntax | packages.NeedTypesInfo | packages.NeedTypesSizes | packages.NeedModule,
		Dir:        *repo,
		BuildFlags: []string{"-tags=verif"},
		Env:        append(os.Environ(), "GOFLAGS=-mod=mod", "GOPROXY=off", "GOSUMDB=off", "GOTOOLCHAIN=local"),
	}
	absPkgDir := filepath.Join(*repo, *pkgPat)
	if *overlay != "" {
		cfg.Overlay = map[string][]byte{}
		ents, err := os.ReadDir(*overlay)
		if err != nil {
			fatal(err)
		}
		for _, en := range ents {
			if !strings.HasSuffix(en.Name(), ".go") || strings.HasSuffix(en.Name(), "_test.go") {
				continue
			}
			b, err := os.ReadFile(filepath.Join(*overlay, en.Name()))
			if err != nil {
				fatal(err)
			}
			virt := filepath.Join(absPkgDir, "zz_vf_"+en.Name())
			cfg.Overlay[virt] = b
			overlayFiles[virt] = b
		}
	}
	pkgs, err := packages.Load(cfg, *pkgPat)
	if err != nil {
		fatal(err)
	}
	nerr := 0
	packages.Visit(pkgs, nil, func(p *packages.Package) {
		for _, e := range p.Errors {
			if strings.HasPrefix(p.PkgPath, "github.com/snower/slock") {
				fmt.Fprintln(os.Stderr, "load error:", e)
				nerr++
			}
		}
	})
	if nerr > 0 {
		fmt.Fprintln(os.Stderr, "BUILD-FAILED: the repository (with the harness overlay) does not type-check")
		os.Exit(3)
	}
	prog, spkgs := ssautil.AllPackages(pkgs, ssa.InstantiateGenerics)
	var hpkg *ssa.Package
	for _, p := range spkgs {
		if p != nil {
			hpkg = p
		}
	}
	if hpkg == nil {
		fatal(fmt.Errorf("no package"))
	}
	// build every package's SSA up front: lazy building from several workers races
	prog.Build()
	for _, p := range prog.AllPackages() {
		built[p] = true
	}
	loadSec := time.Since(t0).Seconds()

	if *list {
		var names []string
		for name, m := range hpkg.Members {
			if f, ok := m.(*ssa.Function); ok && strings.HasPrefix(name, "vfH_") {
				_ = f
				names = append(names, strings.TrimPrefix(name, "vfH_"))
			}
		}
		sort.Strings(names)
		for _, n := range names {
			fmt.Println(n)
		}
		return
	}
	entry := hpkg.Func("vfH_" + *harness)
	if entry == nil {
		fatal(fmt.Errorf("harness vfH_%s not found in %s", *harness, hpkg.Pkg.Path()))
	}
	c := Config{Harness: *harness, Pkg: *pkgPat, Workers: *workers, SolverKind: *solver, TimeoutMs: *timeout,
		MaxSteps: *maxSteps, MaxPaths: *maxPaths, WitnessEach: *witness, BlockedModels: *blockedModels, Verbose: *verbose, SolverLog: *slog, AltSolver: *alt, NoMerge: *nomerge}
	if *budget > 0 {
		c.Deadline = time.Now().Add(time.Duration(*budget) * time.Second)
	}
	if *fixed != "" {
		b, err := os.ReadFile(*fixed)
		if err != nil {
			fatal(err)
		}
		c.Fixed = map[string]uint64{}
		if err := json.Unmarshal(b, &c.Fixed); err != nil {
			fatal(err)
		}
	}
	if *known != "" {
		b, err := os.ReadFile(*known)
		if err == nil {
			var kf struct {
				Findings []KnownFinding `json:"findings"`
			}
			if err := json.Unmarshal(b, &kf); err != nil {
				fatal(fmt.Errorf("known findings: %v", err))
			}
			c.Known = kf.Findings
		}
	}
	x := NewExplorer(prog, hpkg, entry, c)
	t1 := time.Now()
	x.Run()
	st := x.stats
	o := Output{Harness: *harness, Pkg: *pkgPat, Paths: st.Paths, ByKind: st.ByKind, Branches: st.Branches,
		Obligations: st.Obligations, Discharged: st.Discharged, ConcreteObl: st.ConcreteObl,
		SolverQ: st.SolverQ, SolverSec: st.SolverTime.Seconds(), SolverErrors: st.SolverErrors, Inconclusive: st.Inconclusive,
		AltAgree: st.AltAgree, AltDisagree: st.AltDisagree, Reach: st.Reach, Known: st.Known, Fallback: st.Fallback,
		Funcs: sortedKeys(st.Funcs), Stubs: sortedKeys(st.Stubs), WallSec: time.Since(t1).Seconds(), LoadSec: loadSec,
		Results: x.res, Solver: *solver, Alt: *alt, Complete: !x.stop, MaxSteps: *maxSteps}
	sort.Slice(o.Results, func(i, j int) bool {
		if o.Results[i].Kind != o.Results[j].Kind {
			return o.Results[i].Kind < o.Results[j].Kind
		}
		return o.Results[i].Msg < o.Results[j].Msg
	})
	b, _ := json.MarshalIndent(o, "", " ")
	if *out != "" {
		if err := os.WriteFile(*out, b, 0644); err != nil {
			fatal(err)
		}
	}
	fmt.Printf("harness=%s paths=%d kinds=%v obligations=%d discharged=%d solverq=%d solver=%.1fs wall=%.1fs load=%.1fs inconclusive=%d complete=%v\n",
		*harness, st.Paths, st.ByKind, st.Obligations, st.Discharged, st.SolverQ, st.SolverTime.Seconds(), time.Since(t1).Seconds(), loadSec, st.Inconclusive, o.Complete)
	if *verbose {
		type kv struct {
			k string
			v int
		}
		var kvs []kv
		for k, v := range x.forkSites {
			kvs = append(kvs, kv{k, v})
		}
		sort.Slice(kvs, func(i, j int) bool { return kvs[i].v > kvs[j].v })
		for i, e := range kvs {
			if i < 25 {
				fmt.Printf("  forks %8d  %s\n", e.v, e.k)
			}
		}
		seen := map[string]int{}
		for _, r := range o.Results {
			if r.Kind != "ok" {
				k := r.Kind + r.Msg
				seen[k]++
				if seen[k] <= 2 {
					mm := r.Model
					if len(mm) > 40 {
						mm = map[string]uint64{}
						for k, v := range r.Model {
							if v != 0 && len(mm) < 40 {
								mm[k] = v
							}
						}
					}
					fmt.Printf("  %s: %s @%s\n    stack: %s\n    model(nonzero): %v\n", r.Kind, r.Msg, r.Where, r.Stack, mm)
				}
			}
		}
		for k, n := range seen {
			if n > 2 {
				fmt.Printf("  (%d x) %s\n", n, k)
			}
		}
	}
}

func fatal(err error) {
	fmt.Fprintln(os.Stderr, "symgo:", err)
	os.Exit(2)
}
