package main

// One long-lived solver process per worker (z3 -in by default).  Terms are
// sent as define-funs, once, with :global-declarations so that they survive
// push/pop.  Any "(error" line in the output makes the query inconclusive.

import (
	"bufio"
	"fmt"
	"io"
	"os"
	"os/exec"
	"strconv"
	"strings"
	"time"
)

type SatResult int

const (
	Unsat SatResult = iota
	Sat
	Unknown
)

func (r SatResult) String() string {
	return [...]string{"unsat", "sat", "unknown"}[r]
}

type Solver struct {
	kind     string // z3 | z3-new | cvc5 | cvc5-int
	cmd      *exec.Cmd
	in       io.WriteCloser
	out      *bufio.Reader
	defined  map[uint32]bool
	ufs      map[string]bool
	vars     map[string]bool
	level    int
	scopes   []scope
	Queries  int
	Time     time.Duration
	ValTime  time.Duration
	ValCalls int
	Errors   int
	log      io.Writer
	timeout  int // ms per query
	dead     bool
}

func solverArgv(kind string, timeoutMs int) []string {
	switch kind {
	case "z3":
		return []string{"z3", "-in"}
	case "z3-new":
		return []string{"z3-new", "-in"}
	case "cvc5":
		return []string{"cvc5", "--incremental", "--produce-models", fmt.Sprintf("--tlimit-per=%d", timeoutMs)}
	case "cvc5-int":
		return []string{"cvc5", "--incremental", "--produce-models", "--solve-bv-as-int=sum", fmt.Sprintf("--tlimit-per=%d", timeoutMs)}
	}
	panic("unknown solver " + kind)
}

func NewSolver(kind string, timeoutMs int) (*Solver, error) {
	argv := solverArgv(kind, timeoutMs)
	cmd := exec.Command(argv[0], argv[1:]...)
	in, err := cmd.StdinPipe()
	if err != nil {
		return nil, err
	}
	outp, err := cmd.StdoutPipe()
	if err != nil {
		return nil, err
	}
	cmd.Stderr = os.Stderr
	if err := cmd.Start(); err != nil {
		return nil, err
	}
	s := &Solver{kind: kind, cmd: cmd, in: in, out: bufio.NewReaderSize(outp, 1<<16),
		defined: map[uint32]bool{}, ufs: map[string]bool{}, vars: map[string]bool{}, timeout: timeoutMs}
	if strings.HasPrefix(kind, "z3") {
		s.send(fmt.Sprintf("(set-option :timeout %d)", timeoutMs))
	} else {
		s.send("(set-logic ALL)")
	}
	return s, nil
}

func (s *Solver) Close() {
	if s == nil || s.dead {
		return
	}
	s.dead = true
	s.in.Close()
	done := make(chan struct{})
	go func() { s.cmd.Wait(); close(done) }()
	select {
	case <-done:
	case <-time.After(2 * time.Second):
		s.cmd.Process.Kill()
	}
}

func (s *Solver) send(line string) {
	if s.log != nil {
		fmt.Fprintln(s.log, line)
	}
	io.WriteString(s.in, line)
	io.WriteString(s.in, "\n")
}

// declare makes sure every node of t is known to the solver.
func (s *Solver) declare(t *Term) {
	if t.op == OpConst {
		return
	}
	if t.op == OpVar {
		if !s.vars[t.name] {
			s.vars[t.name] = true
			s.noteVar(t.name)
			s.send(fmt.Sprintf("(declare-fun %s () %s)", smtName(t.name), sortOf(t.w)))
		}
		return
	}
	if s.defined[t.id] {
		return
	}
	// iterative post-order to avoid deep recursion
	type fr struct {
		t *Term
		i int
	}
	stack := []fr{{t, 0}}
	for len(stack) > 0 {
		top := &stack[len(stack)-1]
		ks := top.t.kids()
		if top.i < len(ks) {
			k := ks[top.i]
			top.i++
			if k.op == OpConst {
				continue
			}
			if k.op == OpVar {
				s.declare(k)
				continue
			}
			if !s.defined[k.id] {
				stack = append(stack, fr{k, 0})
			}
			continue
		}
		n := top.t
		stack = stack[:len(stack)-1]
		if s.defined[n.id] {
			continue
		}
		if n.op == OpUF && !s.ufs[n.name] {
			s.ufs[n.name] = true
			s.noteUF(n.name)
			var sb strings.Builder
			for _, x := range n.list {
				sb.WriteString(sortOf(x.w) + " ")
			}
			s.send(fmt.Sprintf("(declare-fun %s (%s) %s)", smtName(n.name), sb.String(), sortOf(n.w)))
		}
		s.defined[n.id] = true
		s.noteDef(n.id)
		s.send(fmt.Sprintf("(define-fun t%d () %s %s)", n.id, sortOf(n.w), body(n)))
	}
}

// Declarations and definitions are scoped: what was introduced inside a push
// level disappears with the matching pop (a solver that keeps thousands of
// global define-funs becomes slow at building models).
func (s *Solver) Push() {
	s.level++
	s.scopes = append(s.scopes, scope{})
	s.send("(push 1)")
}

func (s *Solver) Pop() {
	s.level--
	sc := s.scopes[len(s.scopes)-1]
	s.scopes = s.scopes[:len(s.scopes)-1]
	for _, id := range sc.defs {
		delete(s.defined, id)
	}
	for _, n := range sc.vars {
		delete(s.vars, n)
	}
	for _, n := range sc.ufs {
		delete(s.ufs, n)
	}
	s.send("(pop 1)")
}

type scope struct {
	defs []uint32
	vars []string
	ufs  []string
}

func (s *Solver) noteDef(id uint32) {
	if n := len(s.scopes); n > 0 {
		s.scopes[n-1].defs = append(s.scopes[n-1].defs, id)
	}
}

func (s *Solver) noteVar(name string) {
	if n := len(s.scopes); n > 0 {
		s.scopes[n-1].vars = append(s.scopes[n-1].vars, name)
	}
}

func (s *Solver) noteUF(name string) {
	if n := len(s.scopes); n > 0 {
		s.scopes[n-1].ufs = append(s.scopes[n-1].ufs, name)
	}
}

func (s *Solver) Assert(t *Term) {
	if t.IsTrue() {
		return
	}
	s.declare(t)
	s.send(fmt.Sprintf("(assert %s)", ref(t)))
}

func (s *Solver) readLine() (string, error) {
	line, err := s.out.ReadString('\n')
	return strings.TrimSpace(line), err
}

// Check runs check-sat under the current assertions.
func (s *Solver) Check() SatResult {
	t0 := time.Now()
	s.Queries++
	s.send("(check-sat)")
	defer func() { s.Time += time.Since(t0) }()
	for {
		line, err := s.readLine()
		if err != nil {
			s.Errors++
			s.dead = true
			return Unknown
		}
		switch {
		case line == "sat":
			return Sat
		case line == "unsat":
			return Unsat
		case line == "unknown" || line == "timeout":
			return Unknown
		case strings.HasPrefix(line, "(error"):
			s.Errors++
			fmt.Fprintln(os.Stderr, "solver error:", line)
			// keep reading: the answer (if any) still follows, but it is not trusted
			ans, _ := s.readLine()
			_ = ans
			return Unknown
		case line == "":
			continue
		default:
			// unexpected chatter
			fmt.Fprintln(os.Stderr, "solver says:", line)
		}
	}
}

// CheckWith checks the current assertions plus extra (scoped).
func (s *Solver) CheckWith(extra ...*Term) SatResult {
	s.Push()
	for _, e := range extra {
		s.Assert(e)
	}
	r := s.Check()
	s.Pop()
	return r
}

// Values returns the model values of the given terms (after a Sat answer, in
// the same scope).
func (s *Solver) Values(ts []*Term) ([]uint64, error) {
	t0 := time.Now()
	defer func() { s.ValTime += time.Since(t0); s.ValCalls++ }()
	res := make([]uint64, len(ts))
	// batch in chunks
	const chunk = 64
	for i := 0; i < len(ts); i += chunk {
		j := i + chunk
		if j > len(ts) {
			j = len(ts)
		}
		var sb strings.Builder
		sb.WriteString("(get-value (")
		for _, t := range ts[i:j] {
			s.declare(t)
			sb.WriteString(ref(t) + " ")
		}
		sb.WriteString("))")
		s.send(sb.String())
		txt, err := s.readSexp()
		if err != nil {
			return nil, err
		}
		vals, err := parseValues(txt, j-i)
		if err != nil {
			return nil, fmt.Errorf("%v in %q", err, txt)
		}
		copy(res[i:j], vals)
	}
	return res, nil
}

func (s *Solver) readSexp() (string, error) {
	var sb strings.Builder
	depth := 0
	started := false
	for {
		b, err := s.out.ReadByte()
		if err != nil {
			return sb.String(), err
		}
		sb.WriteByte(b)
		if b == '(' {
			depth++
			started = true
		} else if b == ')' {
			depth--
		}
		if started && depth == 0 {
			return sb.String(), nil
		}
	}
}

// parseValues parses ((name val) (name val) ...) and returns the vals in order.
func parseValues(txt string, n int) ([]uint64, error) {
	if strings.Contains(txt, "(error") {
		return nil, fmt.Errorf("solver error")
	}
	// tokenise
	var toks []string
	cur := ""
	inBar := false
	for _, r := range txt {
		if inBar {
			cur += string(r)
			if r == '|' {
				inBar = false
			}
			continue
		}
		switch r {
		case '|':
			inBar = true
			cur += "|"
		case '(', ')':
			if cur != "" {
				toks = append(toks, cur)
				cur = ""
			}
			toks = append(toks, string(r))
		case ' ', '\n', '\t', '\r':
			if cur != "" {
				toks = append(toks, cur)
				cur = ""
			}
		default:
			cur += string(r)
		}
	}
	// grammar: ( ( expr val ) ... ) where expr is an atom here (we only ask for names)
	pos := 0
	expect := func(s string) error {
		if pos >= len(toks) || toks[pos] != s {
			return fmt.Errorf("expected %q at %d", s, pos)
		}
		pos++
		return nil
	}
	if err := expect("("); err != nil {
		return nil, err
	}
	var out []uint64
	for pos < len(toks) && toks[pos] == "(" {
		pos++
		pos++ // name
		// value: atom or (_ bvN w)
		var v uint64
		if toks[pos] == "(" {
			// (_ bvN w)
			if pos+4 < len(toks) && toks[pos+1] == "_" && strings.HasPrefix(toks[pos+2], "bv") {
				x, err := strconv.ParseUint(toks[pos+2][2:], 10, 64)
				if err != nil {
					return nil, err
				}
				v = x
				pos += 5
			} else {
				return nil, fmt.Errorf("unparsed value at %d", pos)
			}
		} else {
			a := toks[pos]
			pos++
			switch {
			case a == "true":
				v = 1
			case a == "false":
				v = 0
			case strings.HasPrefix(a, "#x"):
				x, err := strconv.ParseUint(a[2:], 16, 64)
				if err != nil {
					return nil, err
				}
				v = x
			case strings.HasPrefix(a, "#b"):
				x, err := strconv.ParseUint(a[2:], 2, 64)
				if err != nil {
					return nil, err
				}
				v = x
			default:
				return nil, fmt.Errorf("unparsed atom %q", a)
			}
		}
		if err := expect(")"); err != nil {
			return nil, err
		}
		out = append(out, v)
	}
	if len(out) != n {
		return nil, fmt.Errorf("got %d values, want %d", len(out), n)
	}
	return out, nil
}
