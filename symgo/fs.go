package main

// File-system model: a map name -> in-memory file whose bytes are terms and
// whose length is concrete.  os.File values are pointers to a cell holding a
// *FileObj.  Every mutation (create, write, truncate, remove, rename, mkdir) is
// appended to a log together with a snapshot, so that a harness can restore
// "the directory as it was after the i-th mutation" (a crash image).

import (
	"fmt"
	"go/types"
	"path/filepath"
	"sort"
	"strings"

	"golang.org/x/tools/go/ssa"
)

type MemFile struct {
	data  []*Term
	isDir bool
}

type FileObj struct {
	name   string
	pos    int
	closed bool
	appendMode bool
	wr     bool
}

type fsSnapshot struct {
	op    string
	files map[string]*MemFile
}

type FSModel struct {
	files map[string]*MemFile
	log   []fsSnapshot
	short int // >0: reads return at most this many bytes (short-read mode)
}

func (e *Exec) fsm() *FSModel {
	if e.fs == nil {
		e.fs = &FSModel{files: map[string]*MemFile{}}
	}
	return e.fs
}

func (fs *FSModel) copyFiles() map[string]*MemFile {
	m := map[string]*MemFile{}
	for k, f := range fs.files {
		m[k] = &MemFile{data: append([]*Term(nil), f.data...), isDir: f.isDir}
	}
	return m
}

func (fs *FSModel) mutated(op string) {
	fs.log = append(fs.log, fsSnapshot{op, fs.copyFiles()})
}

func (e *Exec) errNotExist(name string) Value {
	return e.mkError("open " + name + ": no such file or directory")
}

func (e *Exec) ioEOF() Value {
	p := e.prog.ImportedPackage("io")
	if p == nil {
		panic(unsupported("io package not loaded"))
	}
	g := p.Var("EOF")
	return copyVal(*e.global(g))
}

func (e *Exec) fileObj(v Value) *FileObj {
	p, ok := v.(*Value)
	if !ok || p == nil {
		panic(targetPanic{v: "invalid argument: nil *os.File", kind: "nil pointer dereference", fn: e.curFn()})
	}
	fo, ok := (*p).(*FileObj)
	if !ok {
		panic(unsupported("os.File not created by the file-system model"))
	}
	return fo
}

func (e *Exec) mkFileInfo(name string, f *MemFile) Value {
	osPkg := e.prog.ImportedPackage("os")
	t := osPkg.Type("fileStat")
	st := e.zero(t.Type()).(Struct)
	ut := t.Type().Underlying().(*types.Struct)
	for i := 0; i < ut.NumFields(); i++ {
		switch ut.Field(i).Name() {
		case "name":
			st[i] = filepath.Base(name)
		case "size":
			st[i] = e.ts.Const(64, uint64(len(f.data)))
		case "mode":
			if f.isDir {
				st[i] = e.ts.Const(32, uint64(1)<<31|0755)
			} else {
				st[i] = e.ts.Const(32, 0644)
			}
		}
	}
	p := new(Value)
	*p = st
	return Iface{t: types.NewPointer(t.Type()), v: p}
}

func nilErr() Value { return Iface{} }

func registerFSStubs() {
	stubs["os.Stat"] = func(e *Exec, fn *ssa.Function, a []Value) Value {
		name := argStr(a[0])
		f, ok := e.fsm().files[name]
		if !ok {
			return Tuple{Iface{}, e.errNotExist(name)}
		}
		return Tuple{e.mkFileInfo(name, f), nilErr()}
	}
	stubs["os.IsNotExist"] = func(e *Exec, fn *ssa.Function, a []Value) Value {
		iv := a[0].(Iface)
		if iv.t == nil {
			return e.ts.False
		}
		return e.ts.Bool(strings.Contains(e.describe(iv), "no such file"))
	}
	stubs["os.Mkdir"] = func(e *Exec, fn *ssa.Function, a []Value) Value {
		name := argStr(a[0])
		fs := e.fsm()
		if _, ok := fs.files[name]; ok {
			return e.mkError("mkdir " + name + ": file exists")
		}
		fs.files[name] = &MemFile{isDir: true}
		fs.mutated("mkdir " + name)
		return nilErr()
	}
	stubs["os.OpenFile"] = func(e *Exec, fn *ssa.Function, a []Value) Value {
		name := argStr(a[0])
		flag := int(a[1].(*Term).c)
		fs := e.fsm()
		const oWRONLY, oRDWR, oAPPEND, oCREATE, oTRUNC = 0x1, 0x2, 0x400, 0x40, 0x200
		f, ok := fs.files[name]
		if !ok {
			if flag&oCREATE == 0 {
				return Tuple{(*Value)(nil), e.errNotExist(name)}
			}
			f = &MemFile{}
			fs.files[name] = f
			fs.mutated("create " + name)
		} else if flag&oTRUNC != 0 && len(f.data) > 0 {
			f.data = nil
			fs.mutated("truncate " + name)
		}
		fo := &FileObj{name: name, appendMode: flag&oAPPEND != 0, wr: flag&(oWRONLY|oRDWR) != 0}
		p := new(Value)
		*p = fo
		return Tuple{p, nilErr()}
	}
	stubs["os.Open"] = func(e *Exec, fn *ssa.Function, a []Value) Value {
		return stubs["os.OpenFile"](e, fn, []Value{a[0], e.ts.Const(64, 0), e.ts.Const(32, 0)})
	}
	stubs["os.Create"] = func(e *Exec, fn *ssa.Function, a []Value) Value {
		return stubs["os.OpenFile"](e, fn, []Value{a[0], e.ts.Const(64, 0x2|0x40|0x200), e.ts.Const(32, 0666)})
	}
	stubs["(*os.File).Write"] = func(e *Exec, fn *ssa.Function, a []Value) Value {
		fo := e.fileObj(a[0])
		fs := e.fsm()
		f, ok := fs.files[fo.name]
		if fo.closed || !ok {
			return Tuple{e.ts.Const(64, 0), e.mkError("write " + fo.name + ": file already closed")}
		}
		buf := a[1].(Slice)
		if fo.appendMode {
			fo.pos = len(f.data)
		}
		for i, b := range buf {
			t := b.(*Term)
			if fo.pos+i < len(f.data) {
				f.data[fo.pos+i] = t
			} else {
				f.data = append(f.data, t)
			}
		}
		fo.pos += len(buf)
		if len(buf) > 0 {
			fs.mutated(fmt.Sprintf("write %s %d", fo.name, len(buf)))
		}
		return Tuple{e.ts.Const(64, uint64(len(buf))), nilErr()}
	}
	stubs["(*os.File).Read"] = func(e *Exec, fn *ssa.Function, a []Value) Value {
		fo := e.fileObj(a[0])
		fs := e.fsm()
		f, ok := fs.files[fo.name]
		if fo.closed || !ok {
			return Tuple{e.ts.Const(64, 0), e.mkError("read " + fo.name + ": file already closed")}
		}
		buf := a[1].(Slice)
		if len(buf) == 0 {
			return Tuple{e.ts.Const(64, 0), nilErr()}
		}
		rem := len(f.data) - fo.pos
		if rem <= 0 {
			return Tuple{e.ts.Const(64, 0), e.ioEOF()}
		}
		n := len(buf)
		if rem < n {
			n = rem
		}
		if fs.short > 0 && n > fs.short {
			n = fs.short
		}
		for i := 0; i < n; i++ {
			buf[i] = f.data[fo.pos+i]
		}
		fo.pos += n
		return Tuple{e.ts.Const(64, uint64(n)), nilErr()}
	}
	stubs["(*os.File).ReadAt"] = func(e *Exec, fn *ssa.Function, a []Value) Value {
		fo := e.fileObj(a[0])
		f, ok := e.fsm().files[fo.name]
		if fo.closed || !ok {
			return Tuple{e.ts.Const(64, 0), e.mkError("read " + fo.name + ": file already closed")}
		}
		buf := a[1].(Slice)
		off := int(e.concretize(a[2].(*Term), 300, "ReadAt offset"))
		n := 0
		for i := range buf {
			if off+i >= len(f.data) || off+i < 0 {
				break
			}
			buf[i] = f.data[off+i]
			n++
		}
		if n < len(buf) {
			return Tuple{e.ts.Const(64, uint64(n)), e.ioEOF()}
		}
		return Tuple{e.ts.Const(64, uint64(n)), nilErr()}
	}
	stubs["(*os.File).Close"] = func(e *Exec, fn *ssa.Function, a []Value) Value {
		p, _ := a[0].(*Value)
		if p == nil {
			return e.mkError("invalid argument")
		}
		fo := e.fileObj(a[0])
		if fo.closed {
			return e.mkError("close " + fo.name + ": file already closed")
		}
		fo.closed = true
		return nilErr()
	}
	stubs["(*os.File).Sync"] = func(e *Exec, fn *ssa.Function, a []Value) Value { return nilErr() }
	stubs["(*os.File).Truncate"] = func(e *Exec, fn *ssa.Function, a []Value) Value {
		fo := e.fileObj(a[0])
		fs := e.fsm()
		f, ok := fs.files[fo.name]
		if !ok {
			return e.errNotExist(fo.name)
		}
		n := int(e.concretize(a[1].(*Term), 300, "Truncate size"))
		if n < len(f.data) {
			f.data = f.data[:n]
		}
		fs.mutated(fmt.Sprintf("truncate %s %d", fo.name, n))
		return nilErr()
	}
	stubs["(*os.File).Stat"] = func(e *Exec, fn *ssa.Function, a []Value) Value {
		fo := e.fileObj(a[0])
		f, ok := e.fsm().files[fo.name]
		if !ok {
			return Tuple{Iface{}, e.errNotExist(fo.name)}
		}
		return Tuple{e.mkFileInfo(fo.name, f), nilErr()}
	}
	stubs["(*os.File).Name"] = func(e *Exec, fn *ssa.Function, a []Value) Value { return e.fileObj(a[0]).name }
	stubs["os.Remove"] = func(e *Exec, fn *ssa.Function, a []Value) Value {
		name := argStr(a[0])
		fs := e.fsm()
		if _, ok := fs.files[name]; !ok {
			return e.errNotExist(name)
		}
		delete(fs.files, name)
		fs.mutated("remove " + name)
		return nilErr()
	}
	stubs["os.Rename"] = func(e *Exec, fn *ssa.Function, a []Value) Value {
		from, to := argStr(a[0]), argStr(a[1])
		fs := e.fsm()
		f, ok := fs.files[from]
		if !ok {
			return e.errNotExist(from)
		}
		if t, ok := fs.files[to]; ok && t.isDir {
			return e.mkError("rename " + from + " " + to + ": file exists")
		}
		delete(fs.files, from)
		fs.files[to] = f
		fs.mutated("rename " + from + " " + to)
		return nilErr()
	}
	stubs["path/filepath.Join"] = func(e *Exec, fn *ssa.Function, a []Value) Value {
		var parts []string
		for _, x := range a[0].(Slice) {
			parts = append(parts, argStr(x))
		}
		return filepath.Join(parts...)
	}
	stubs["path/filepath.Abs"] = func(e *Exec, fn *ssa.Function, a []Value) Value {
		p := argStr(a[0])
		if !filepath.IsAbs(p) {
			p = filepath.Join("/vfcwd", p)
		}
		return Tuple{filepath.Clean(p), nilErr()}
	}
	stubs["path/filepath.Base"] = func(e *Exec, fn *ssa.Function, a []Value) Value { return filepath.Base(argStr(a[0])) }
	stubs["path/filepath.Walk"] = func(e *Exec, fn *ssa.Function, a []Value) Value {
		root := argStr(a[0])
		fs := e.fsm()
		var names []string
		for n := range fs.files {
			if n == root || strings.HasPrefix(n, strings.TrimSuffix(root, "/")+"/") {
				names = append(names, n)
			}
		}
		sort.Strings(names)
		if _, ok := fs.files[root]; !ok {
			r := e.call(a[1], []Value{root, Iface{}, e.errNotExist(root)})
			return r
		}
		for _, n := range names {
			f, ok := fs.files[n]
			if !ok {
				continue // removed by the callback
			}
			r := e.call(a[1], []Value{n, e.mkFileInfo(n, f), nilErr()})
			if iv, ok := r.(Iface); ok && iv.t != nil {
				return r
			}
		}
		return nilErr()
	}

	// harness intrinsics for the file-system model
	intrinsics["vfFSDir"] = func(e *Exec, fn *ssa.Function, a []Value) Value {
		fs := e.fsm()
		if _, ok := fs.files["/vfdata"]; !ok {
			fs.files["/vfdata"] = &MemFile{isDir: true}
		}
		return "/vfdata"
	}
	intrinsics["vfFSWrite"] = func(e *Exec, fn *ssa.Function, a []Value) Value {
		name := argStr(a[0])
		var data []*Term
		for _, b := range a[1].(Slice) {
			data = append(data, b.(*Term))
		}
		e.fsm().files[name] = &MemFile{data: data}
		return nil
	}
	intrinsics["vfFSRead"] = func(e *Exec, fn *ssa.Function, a []Value) Value {
		f, ok := e.fsm().files[argStr(a[0])]
		if !ok {
			return Slice(nil)
		}
		s := make(Slice, len(f.data))
		for i, t := range f.data {
			s[i] = t
		}
		return s
	}
	intrinsics["vfFSExists"] = func(e *Exec, fn *ssa.Function, a []Value) Value {
		_, ok := e.fsm().files[argStr(a[0])]
		return e.ts.Bool(ok)
	}
	intrinsics["vfFSRemove"] = func(e *Exec, fn *ssa.Function, a []Value) Value {
		delete(e.fsm().files, argStr(a[0]))
		return nil
	}
	intrinsics["vfMkdir"] = func(e *Exec, fn *ssa.Function, a []Value) Value {
		e.fsm().files[argStr(a[0])] = &MemFile{isDir: true}
		return nil
	}
	intrinsics["vfFSMutations"] = func(e *Exec, fn *ssa.Function, a []Value) Value {
		return e.ts.Const(64, uint64(len(e.fsm().log)))
	}
	intrinsics["vfFSMutationName"] = func(e *Exec, fn *ssa.Function, a []Value) Value {
		return e.fsm().log[e.argInt(a[0], "mutation index")].op
	}
	// vfFSRestore(i): the directory as it was right after mutation i (0 = before the first logged one is impossible: use vfFSMark)
	intrinsics["vfFSRestore"] = func(e *Exec, fn *ssa.Function, a []Value) Value {
		fs := e.fsm()
		i := e.argInt(a[0], "mutation index")
		snap := fs.log[i]
		fs.files = map[string]*MemFile{}
		for k, f := range snap.files {
			fs.files[k] = &MemFile{data: append([]*Term(nil), f.data...), isDir: f.isDir}
		}
		return nil
	}
	// vfFSMark(): logs a no-op mutation carrying a snapshot of the current state; returns its index
	intrinsics["vfFSMark"] = func(e *Exec, fn *ssa.Function, a []Value) Value {
		fs := e.fsm()
		fs.mutated("mark")
		return e.ts.Const(64, uint64(len(fs.log)-1))
	}
	intrinsics["vfFSShortReads"] = func(e *Exec, fn *ssa.Function, a []Value) Value {
		e.fsm().short = e.argInt(a[0], "short read size")
		return nil
	}
}
