package main

// File-system model (filled in with the AOF checks).

type FSModel struct{}

func registerFSStubs() {}
