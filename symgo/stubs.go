package main

// Harness intrinsics and environment stubs.  Every stub that a run reaches is
// listed in the evidence (Stats.Stubs).

import (
	"fmt"
	"go/types"
	"regexp"
	"strings"

	"golang.org/x/tools/go/ssa"
)

type stubFn func(e *Exec, fn *ssa.Function, args []Value) Value

var intrinsics map[string]stubFn
var stubs map[string]stubFn

func argStr(v Value) string {
	s, ok := v.(string)
	if !ok {
		panic(unsupported("intrinsic name argument must be a concrete string, got %T", v))
	}
	return s
}

func (e *Exec) argInt(v Value, what string) int {
	t := v.(*Term)
	if !t.IsConst() {
		return int(e.concretize(t, 64, what))
	}
	return int(sval(t.w, t.c))
}

func init() {
	intrinsics = map[string]stubFn{
		"vfU8":   func(e *Exec, fn *ssa.Function, a []Value) Value { return e.input(argStr(a[0]), 8) },
		"vfU16":  func(e *Exec, fn *ssa.Function, a []Value) Value { return e.input(argStr(a[0]), 16) },
		"vfU32":  func(e *Exec, fn *ssa.Function, a []Value) Value { return e.input(argStr(a[0]), 32) },
		"vfU64":  func(e *Exec, fn *ssa.Function, a []Value) Value { return e.input(argStr(a[0]), 64) },
		"vfI64":  func(e *Exec, fn *ssa.Function, a []Value) Value { return e.input(argStr(a[0]), 64) },
		"vfInt":  func(e *Exec, fn *ssa.Function, a []Value) Value { return e.input(argStr(a[0]), 64) },
		"vfBool": func(e *Exec, fn *ssa.Function, a []Value) Value { return e.input(argStr(a[0]), 0) },
		"vfBytes": func(e *Exec, fn *ssa.Function, a []Value) Value {
			name := argStr(a[0])
			n := e.argInt(a[1], "vfBytes length")
			s := make(Slice, n)
			for i := range s {
				s[i] = e.input(fmt.Sprintf("%s[%d]", name, i), 8)
			}
			return s
		},
		"vfString": func(e *Exec, fn *ssa.Function, a []Value) Value {
			name := argStr(a[0])
			n := e.argInt(a[1], "vfString length")
			b := make([]*Term, n)
			for i := range b {
				b[i] = e.input(fmt.Sprintf("%s[%d]", name, i), 8)
			}
			return mkStr(b)
		},
		"vfArr16": func(e *Exec, fn *ssa.Function, a []Value) Value {
			name := argStr(a[0])
			s := make(Array, 16)
			for i := range s {
				s[i] = e.input(fmt.Sprintf("%s[%d]", name, i), 8)
			}
			return s
		},
		"vfChoice": func(e *Exec, fn *ssa.Function, a []Value) Value {
			name := argStr(a[0])
			n := e.argInt(a[1], "vfChoice n")
			if e.x.cfg.Fixed != nil {
				return e.input(name, 64)
			}
			if !e.inputIx[name] {
				v := e.input(name, 64)
				return e.ts.Const(64, uint64(e.forkN(v, n, 0)))
			}
			v := e.input(name, 64)
			e.assume(e.ts.Ult(v, e.ts.Const(64, uint64(n))))
			for i := 0; i < n-1; i++ {
				if e.branch(e.ts.Eq(v, e.ts.Const(64, uint64(i)))) {
					return e.ts.Const(64, uint64(i))
				}
			}
			return e.ts.Const(64, uint64(n-1))
		},
		"vfRange": func(e *Exec, fn *ssa.Function, a []Value) Value {
			name := argStr(a[0])
			lo := e.argInt(a[1], "vfRange lo")
			hi := e.argInt(a[2], "vfRange hi")
			if e.x.cfg.Fixed != nil {
				return e.input(name, 64)
			}
			if !e.inputIx[name] {
				v := e.input(name, 64)
				return e.ts.Const(64, uint64(int64(lo)+int64(e.forkN(v, hi-lo+1, int64(lo)))))
			}
			v := e.input(name, 64)
			e.assume(e.ts.And(e.ts.Sle(e.ts.Const(64, uint64(lo)), v), e.ts.Sle(v, e.ts.Const(64, uint64(hi)))))
			for i := lo; i < hi; i++ {
				if e.branch(e.ts.Eq(v, e.ts.Const(64, uint64(i)))) {
					return e.ts.Const(64, uint64(i))
				}
			}
			return e.ts.Const(64, uint64(hi))
		},
		"vfAssume": func(e *Exec, fn *ssa.Function, a []Value) Value {
			e.assume(a[0].(*Term))
			return nil
		},
		"vfAssert": func(e *Exec, fn *ssa.Function, a []Value) Value {
			e.obligation(a[0].(*Term), argStr(a[1]))
			return nil
		},
		"vfFail": func(e *Exec, fn *ssa.Function, a []Value) Value {
			e.obligation(e.ts.False, argStr(a[0]))
			return nil
		},
		"vfReach": func(e *Exec, fn *ssa.Function, a []Value) Value {
			e.reach = append(e.reach, argStr(a[0]))
			return nil
		},
		"vfObserve": func(e *Exec, fn *ssa.Function, a []Value) Value {
			e.obs = append(e.obs, struct {
				tag string
				t   *Term
			}{argStr(a[0]), a[1].(*Term)})
			return nil
		},
		"vfObserveBytes": func(e *Exec, fn *ssa.Function, a []Value) Value {
			tag := argStr(a[0])
			for i, b := range a[1].(Slice) {
				e.obs = append(e.obs, struct {
					tag string
					t   *Term
				}{fmt.Sprintf("%s[%d]", tag, i), b.(*Term)})
			}
			e.obs = append(e.obs, struct {
				tag string
				t   *Term
			}{tag + ".len", e.ts.Const(64, uint64(len(a[1].(Slice))))})
			return nil
		},
		"vfConcrete": func(e *Exec, fn *ssa.Function, a []Value) Value {
			t := a[0].(*Term)
			return e.ts.Const(t.w, e.concretize(t, 300, "vfConcrete"))
		},
		"vfSymbolic": func(e *Exec, fn *ssa.Function, a []Value) Value { return e.ts.True },
		"vfSetClock": func(e *Exec, fn *ssa.Function, a []Value) Value {
			e.clockSec = a[0].(*Term)
			e.clockNsec = a[1].(*Term)
			return nil
		},
		"vfSpawnCount": func(e *Exec, fn *ssa.Function, a []Value) Value {
			return e.ts.Const(64, uint64(len(e.spawned)))
		},
		"vfRunSpawned": func(e *Exec, fn *ssa.Function, a []Value) Value {
			i := e.argInt(a[0], "vfRunSpawned")
			s := e.spawned[i]
			e.callValue(nil, s.fn, s.args)
			return nil
		},
		// vfRunSpawnedToBlock(i): runs recorded goroutine i until it returns (false) or blocks (true); a goroutine
		// that blocks stays parked for good (its frames are dropped, the state it changed stays)
		"vfRunSpawnedToBlock": func(e *Exec, fn *ssa.Function, a []Value) (res Value) {
			i := e.argInt(a[0], "vfRunSpawnedToBlock")
			s := e.spawned[i]
			depth, ddepth := len(e.callStack), len(e.deferFrame)
			res = e.ts.False
			defer func() {
				if r := recover(); r != nil {
					pe, ok := r.(pathEnd)
					if !ok || pe.kind != "blocked" {
						panic(r)
					}
					e.callStack = e.callStack[:depth]
					e.deferFrame = e.deferFrame[:ddepth]
					res = e.ts.True
				}
			}()
			e.callValue(nil, s.fn, s.args)
			return res
		},
		// vfRunToBlock(f): runs f as if it were another goroutine: until it returns (false) or blocks (true)
		"vfRunToBlock": func(e *Exec, fn *ssa.Function, a []Value) (res Value) {
			depth, ddepth := len(e.callStack), len(e.deferFrame)
			res = e.ts.False
			defer func() {
				if r := recover(); r != nil {
					pe, ok := r.(pathEnd)
					if !ok || pe.kind != "blocked" {
						panic(r)
					}
					e.callStack = e.callStack[:depth]
					e.deferFrame = e.deferFrame[:ddepth]
					res = e.ts.True
				}
			}()
			e.callValue(nil, a[0], nil)
			return res
		},
		"vfBlockHook": func(e *Exec, fn *ssa.Function, a []Value) Value {
			e.extra["block_hook"] = a[0]
			return nil
		},
		"vfDropSpawned": func(e *Exec, fn *ssa.Function, a []Value) Value {
			e.spawned = nil
			return nil
		},
		"vfGoInline": func(e *Exec, fn *ssa.Function, a []Value) Value {
			if t, ok := a[0].(*Term); ok && t.IsTrue() {
				e.extra["go_inline"] = true
			} else {
				delete(e.extra, "go_inline")
			}
			return nil
		},
		// vfClockHook(f): f runs once, at the next call of time.Now() by the code under test (a schedule
		// point inside a long operation that reads the clock, e.g. the start of a log compaction)
		"vfClockHook": func(e *Exec, fn *ssa.Function, a []Value) Value {
			e.extra["now_hook"] = a[0]
			return nil
		},
		"vfLockHook": func(e *Exec, fn *ssa.Function, a []Value) Value {
			hk, _ := e.extra["lock_hook"].(map[*Value]Value)
			if hk == nil {
				hk = map[*Value]Value{}
				e.extra["lock_hook"] = hk
			}
			hk[a[0].(*Value)] = a[1]
			return nil
		},
		"vfHavocLoads": func(e *Exec, fn *ssa.Function, a []Value) Value {
			h, _ := e.extra["havoc"].(map[*Value]int)
			if h == nil {
				h = map[*Value]int{}
				e.extra["havoc"] = h
			}
			h[a[0].(*Value)] = e.argInt(a[1], "vfHavocLoads")
			return nil
		},
		"vfChanUnbounded": func(e *Exec, fn *ssa.Function, a []Value) Value {
			e.extra["chan_unbounded"] = true
			return nil
		},
		"vfMutexHeld": func(e *Exec, fn *ssa.Function, a []Value) Value {
			p := a[0].(*Value)
			return e.ts.Bool(e.mutexHeld[p])
		},
	}

	stubs = map[string]stubFn{}
	// --- sync ---
	lock := func(e *Exec, fn *ssa.Function, a []Value) Value {
		p := a[0].(*Value)
		if p == nil {
			panic(targetPanic{v: "nil mutex", kind: "nil pointer dereference", fn: fn.String()})
		}
		// vfLockHook(m, f): f runs once, right before the next Lock of m (a schedule point: what another thread does
		// between the caller's previous instruction and its acquiring m)
		if hk, ok := e.extra["lock_hook"].(map[*Value]Value); ok {
			if f, has := hk[p]; has {
				delete(hk, p)
				e.callValue(nil, f, nil)
			}
		}
		if e.mutexHeld[p] {
			panic(pathEnd{"deadlock", "acquire of a mutex the thread already holds: " + e.stackString()})
		}
		e.mutexHeld[p] = true
		return nil
	}
	unlock := func(e *Exec, fn *ssa.Function, a []Value) Value {
		p := a[0].(*Value)
		if !e.mutexHeld[p] {
			panic(targetPanic{v: "sync: unlock of unlocked mutex", kind: "unlock of unlocked mutex", fn: e.curFn()})
		}
		delete(e.mutexHeld, p)
		return nil
	}
	stubs["(*sync.Mutex).Lock"] = lock
	stubs["(*sync.Mutex).Unlock"] = unlock
	stubs["(*sync.Mutex).TryLock"] = func(e *Exec, fn *ssa.Function, a []Value) Value {
		p := a[0].(*Value)
		if e.mutexHeld[p] {
			return e.ts.False
		}
		e.mutexHeld[p] = true
		return e.ts.True
	}
	stubs["(*sync.RWMutex).Lock"] = lock
	stubs["(*sync.RWMutex).Unlock"] = unlock
	// read locks: counted per object under a separate key space
	stubs["(*sync.RWMutex).RLock"] = func(e *Exec, fn *ssa.Function, a []Value) Value {
		p := a[0].(*Value)
		if e.mutexHeld[p] {
			panic(pathEnd{"deadlock", "RLock while write-locked by the same thread: " + e.stackString()})
		}
		n, _ := e.extra[fmt.Sprintf("rl%p", p)].(int)
		e.extra[fmt.Sprintf("rl%p", p)] = n + 1
		return nil
	}
	stubs["(*sync.RWMutex).RUnlock"] = func(e *Exec, fn *ssa.Function, a []Value) Value {
		p := a[0].(*Value)
		n, _ := e.extra[fmt.Sprintf("rl%p", p)].(int)
		e.extra[fmt.Sprintf("rl%p", p)] = n - 1
		return nil
	}
	stubs["(*sync.WaitGroup).Add"] = func(e *Exec, fn *ssa.Function, a []Value) Value { return nil }
	stubs["(*sync.WaitGroup).Done"] = func(e *Exec, fn *ssa.Function, a []Value) Value { return nil }
	stubs["(*sync.WaitGroup).Wait"] = func(e *Exec, fn *ssa.Function, a []Value) Value { return nil }
	stubs["(*sync.Once).Do"] = func(e *Exec, fn *ssa.Function, a []Value) Value {
		p := a[0].(*Value)
		if e.extra[fmt.Sprintf("once%p", p)] == nil {
			e.extra[fmt.Sprintf("once%p", p)] = true
			e.call(a[1], nil)
		}
		return nil
	}
	// --- sync/atomic ---
	for _, ty := range []string{"Int32", "Int64", "Uint32", "Uint64", "Uintptr"} {
		ty := ty
		stubs["sync/atomic.Load"+ty] = func(e *Exec, fn *ssa.Function, a []Value) Value {
			// vfHavocLoads(p, n): the next n atomic loads of *p return an arbitrary value each (other threads may
			// have written it meanwhile); afterwards the cell is read as it is
			if h, ok := e.extra["havoc"].(map[*Value]int); ok {
				p := a[0].(*Value)
				if n := h[p]; n > 0 {
					h[p] = n - 1
					k, _ := e.extra["havoc_seq"].(int)
					e.extra["havoc_seq"] = k + 1
					if t, isT := (*p).(*Term); isT {
						return e.input(fmt.Sprintf("havoc%02d", k), t.w)
					}
				}
			}
			return copyVal(*a[0].(*Value))
		}
		stubs["sync/atomic.Store"+ty] = func(e *Exec, fn *ssa.Function, a []Value) Value { *a[0].(*Value) = a[1]; return nil }
		stubs["sync/atomic.Add"+ty] = func(e *Exec, fn *ssa.Function, a []Value) Value {
			p := a[0].(*Value)
			n := e.ts.Bin(OpAdd, (*p).(*Term), a[1].(*Term))
			*p = n
			return n
		}
		stubs["sync/atomic.Swap"+ty] = func(e *Exec, fn *ssa.Function, a []Value) Value {
			p := a[0].(*Value)
			old := *p
			*p = a[1]
			return old
		}
		stubs["sync/atomic.CompareAndSwap"+ty] = func(e *Exec, fn *ssa.Function, a []Value) Value {
			p := a[0].(*Value)
			if e.branch(e.ts.Eq((*p).(*Term), a[1].(*Term))) {
				*p = a[2]
				return e.ts.True
			}
			return e.ts.False
		}
	}
	stubs["sync/atomic.LoadPointer"] = func(e *Exec, fn *ssa.Function, a []Value) Value { return *a[0].(*Value) }
	stubs["sync/atomic.StorePointer"] = func(e *Exec, fn *ssa.Function, a []Value) Value { *a[0].(*Value) = a[1]; return nil }
	stubs["sync/atomic.CompareAndSwapPointer"] = func(e *Exec, fn *ssa.Function, a []Value) Value {
		p := a[0].(*Value)
		if e.branch(e.equal(types.Typ[types.UnsafePointer], *p, a[1])) {
			*p = a[2]
			return e.ts.True
		}
		return e.ts.False
	}
	// --- time ---
	stubs["time.Now"] = func(e *Exec, fn *ssa.Function, a []Value) Value {
		// Time{wall: nanoseconds-within-second, ext: unix seconds, loc: nil}; accessor stubs below
		if h, ok := e.extra["now_hook"]; ok {
			delete(e.extra, "now_hook")
			e.callValue(nil, h.(Value), nil)
		}
		return Struct{e.clockNsec, e.clockSec, (*Value)(nil)}
	}
	stubs["(time.Time).Unix"] = func(e *Exec, fn *ssa.Function, a []Value) Value { return a[0].(Struct)[1] }
	stubs["(time.Time).Nanosecond"] = func(e *Exec, fn *ssa.Function, a []Value) Value { return a[0].(Struct)[0] }
	stubs["(time.Time).UnixNano"] = func(e *Exec, fn *ssa.Function, a []Value) Value {
		s := a[0].(Struct)
		return e.ts.Bin(OpAdd, e.ts.Bin(OpMul, s[1].(*Term), e.ts.Const(64, 1000000000)), s[0].(*Term))
	}
	stubs["(time.Time).UnixMilli"] = func(e *Exec, fn *ssa.Function, a []Value) Value {
		s := a[0].(Struct)
		return e.ts.Bin(OpAdd, e.ts.Bin(OpMul, s[1].(*Term), e.ts.Const(64, 1000)), e.ts.Bin(OpUDiv, s[0].(*Term), e.ts.Const(64, 1000000)))
	}
	// timers never fire under the executor (the clock is the harness's): NewTimer gives a Timer whose channel stays
	// empty, Stop / Reset report "was active"
	stubs["time.NewTimer"] = func(e *Exec, fn *ssa.Function, a []Value) Value {
		pt := fn.Signature.Results().At(0).Type().(*types.Pointer)
		st := pt.Elem().Underlying().(*types.Struct)
		v := e.zero(pt.Elem()).(Struct)
		for i := 0; i < st.NumFields(); i++ {
			if st.Field(i).Name() == "C" {
				v[i] = &Chan{cap: 1}
			}
		}
		cell := new(Value)
		*cell = v
		return cell
	}
	stubs["(*time.Timer).Stop"] = func(e *Exec, fn *ssa.Function, a []Value) Value { return e.ts.True }
	stubs["(*time.Timer).Reset"] = func(e *Exec, fn *ssa.Function, a []Value) Value { return e.ts.True }
	stubs["time.Sleep"] = func(e *Exec, fn *ssa.Function, a []Value) Value {
		if h, ok := e.extra["sleep_hook"]; ok {
			e.call(h, []Value{a[0]})
		}
		return nil
	}
	// --- misc ---
	stubs["runtime.NumCPU"] = func(e *Exec, fn *ssa.Function, a []Value) Value { return e.ts.Const(64, 1) }
	stubs["runtime.Gosched"] = func(e *Exec, fn *ssa.Function, a []Value) Value { return nil }
	stubs["runtime.GC"] = func(e *Exec, fn *ssa.Function, a []Value) Value { return nil }
	stubs["runtime.KeepAlive"] = func(e *Exec, fn *ssa.Function, a []Value) Value { return nil }
	stubs["internal/bytealg.IndexByteString"] = func(e *Exec, fn *ssa.Function, a []Value) Value {
		return e.indexByte(e.strBytes(a[0]), a[1].(*Term))
	}
	stubs["internal/bytealg.IndexByte"] = func(e *Exec, fn *ssa.Function, a []Value) Value {
		s := a[0].(Slice)
		b := make([]*Term, len(s))
		for i := range s {
			b[i] = s[i].(*Term)
		}
		return e.indexByte(b, a[1].(*Term))
	}
	stubs["internal/bytealg.Equal"] = func(e *Exec, fn *ssa.Function, a []Value) Value {
		x, y := a[0].(Slice), a[1].(Slice)
		if len(x) != len(y) {
			return e.ts.False
		}
		r := e.ts.True
		for i := range x {
			r = e.ts.And(r, e.ts.Eq(x[i].(*Term), y[i].(*Term)))
		}
		return r
	}
	stubs["bytes.Equal"] = stubs["internal/bytealg.Equal"]
	// MakeNoZero(n): a byte slice of length and capacity n (zeroed here; callers overwrite it)
	stubs["internal/bytealg.MakeNoZero"] = func(e *Exec, fn *ssa.Function, a []Value) Value {
		n := int(e.concretize(a[0].(*Term), 300, "MakeNoZero len"))
		if n < 0 || n > 1<<26 {
			panic(unsupported("MakeNoZero: length out of range"))
		}
		s := make(Slice, n)
		z := e.ts.Const(8, 0)
		for i := range s {
			s[i] = z
		}
		return s
	}
	stubs["(*strings.Builder).String"] = func(e *Exec, fn *ssa.Function, a []Value) Value {
		p := a[0].(*Value)
		buf := (*p).(Struct)[1].(Slice)
		b := make([]*Term, len(buf))
		for i := range buf {
			b[i] = buf[i].(*Term)
		}
		return mkStr(b)
	}
	stubs["internal/stringslite.Clone"] = func(e *Exec, fn *ssa.Function, a []Value) Value { return a[0] }
	stubs["strings.Clone"] = stubs["internal/stringslite.Clone"]
	// strings.ToUpper / ToLower: concrete strings use the library; symbolic strings are
	// case-folded byte-wise when every byte is ASCII (one branch on that); a symbolic
	// string with a non-ASCII byte is unsupported (harnesses assume ASCII where they fold).
	caseFold := func(upper bool) func(e *Exec, fn *ssa.Function, a []Value) Value {
		return func(e *Exec, fn *ssa.Function, a []Value) Value {
			if s, ok := a[0].(string); ok {
				if upper {
					return strings.ToUpper(s)
				}
				return strings.ToLower(s)
			}
			ts := e.ts
			b := e.strBytes(a[0])
			ascii := ts.Bool(true)
			for _, t := range b {
				ascii = ts.And(ascii, ts.Ult(t, ts.Const(8, 0x80)))
			}
			if !e.branch(ascii) {
				panic(unsupported("case folding of a symbolic string with a non-ASCII byte"))
			}
			r := make([]*Term, len(b))
			for i, t := range b {
				lo, hi := uint64('a'), uint64('z')
				if !upper {
					lo, hi = 'A', 'Z'
				}
				in := ts.And(ts.Ule(ts.Const(8, lo), t), ts.Ule(t, ts.Const(8, hi)))
				var m *Term
				if upper {
					m = ts.Bin(OpSub, t, ts.Const(8, 32))
				} else {
					m = ts.Bin(OpAdd, t, ts.Const(8, 32))
				}
				r[i] = ts.Ite(in, m, t)
			}
			return mkStr(r)
		}
	}
	stubs["strings.ToUpper"] = caseFold(true)
	stubs["strings.ToLower"] = caseFold(false)
	// strings.ReplaceAll / regexp: the standard library is trusted not to crash; concrete
	// arguments are computed by the library itself, symbolic ones get an arbitrary
	// outcome (compile succeeds or fails; a match is an arbitrary boolean).
	stubs["strings.ReplaceAll"] = func(e *Exec, fn *ssa.Function, a []Value) Value {
		s0, ok0 := a[0].(string)
		s1, ok1 := a[1].(string)
		s2, ok2 := a[2].(string)
		if ok0 && ok1 && ok2 {
			return strings.ReplaceAll(s0, s1, s2)
		}
		if ok1 && ok2 && len(s1) == 1 {
			// symbolic subject, one-byte pattern: exact when no byte equals the pattern (one branch)
			ts := e.ts
			b := e.strBytes(a[0])
			none := ts.Bool(true)
			for _, t := range b {
				none = ts.And(none, ts.Not(ts.Eq(t, ts.Const(8, uint64(s1[0])))))
			}
			if e.branch(none) {
				return a[0]
			}
			// some byte matches: concretize which (small strings only)
			var out []*Term
			for _, t := range b {
				if e.branch(ts.Eq(t, ts.Const(8, uint64(s1[0])))) {
					out = append(out, e.strBytes(s2)...)
				} else {
					out = append(out, t)
				}
			}
			return mkStr(out)
		}
		panic(unsupported("strings.ReplaceAll with a symbolic pattern"))
	}
	stubs["regexp.Compile"] = func(e *Exec, fn *ssa.Function, a []Value) Value {
		rt := fn.Signature.Results().At(0).Type().(*types.Pointer).Elem()
		mk := func(re *regexp.Regexp) Value {
			p := new(Value)
			*p = e.zero(rt)
			m, _ := e.extra["regexps"].(map[*Value]*regexp.Regexp)
			if m == nil {
				m = map[*Value]*regexp.Regexp{}
				e.extra["regexps"] = m
			}
			m[p] = re
			return p
		}
		if s, ok := a[0].(string); ok {
			re, err := regexp.Compile(s)
			if err != nil {
				return Tuple{(*Value)(nil), e.mkError(err.Error())}
			}
			return Tuple{mk(re), Iface{}}
		}
		if e.branch(e.freshBool("regexp.compiles")) {
			return Tuple{mk(nil), Iface{}}
		}
		return Tuple{(*Value)(nil), e.mkError("error parsing regexp")}
	}
	stubs["(*regexp.Regexp).MatchString"] = func(e *Exec, fn *ssa.Function, a []Value) Value {
		p, _ := a[0].(*Value)
		if p == nil {
			panic(targetPanic{v: "nil pointer dereference", kind: "nil pointer dereference", fn: e.curFn()})
		}
		m, _ := e.extra["regexps"].(map[*Value]*regexp.Regexp)
		if re := m[p]; re != nil {
			if s, ok := a[1].(string); ok {
				return e.ts.Bool(re.MatchString(s))
			}
		}
		return e.freshBool("regexp.match")
	}
	stubs["(*strings.Builder).copyCheck"] = func(e *Exec, fn *ssa.Function, a []Value) Value { return nil }
	stubs["crypto/md5.Sum"] = func(e *Exec, fn *ssa.Function, a []Value) Value {
		s := a[0].(Slice)
		args := make([]*Term, len(s))
		conc := true
		for i := range s {
			args[i] = s[i].(*Term)
			if !args[i].IsConst() {
				conc = false
			}
		}
		out := make(Array, 16)
		if conc {
			bs := make([]byte, len(args))
			for i := range args {
				bs[i] = byte(args[i].c)
			}
			sum := md5sum(bs)
			for i := range out {
				out[i] = e.ts.Const(8, uint64(sum[i]))
			}
			return out
		}
		// uninterpreted: one function per (length, output byte)
		for i := range out {
			out[i] = e.ts.UF(fmt.Sprintf("md5_%d_%d", len(args), i), 8, args)
		}
		return out
	}
	stubs["math/rand.Int"] = func(e *Exec, fn *ssa.Function, a []Value) Value {
		v := e.freshVar("rand", 64)
		e.assume(e.ts.Sle(e.ts.Const(64, 0), v))
		return v
	}
	stubs["math/rand.Int63"] = stubs["math/rand.Int"]
	stubs["math/rand.Int31"] = func(e *Exec, fn *ssa.Function, a []Value) Value {
		v := e.freshVar("rand", 32)
		e.assume(e.ts.Sle(e.ts.Const(32, 0), v))
		return v
	}
	stubs["math/rand.Uint32"] = func(e *Exec, fn *ssa.Function, a []Value) Value { return e.freshVar("rand", 32) }
	stubs["math/rand.Uint64"] = func(e *Exec, fn *ssa.Function, a []Value) Value { return e.freshVar("rand", 64) }
	stubs["math/rand.Intn"] = func(e *Exec, fn *ssa.Function, a []Value) Value {
		v := e.freshVar("rand", 64)
		e.assume(e.ts.Ult(v, a[0].(*Term)))
		return v
	}
	// id generators mix a random part with a counter; the random part is fixed (uniqueness comes from the counter)
	stubs["math/rand.Int63n"] = func(e *Exec, fn *ssa.Function, a []Value) Value { return e.ts.Const(64, 7) }
	stubs["math/rand.Int31n"] = func(e *Exec, fn *ssa.Function, a []Value) Value { return e.ts.Const(32, 7) }
	stubs["math/rand.Seed"] = func(e *Exec, fn *ssa.Function, a []Value) Value { return nil }
	stubs["fmt.Sprintf"] = stubSprintf
	stubs["fmt.Errorf"] = func(e *Exec, fn *ssa.Function, a []Value) Value {
		s := stubSprintf(e, fn, a)
		return e.mkError(s)
	}
	stubs["fmt.Sprint"] = func(e *Exec, fn *ssa.Function, a []Value) Value { return "<fmt.Sprint>" }
	stubs["fmt.Println"] = func(e *Exec, fn *ssa.Function, a []Value) Value {
		return Tuple{e.ts.Const(64, 0), Iface{}}
	}
	stubs["fmt.Printf"] = stubs["fmt.Println"]
	stubs["math.Ceil"] = func(e *Exec, fn *ssa.Function, a []Value) Value {
		f := a[0].(Float)
		if f.sym {
			return f
		}
		return Float{v: ceil(f.v)}
	}
	// --- protobuf: Marshal hands out an opaque handle to a copy of the message, Unmarshal copies it back ---
	stubs["google.golang.org/protobuf/proto.Marshal"] = func(e *Exec, fn *ssa.Function, a []Value) Value {
		iv := a[0].(Iface)
		p, ok := iv.v.(*Value)
		if !ok || p == nil {
			return Tuple{Slice(nil), e.mkError("proto: Marshal called with nil")}
		}
		list, _ := e.extra["proto_msgs"].([]protoMsg)
		list = append(list, protoMsg{iv.t, copyVal(*p)})
		e.extra["proto_msgs"] = list
		idx := len(list) - 1
		return Tuple{Slice{e.ts.Const(8, 0xfe), e.ts.Const(8, uint64(idx))}, nilErr()}
	}
	stubs["google.golang.org/protobuf/proto.Unmarshal"] = func(e *Exec, fn *ssa.Function, a []Value) Value {
		b, _ := a[0].(Slice)
		iv := a[1].(Iface)
		p, ok := iv.v.(*Value)
		list, _ := e.extra["proto_msgs"].([]protoMsg)
		if !ok || p == nil || len(b) != 2 {
			return e.mkError("proto: cannot parse invalid wire-format data")
		}
		t0, ok0 := b[0].(*Term)
		t1, ok1 := b[1].(*Term)
		if !ok0 || !ok1 || !t0.IsConst() || !t1.IsConst() || t0.c != 0xfe || int(t1.c) >= len(list) {
			return e.mkError("proto: cannot parse invalid wire-format data")
		}
		m := list[t1.c]
		if !types.Identical(m.t, iv.t) {
			return e.mkError("proto: message type mismatch")
		}
		storeInto(p, copyVal(m.v))
		return nilErr()
	}
	registerFSStubs()
}

type protoMsg struct {
	t types.Type
	v Value
}

func ceil(f float64) float64 {
	i := float64(int64(f))
	if i < f {
		return i + 1
	}
	return i
}

func (e *Exec) indexByte(b []*Term, c *Term) *Term {
	ts := e.ts
	r := ts.Const(64, ^uint64(0))
	for i := len(b) - 1; i >= 0; i-- {
		r = ts.Ite(ts.Eq(b[i], c), ts.Const(64, uint64(i)), r)
	}
	return r
}

// mkError builds an error value (*errors.errorString) with message s.
func (e *Exec) mkError(s Value) Value {
	errPkg := e.prog.ImportedPackage("errors")
	if errPkg == nil {
		panic(unsupported("errors package not loaded"))
	}
	t := errPkg.Type("errorString")
	p := new(Value)
	*p = Struct{s}
	return Iface{t: types.NewPointer(t.Type()), v: p}
}

// prefixStubs: whole families of functions that are no-ops (logging).
func prefixStubs(name string) (stubFn, bool) {
	switch {
	case strings.HasPrefix(name, "(*github.com/hhkbp2/go-logging"),
		strings.HasPrefix(name, "(github.com/hhkbp2/go-logging"),
		strings.HasPrefix(name, "github.com/hhkbp2/go-logging"):
		return func(e *Exec, fn *ssa.Function, a []Value) Value {
			return e.zeroResult(fn)
		}, true
	}
	return nil, false
}

func (e *Exec) zeroResult(fn *ssa.Function) Value {
	res := fn.Signature.Results()
	switch res.Len() {
	case 0:
		return nil
	case 1:
		return e.zero(res.At(0).Type())
	}
	t := make(Tuple, res.Len())
	for i := range t {
		t[i] = e.zero(res.At(i).Type())
	}
	return t
}

// stubSprintf: a small formatter.  Concrete arguments are formatted by the
// real fmt; a symbolic string under %s/%v is spliced in byte for byte; a
// symbolic integer makes the result an opaque placeholder (content not claimed).
func stubSprintf(e *Exec, fn *ssa.Function, a []Value) Value {
	format, ok := a[0].(string)
	if !ok {
		return "<fmt>"
	}
	var args []Value
	if sl, ok := a[1].(Slice); ok {
		args = sl
	}
	var out []*Term
	emit := func(s string) {
		for i := 0; i < len(s); i++ {
			out = append(out, e.ts.Const(8, uint64(s[i])))
		}
	}
	ai := 0
	for i := 0; i < len(format); i++ {
		c := format[i]
		if c != '%' {
			out = append(out, e.ts.Const(8, uint64(c)))
			continue
		}
		j := i + 1
		for j < len(format) && strings.IndexByte("0123456789+-# .", format[j]) >= 0 {
			j++
		}
		if j >= len(format) {
			emit(format[i:])
			break
		}
		verb := format[j]
		spec := format[i : j+1]
		i = j
		if verb == '%' {
			emit("%")
			continue
		}
		if ai >= len(args) {
			emit("%!" + string(verb) + "(MISSING)")
			continue
		}
		iv := args[ai].(Iface)
		ai++
		switch x := iv.v.(type) {
		case *SymStr:
			if (verb == 's' || verb == 'v') && len(spec) == 2 {
				out = append(out, x.b...)
			} else {
				return "<fmt:" + format + ">"
			}
		case string:
			emit(fmt.Sprintf(spec, x))
		case *Term:
			if !x.IsConst() {
				if verb == 'd' && len(spec) == 2 && x.w >= 8 {
					out = append(out, e.symDecimal(x, iv.t != nil && isSigned(iv.t))...)
					continue
				}
				return "<fmt:" + format + ">"
			}
			if x.w == 0 {
				emit(fmt.Sprintf(spec, x.c == 1))
			} else if iv.t != nil && isSigned(iv.t) {
				emit(fmt.Sprintf(spec, sval(x.w, x.c)))
			} else if x.w == 8 {
				emit(fmt.Sprintf(spec, uint8(x.c)))
			} else {
				emit(fmt.Sprintf(spec, x.c))
			}
		case Float:
			emit(fmt.Sprintf(spec, x.v))
		case Array:
			// [16]byte and the like under %x
			conc := true
			bs := make([]byte, len(x))
			for k, el := range x {
				t, ok := el.(*Term)
				if !ok || !t.IsConst() {
					conc = false
					break
				}
				bs[k] = byte(t.c)
			}
			if !conc {
				if hx, ok := e.symHexBytes([]Value(x)); ok && spec == "%x" {
					out = append(out, hx...)
					continue
				}
				return "<fmt:" + format + ">"
			}
			emit(fmt.Sprintf(spec, bs))
		case Slice:
			conc := true
			bs := make([]byte, len(x))
			for k, el := range x {
				t, ok := el.(*Term)
				if !ok || !t.IsConst() {
					conc = false
					break
				}
				bs[k] = byte(t.c)
			}
			if !conc {
				return "<fmt:" + format + ">"
			}
			emit(fmt.Sprintf(spec, bs))
		case *Value:
			emit(e.describe(iv))
		case nil:
			emit("<nil>")
		default:
			emit(fmt.Sprintf("<%T>", x))
		}
	}
	return mkStr(out)
}

// symDecimal renders a symbolic integer in decimal: the number of digits (and the sign)
// is decided by branching, the digits themselves are terms.
func (e *Exec) symDecimal(x *Term, signed bool) []*Term {
	ts := e.ts
	var out []*Term
	v := x
	if signed {
		if e.branch(ts.Slt(x, ts.Const(x.w, 0))) {
			out = append(out, ts.Const(8, '-'))
			v = ts.Neg(x)
		}
	}
	maxDigits := map[uint8]int{8: 3, 16: 5, 32: 10, 64: 20}[v.w]
	n := 1
	pow := uint64(10)
	for n < maxDigits {
		if e.branch(ts.Ult(v, ts.Const(v.w, pow))) {
			break
		}
		n++
		pow *= 10
	}
	div := uint64(1)
	digits := make([]*Term, n)
	for i := n - 1; i >= 0; i-- {
		q := v
		if div > 1 {
			q = ts.Bin(OpUDiv, v, ts.Const(v.w, div))
		}
		d := ts.Bin(OpURem, q, ts.Const(v.w, 10))
		digits[i] = ts.Bin(OpAdd, ts.Trunc(d, 8), ts.Const(8, '0'))
		div *= 10
	}
	return append(out, digits...)
}

// symHexBytes renders bytes as lower-case hex (fmt's %x on a byte array or slice).
func (e *Exec) symHexBytes(x []Value) ([]*Term, bool) {
	ts := e.ts
	var out []*Term
	nib := func(n *Term) *Term {
		return ts.Ite(ts.Ult(n, ts.Const(8, 10)), ts.Bin(OpAdd, n, ts.Const(8, '0')), ts.Bin(OpAdd, n, ts.Const(8, 'a'-10)))
	}
	for _, el := range x {
		t, ok := el.(*Term)
		if !ok || t.w != 8 {
			return nil, false
		}
		out = append(out, nib(ts.Bin(OpLShr, t, ts.Const(8, 4))), nib(ts.Bin(OpBAnd, t, ts.Const(8, 15))))
	}
	return out, true
}

func (e *Exec) describe(iv Iface) string {
	if p, ok := iv.v.(*Value); ok && p != nil {
		if s, ok := (*p).(Struct); ok && len(s) == 1 {
			if str, ok := s[0].(string); ok {
				return str
			}
		}
	}
	return "<value>"
}
