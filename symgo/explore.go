package main

// Path exploration by re-execution: a path is identified by its vector of
// decisions; a worker replays the prefix (no solver calls) and asks the solver
// only at new symbolic branches, queueing the alternative.

import (
	"fmt"
	"go/token"
	"os"
	"sort"
	"strings"
	"sync"
	"time"

	"golang.org/x/tools/go/ssa"
)

type Decision struct {
	B      bool
	V      uint64 // for value decisions (concretize)
	Forced bool   // only this side was feasible: nothing to add to the path condition
}

type Obs struct {
	Tag string `json:"tag"`
	Val uint64 `json:"val"`
}

type PathResult struct {
	Kind      string            `json:"kind"` // ok assume violation panic unsupported limit blocked known
	Msg       string            `json:"msg,omitempty"`
	Where     string            `json:"where,omitempty"`
	Model     map[string]uint64 `json:"model,omitempty"`
	Lens      map[string]int    `json:"-"`
	Reach     []string          `json:"reach,omitempty"`
	Obs       []Obs             `json:"obs,omitempty"`
	Decisions int               `json:"decisions"`
	Steps     int               `json:"steps"`
	Known     []string          `json:"known,omitempty"`
	Stack     string            `json:"stack,omitempty"`
	Inconc    int               `json:"inconclusive,omitempty"`
}

type KnownFinding struct {
	Property string `json:"property"`
	Harness  string `json:"harness"`
	Match    string `json:"match"`  // substring of the assertion message / panic identity
	Region   string `json:"region"` // optional SMT-LIB predicate over named inputs
	What     string `json:"what"`
	Status   string `json:"status"` // "known" (suppresses) or "fixed" (suppresses nothing)
}

type Config struct {
	Harness       string
	Pkg           string
	Workers       int
	SolverKind    string
	TimeoutMs     int
	MaxSteps      int
	MaxPaths      int
	WitnessEach   int  // sample every n-th ok path for native validation (0 = none)
	BlockedModels bool // attach the inputs of paths that end blocked (harnesses where blocking is a violation)
	Known         []KnownFinding
	Verbose       bool
	SolverLog     string
	Seed          int64
	NoMerge       bool
	Fixed         map[string]uint64 // concrete run: every input takes its value from here (missing = 0)
	AltSolver     string            // second opinion on final obligations ("" = none)
	Deadline      time.Time
}

type Stats struct {
	Paths        int
	ByKind       map[string]int
	Branches     int // decisions taken (transitions)
	Obligations  int // assertion / panic-check obligations sent to the solver or decided concretely
	Discharged   int
	ConcreteObl  int
	SolverQ      int
	SolverTime   time.Duration
	Inconclusive int
	Reach        map[string]int
	Funcs        map[string]bool
	Stubs        map[string]bool
	AltAgree     int
	AltDisagree  int
	SolverErrors int
	Known        map[string]int
	Fallback     int
}

type Explorer struct {
	prog      *ssa.Program
	cfg       Config
	entry     *ssa.Function
	hpkg      *ssa.Package
	mu        sync.Mutex
	cond      *sync.Cond
	work      [][]Decision
	active    int
	stats     Stats
	res       []*PathResult // violations, panics, unsupported, limits and sampled ok paths
	okSeen    int
	stop      bool
	forkSites map[string]int
	redirects map[*ssa.Function]*ssa.Function
	cexSeen   map[string]int
}

func NewExplorer(prog *ssa.Program, hpkg *ssa.Package, entry *ssa.Function, cfg Config) *Explorer {
	x := &Explorer{prog: prog, cfg: cfg, entry: entry, hpkg: hpkg}
	x.redirects = buildRedirects(prog, hpkg)
	x.cond = sync.NewCond(&x.mu)
	x.stats.ByKind = map[string]int{}
	x.stats.Reach = map[string]int{}
	x.stats.Funcs = map[string]bool{}
	x.stats.Stubs = map[string]bool{}
	x.stats.Known = map[string]int{}
	x.work = [][]Decision{nil}
	return x
}

func (x *Explorer) Run() {
	var wg sync.WaitGroup
	for i := 0; i < x.cfg.Workers; i++ {
		wg.Add(1)
		go func(id int) {
			defer wg.Done()
			x.worker(id)
		}(i)
	}
	wg.Wait()
}

func (x *Explorer) next() ([]Decision, bool) {
	x.mu.Lock()
	defer x.mu.Unlock()
	for {
		if x.stop {
			return nil, false
		}
		if n := len(x.work); n > 0 {
			w := x.work[n-1]
			x.work = x.work[:n-1]
			x.active++
			return w, true
		}
		if x.active == 0 {
			x.cond.Broadcast()
			return nil, false
		}
		x.cond.Wait()
	}
}

func (x *Explorer) push(d []Decision) {
	x.mu.Lock()
	x.work = append(x.work, d)
	x.mu.Unlock()
	x.cond.Signal()
}

func (x *Explorer) done(e *Exec, r *PathResult) {
	x.mu.Lock()
	defer x.mu.Unlock()
	x.active--
	x.stats.Paths++
	x.stats.ByKind[r.Kind]++
	x.stats.Branches += r.Decisions
	x.stats.Obligations += e.obligations
	x.stats.Discharged += e.discharged
	x.stats.ConcreteObl += e.concreteObl
	x.stats.Inconclusive += e.inconclusive
	x.stats.AltAgree += e.altAgree
	x.stats.AltDisagree += e.altDisagree
	x.stats.Fallback += e.fallbackUsed
	for _, t := range r.Reach {
		x.stats.Reach[t]++
	}
	for _, k := range e.known {
		x.stats.Known[k]++
	}
	for f := range e.funcs {
		x.stats.Funcs[f] = true
	}
	for f := range e.stubs {
		x.stats.Stubs[f] = true
	}
	keep := false
	switch r.Kind {
	case "ok":
		x.okSeen++
		if r.Model != nil {
			keep = true
		}
	case "assume":
	default:
		keep = true
	}
	if keep {
		x.res = append(x.res, r)
	}
	if x.cfg.MaxPaths > 0 && x.stats.Paths >= x.cfg.MaxPaths {
		x.stop = true
	}
	if !x.cfg.Deadline.IsZero() && time.Now().After(x.cfg.Deadline) {
		x.stop = true
	}
	if x.active == 0 && len(x.work) == 0 || x.stop {
		x.cond.Broadcast()
	}
}

func (x *Explorer) worker(id int) {
	ts := NewTermStore()
	var sv, alt, fb *Solver
	defer func() { sv.Close(); alt.Close(); fb.Close() }()
	paths := 0
	for {
		prefix, ok := x.next()
		if !ok {
			if sv != nil {
				x.mu.Lock()
				x.stats.SolverQ += sv.Queries
				x.stats.SolverTime += sv.Time
				x.stats.SolverErrors += sv.Errors
				x.mu.Unlock()
				if x.cfg.Verbose {
					fmt.Fprintf(os.Stderr, "worker %d: check %.1fs (%d), get-value %.1fs (%d)\n", id, sv.Time.Seconds(), sv.Queries, sv.ValTime.Seconds(), sv.ValCalls)
				}
			}
			return
		}
		// restart the solver now and then to bound its memory; terms too
		if sv == nil || sv.dead || paths%2000 == 1999 || len(ts.tab) > 400000 {
			if sv != nil {
				x.mu.Lock()
				x.stats.SolverQ += sv.Queries
				x.stats.SolverTime += sv.Time
				x.stats.SolverErrors += sv.Errors
				x.mu.Unlock()
				sv.Close()
				alt.Close()
				alt = nil
			}
			ts = NewTermStore()
			var err error
			sv, err = NewSolver(x.cfg.SolverKind, x.cfg.TimeoutMs)
			if err != nil {
				fmt.Fprintln(os.Stderr, "cannot start solver:", err)
				os.Exit(2)
			}
			if x.cfg.SolverLog != "" && id == 0 {
				f, _ := os.Create(x.cfg.SolverLog)
				sv.log = f
			}
			if x.cfg.AltSolver != "" {
				altMs := x.cfg.TimeoutMs
				if altMs > 5000 {
					altMs = 5000 // the second opinion is advisory: unknown within 5 s counts as "no opinion"
				}
				alt, err = NewSolver(x.cfg.AltSolver, altMs)
				if err != nil {
					fmt.Fprintln(os.Stderr, "cannot start alt solver:", err)
					os.Exit(2)
				}
			}
		}
		paths++
		e := newExec(x, ts, sv, alt, prefix)
		e.fb = &fb
		r := e.runPath()
		x.done(e, r)
	}
}

// ---------------------------------------------------------------------------

type pathEnd struct {
	kind string
	msg  string
}

// targetPanic is a Go-level panic of the program under analysis.
type targetPanic struct {
	v     Value
	kind  string // runtime panic kind ("index out of range", "nil dereference", ...) or "panic"
	where string
	expr  string
	fn    string
}

type inputVar struct {
	name string
	t    *Term
}

type Exec struct {
	x       *Explorer
	ts      *TermStore
	sv      *Solver
	alt     *Solver
	prog    *ssa.Program
	lastPos token.Pos // position of the instruction being executed (fork profile)

	decisions []Decision
	pos       int
	pc        []*Term

	globals map[*ssa.Global]*Value
	inited  map[*ssa.Package]bool
	inputs  []inputVar
	inputIx map[string]bool
	fresh   int
	reach   []string
	obs     []struct {
		tag string
		t   *Term
	}
	steps            int
	obligations      int
	discharged       int
	concreteObl      int
	inconclusive     int
	altAgree         int
	altDisagree      int
	known            []string
	funcs            map[string]bool
	stubs            map[string]bool
	depth            int
	callStack        []*ssa.Function
	deferFrame       []*frame
	pushed           bool
	synced           int
	curModel         Model // a model of the current path condition, or nil
	spec             []*overlay
	merges           int
	fb               **Solver
	fallbackUsed     int
	useFallbackModel bool

	// environment model
	clockSec  *Term
	clockNsec *Term
	fs        *FSModel
	spawned   []spawn
	mutexHeld map[*Value]bool
	extra     map[string]interface{}
}

type spawn struct {
	fn   Value
	args []Value
}

func newExec(x *Explorer, ts *TermStore, sv, alt *Solver, prefix []Decision) *Exec {
	e := &Exec{x: x, ts: ts, sv: sv, alt: alt, prog: x.prog,
		decisions: append([]Decision(nil), prefix...),
		globals:   map[*ssa.Global]*Value{}, inited: map[*ssa.Package]bool{},
		inputIx: map[string]bool{}, funcs: map[string]bool{}, stubs: map[string]bool{},
		mutexHeld: map[*Value]bool{}, extra: map[string]interface{}{},
	}
	e.clockSec = ts.Const(64, 1700000000)
	e.clockNsec = ts.Const(64, 0)
	return e
}

func (e *Exec) runPath() (res *PathResult) {
	res = &PathResult{}
	defer func() {
		if r := recover(); r != nil {
			switch r := r.(type) {
			case pathEnd:
				res.Kind, res.Msg = r.kind, r.msg
				if r.kind == "violation" {
					if m, ok := e.extra["model"].(map[string]uint64); ok {
						res.Model = m
					}
					res.Stack = e.stackString()
				}
			case unsupportedErr:
				res.Kind, res.Msg = "unsupported", r.msg
				res.Stack = e.stackString()
			case targetPanic:
				e.finishPanic(res, r)
			default:
				res.Kind = "engine-error"
				res.Msg = fmt.Sprint(r)
				res.Stack = e.stackString() + "\n" + goStack()
			}
		}
		res.Decisions = len(e.decisions)
		res.Steps = e.steps
		res.Reach = e.reach
		res.Known = e.known
		res.Inconc = e.inconclusive
		if res.Kind == "blocked" && e.x.cfg.BlockedModels {
			// the harness treats blocking as a violation (e.g. Close must return): give the path's inputs
			e.attachWitness(res)
			res.Stack = e.stackString()
		}
		if res.Kind == "ok" && e.x.cfg.WitnessEach > 0 {
			e.x.mu.Lock()
			n := e.x.okSeen
			e.x.mu.Unlock()
			if n%e.x.cfg.WitnessEach == 0 {
				e.attachWitness(res)
			}
		}
		if e.pushed {
			e.sv.Pop()
		}
	}()
	e.call(e.x.entry, nil)
	res.Kind = "ok"
	return res
}

func (e *Exec) stackString() string {
	var sb strings.Builder
	for i := len(e.callStack) - 1; i >= 0 && i >= len(e.callStack)-12; i-- {
		sb.WriteString(e.callStack[i].String())
		sb.WriteString(" <- ")
	}
	return sb.String()
}

func (e *Exec) attachWitness(res *PathResult) {
	e.sync()
	if e.sv.Check() != Sat {
		return
	}
	res.Model = e.model()
	for _, o := range e.obs {
		res.Obs = append(res.Obs, Obs{o.tag, o.t.Eval(Model(res.Model), nil)})
	}
}

func (e *Exec) model() map[string]uint64 {
	m := map[string]uint64{}
	var ts []*Term
	for _, iv := range e.inputs {
		ts = append(ts, iv.t)
	}
	vals, err := e.sv.Values(ts)
	if err != nil {
		fmt.Fprintln(os.Stderr, "model:", err)
		return m
	}
	for i, iv := range e.inputs {
		m[iv.name] = vals[i]
	}
	return m
}

// input creates (or returns) the named symbolic input.
func (e *Exec) input(name string, w uint8) *Term {
	if e.x.cfg.Fixed != nil {
		return e.ts.Const(w, e.x.cfg.Fixed[name])
	}
	t := e.ts.Var(name, w)
	if !e.inputIx[name] {
		e.inputIx[name] = true
		e.inputs = append(e.inputs, inputVar{name, t})
	}
	return t
}

func (e *Exec) freshVar(hint string, w uint8) *Term {
	e.fresh++
	return e.input(fmt.Sprintf("$%s#%d", hint, e.fresh), w)
}

func (e *Exec) freshBool(hint string) *Term { return e.freshVar(hint, 0) }

func (e *Exec) addPC(c *Term) {
	if c.IsTrue() {
		return
	}
	e.pc = append(e.pc, c)
	if e.curModel != nil {
		if v, ok := e.evalModel(c); !ok || v != 1 {
			e.curModel = nil
		}
	}
}

// evalModel evaluates t under the cached model (inputs created after the model
// was fetched are unconstrained and read as 0).  ok=false if t cannot be
// evaluated (uninterpreted functions).
func (e *Exec) evalModel(t *Term) (uint64, bool) {
	if e.curModel == nil {
		return 0, false
	}
	bad := false
	v := t.Eval(e.curModel, func(string, []uint64) uint64 { bad = true; return 0 })
	return v, !bad
}

// fetchModel caches the solver's current model (call right after a Sat answer
// in a scope whose assertions are exactly the path condition plus extras that
// are about to be added to it).
func (e *Exec) fetchModel() {
	// adaptive: extracting a model can cost far more than a check (model
	// reconstruction through the solver's preprocessing); when it does, stop
	// caching models and pay two checks per new branch instead
	sv := e.sv
	if sv.ValCalls >= 20 && sv.Queries > 0 && sv.ValTime/time.Duration(sv.ValCalls) > 3*(sv.Time/time.Duration(sv.Queries)) {
		e.curModel = nil
		return
	}
	m := e.model()
	e.curModel = Model(m)
}

// sync brings the solver up to date with the path condition (lazily: a path
// that never needs a query never talks to the solver).
func (e *Exec) sync() {
	if !e.pushed {
		e.sv.Push()
		e.pushed = true
	}
	for ; e.synced < len(e.pc); e.synced++ {
		e.sv.Assert(e.pc[e.synced])
	}
}

// forkN chooses a value in 0..n-1 for a fresh (unconstrained) variable: every
// value is feasible, no solver call is needed.
func (e *Exec) forkN(v *Term, n int, off int64) int {
	var k int
	if e.pos < len(e.decisions) {
		k = int(e.decisions[e.pos].V)
		e.pos++
	} else {
		for i := n - 1; i >= 1; i-- {
			alt := append(append([]Decision(nil), e.decisions...), Decision{B: true, V: uint64(i)})
			e.x.push(alt)
		}
		e.decisions = append(e.decisions, Decision{B: true, V: 0})
		e.pos++
		k = 0
	}
	e.addPC(e.ts.Eq(v, e.ts.Const(v.w, uint64(int64(k)+off))))
	return k
}

// branch decides a symbolic condition, forking when both sides are feasible.
func (e *Exec) branch(c *Term) bool {
	if c.IsConst() {
		return c.c == 1
	}
	if len(e.spec) > 0 {
		panic(specAbort{"symbolic branch inside a speculated region"})
	}
	if e.pos < len(e.decisions) {
		d := e.decisions[e.pos]
		e.pos++
		if !d.Forced {
			if d.B {
				e.addPC(c)
			} else {
				e.addPC(e.ts.Not(c))
			}
		}
		return d.B
	}
	e.sync()
	notc := e.ts.Not(c)
	var rt, rf SatResult
	mv, mok := e.evalModel(c)
	if mok && mv == 1 {
		rt = Sat
		rf = e.sv.CheckWith(notc)
	} else if mok && mv == 0 {
		rf = Sat
		e.sv.Push()
		e.sv.Assert(c)
		rt = e.sv.Check()
		if rt == Sat {
			e.fetchModel()
		}
		e.sv.Pop()
	} else {
		e.sv.Push()
		e.sv.Assert(c)
		rt = e.sv.Check()
		if rt == Sat {
			e.fetchModel()
		}
		e.sv.Pop()
		if rt == Unsat {
			rf = Sat // the path condition itself is satisfiable
		} else {
			rf = e.sv.CheckWith(notc)
		}
	}
	if rt == Unknown {
		rt = e.fallbackCheck(c)
	}
	if rf == Unknown && rt != Unsat {
		rf = e.fallbackCheck(notc)
	}
	if rt == Unsat {
		e.decisions = append(e.decisions, Decision{B: false, Forced: true})
		e.pos++
		return false
	}
	if rf == Unsat {
		if rt == Unknown {
			e.inconclusive++
		}
		e.decisions = append(e.decisions, Decision{B: true, Forced: true})
		e.pos++
		return true
	}
	if rt == Unknown || rf == Unknown {
		e.inconclusive++
	}
	// both feasible: queue the false side
	alt := append(append([]Decision(nil), e.decisions...), Decision{B: false})
	e.x.push(alt)
	e.decisions = append(e.decisions, Decision{B: true})
	e.pos++
	e.addPC(c)
	e.noteFork()
	return true
}

func (e *Exec) noteFork() {
	if !e.x.cfg.Verbose {
		return
	}
	site := e.curFn()
	if w, _ := e.srcLine(e.lastPos); w != "" {
		site += " @" + w
	}
	e.x.mu.Lock()
	if e.x.forkSites == nil {
		e.x.forkSites = map[string]int{}
	}
	e.x.forkSites[site]++
	e.x.mu.Unlock()
}

// concretize forks over the feasible values of t (at most max of them).
func (e *Exec) concretize(t *Term, max int, what string) uint64 {
	if t.IsConst() {
		return t.c
	}
	if len(e.spec) > 0 {
		panic(specAbort{"concretize inside a speculated region"})
	}
	for n := 0; ; n++ {
		if n > max {
			panic(unsupported("concretize(%s): more than %d feasible values", what, max))
		}
		var v uint64
		if e.pos < len(e.decisions) {
			v = e.decisions[e.pos].V
		} else if mv, ok := e.evalModel(t); ok {
			v = mv
		} else {
			e.sync()
			if r := e.sv.Check(); r != Sat {
				if r == Unknown {
					e.inconclusive++
					panic(pathEnd{"inconclusive", "concretize: solver unknown"})
				}
				panic(pathEnd{"assume", "infeasible at concretize"})
			}
			e.fetchModel()
			if mv, ok := e.evalModel(t); ok {
				v = mv
			} else {
				vals, err := e.sv.Values([]*Term{t})
				if err != nil {
					panic(unsupported("concretize: %v", err))
				}
				v = vals[0]
			}
		}
		c := e.ts.Eq(t, e.ts.Const(t.w, v))
		if e.branchV(c, v) {
			return v
		}
	}
}

// branchV is branch() for value decisions: the decision records the value too.
func (e *Exec) branchV(c *Term, v uint64) bool {
	if e.pos < len(e.decisions) {
		d := e.decisions[e.pos]
		e.pos++
		if !d.Forced {
			if d.B {
				e.addPC(c)
			} else {
				e.addPC(e.ts.Not(c))
			}
		}
		return d.B
	}
	// the true side is feasible by construction (v came from a model)
	e.sync()
	rf := e.sv.CheckWith(e.ts.Not(c))
	if rf == Unsat {
		e.decisions = append(e.decisions, Decision{B: true, V: v, Forced: true})
		e.pos++
		return true
	}
	if rf == Unknown {
		e.inconclusive++
	}
	alt := append(append([]Decision(nil), e.decisions...), Decision{B: false, V: v})
	e.x.push(alt)
	e.decisions = append(e.decisions, Decision{B: true, V: v})
	e.pos++
	e.addPC(c)
	return true
}

// assume adds c to the path condition; the path dies if it becomes infeasible.
func (e *Exec) assume(c *Term) {
	if c.IsTrue() {
		return
	}
	if c.IsFalse() {
		panic(pathEnd{"assume", ""})
	}
	if e.pos < len(e.decisions) {
		// replaying: feasibility was established the first time
		e.pos++
		e.addPC(c)
		return
	}
	e.sync()
	r := e.sv.CheckWith(c)
	if r == Unsat {
		panic(pathEnd{"assume", ""})
	}
	if r == Unknown {
		e.inconclusive++
	}
	e.decisions = append(e.decisions, Decision{B: true})
	e.pos++
	e.addPC(c)
}

// obligation checks that c holds on every input of the current path; on a
// counterexample the path ends as a violation (unless a known finding covers
// it, in which case c is assumed and the path goes on).
func (e *Exec) obligation(c *Term, msg string) {
	e.obligations++
	if c.IsTrue() {
		e.discharged++
		e.concreteObl++
		return
	}
	neg := e.ts.Not(c)
	e.sync()
	r := e.sv.CheckWith(neg)
	if r == Unsat {
		e.discharged++
		e.secondOpinion(neg, Unsat)
		return
	}
	if r == Unknown {
		// portfolio: arithmetic-heavy obligations (multiplication / division by constants on 64-bit
		// clocks) are decided by cvc5 with the bit-vector-as-integer translation
		r = e.fallbackCheck(neg)
		if r == Unsat {
			e.discharged++
			e.fallbackUsed++
			return
		}
		if r == Unknown {
			e.inconclusive++
			panic(pathEnd{"inconclusive", "obligation: " + msg})
		}
		e.useFallbackModel = true
	}
	// sat: known finding?
	for _, k := range e.x.cfg.Known {
		if k.Status == "fixed" || !strings.HasPrefix(e.x.cfg.Harness, k.Harness) || !strings.Contains(msg, k.Match) {
			continue
		}
		e.sv.Push()
		e.sv.Assert(neg)
		for _, iv := range e.inputs {
			e.sv.declare(iv.t)
		}
		if k.Region != "" {
			e.sv.send("(assert (not " + k.Region + "))")
		}
		var rr SatResult = Unsat
		if k.Region != "" {
			rr = e.sv.Check()
		}
		e.sv.Pop()
		if rr == Unsat {
			e.known = append(e.known, k.Property+" "+k.What)
			e.discharged++ // decided: inside a listed region
			e.assume(c)
			return
		}
	}
	var m map[string]uint64
	if e.useFallbackModel {
		m = e.fallbackModel(neg)
	} else {
		e.sv.Push()
		e.sv.Assert(neg)
		if e.sv.Check() == Sat {
			m = e.model()
		}
		e.sv.Pop()
	}
	res := pathEnd{"violation", msg}
	e.extra["model"] = m
	panic(res)
}

// fallbackCheck decides pc /\ q with cvc5 --solve-bv-as-int=sum.
func (e *Exec) fallbackCheck(q *Term) SatResult {
	fb := e.getFallback()
	if fb == nil {
		return Unknown
	}
	fb.Push()
	for _, c := range e.pc {
		fb.Assert(c)
	}
	fb.Assert(q)
	r := fb.Check()
	fb.Pop()
	return r
}

func (e *Exec) fallbackModel(q *Term) map[string]uint64 {
	fb := e.getFallback()
	if fb == nil {
		return nil
	}
	fb.Push()
	defer fb.Pop()
	for _, c := range e.pc {
		fb.Assert(c)
	}
	fb.Assert(q)
	if fb.Check() != Sat {
		return nil
	}
	m := map[string]uint64{}
	var ts []*Term
	for _, iv := range e.inputs {
		ts = append(ts, iv.t)
	}
	vals, err := fb.Values(ts)
	if err != nil {
		return nil
	}
	for i, iv := range e.inputs {
		m[iv.name] = vals[i]
	}
	return m
}

func (e *Exec) getFallback() *Solver {
	if e.fb == nil {
		return nil
	}
	if *e.fb == nil || (*e.fb).dead {
		sv, err := NewSolver("cvc5-int", 120000)
		if err != nil {
			return nil
		}
		*e.fb = sv
	}
	return *e.fb
}

func (e *Exec) secondOpinion(q *Term, want SatResult) {
	if e.alt == nil {
		return
	}
	e.alt.Push()
	for _, c := range e.pc {
		e.alt.Assert(c)
	}
	e.alt.Assert(q)
	r := e.alt.Check()
	e.alt.Pop()
	if r == want {
		e.altAgree++
	} else if r != Unknown {
		e.altDisagree++
		fmt.Fprintf(os.Stderr, "SOLVER DISAGREEMENT: %s says %v, %s says %v\n", e.sv.kind, want, e.alt.kind, r)
	}
}

func (e *Exec) finishPanic(res *PathResult, p targetPanic) {
	res.Kind = "panic"
	res.Msg = fmt.Sprintf("%s in %s: %s", p.kind, p.fn, p.expr)
	res.Where = p.where
	res.Stack = e.stackString()
	if s, ok := p.v.(string); ok && strings.HasPrefix(s, "VF-ASSERT") {
		res.Kind = "violation"
		res.Msg = s
	}
	for _, k := range e.x.cfg.Known {
		if k.Status != "fixed" && strings.HasPrefix(e.x.cfg.Harness, k.Harness) && k.Match != "" && strings.Contains(res.Msg, k.Match) && k.Region == "" {
			res.Kind = "known"
			res.Known = append(res.Known, k.Property+" "+k.What)
			e.known = append(e.known, k.Property+" "+k.What)
			return
		}
	}
	// models are expensive to extract: keep a few per distinct message
	e.x.mu.Lock()
	if e.x.cexSeen == nil {
		e.x.cexSeen = map[string]int{}
	}
	e.x.cexSeen[res.Msg]++
	n := e.x.cexSeen[res.Msg]
	e.x.mu.Unlock()
	e.sync()
	r := e.sv.Check()
	if r == Unknown {
		r = e.fallbackCheck(e.ts.True)
		if r == Sat {
			res.Model = e.fallbackModel(e.ts.True)
			return
		}
	}
	if r == Unsat {
		// reached only because an earlier feasibility query was inconclusive
		res.Kind, res.Msg = "assume", "infeasible"
		return
	}
	if r == Unknown {
		res.Kind = "inconclusive"
		e.inconclusive++
		return
	}
	if n > 3 {
		return
	}
	res.Model = e.model()
}

func sortedKeys(m map[string]bool) []string {
	var r []string
	for k := range m {
		r = append(r, k)
	}
	sort.Strings(r)
	return r
}
