package main

// Value model.  Every Go value is boxed in Value; the dynamic type is one of:
//
//   *Term            bool and all integer kinds (concrete or symbolic)
//   Float            floats (concrete, or an unknown "sym" float)
//   string, *SymStr  strings (concrete / symbolic bytes with concrete length)
//   *Value           pointers (nil pointer = (*Value)(nil)); *SymPtr for a
//                    pointer into a scalar array at a symbolic index
//   Struct, Array    aggregates by value
//   Slice            []Value sharing its backing array (nil slice = Slice(nil))
//   *Map, *Chan      reference types
//   Iface            interfaces (nil interface: t == nil)
//   *ssa.Function, *Closure, *ssa.Builtin, *Native   function values
//   Tuple            multi-value results
//   *MapIter, *StrIter   range iterators

import (
	"fmt"
	"go/types"

	"golang.org/x/tools/go/ssa"
)

type Value interface{}

type Struct []Value
type Array []Value
type Slice []Value
type Tuple []Value

type Float struct {
	v   float64
	sym bool
}

type SymStr struct {
	b []*Term // width-8 terms
}

type SymPtr struct {
	cands []*Value
	idx   *Term // 64-bit index term, known in range
}

type Iface struct {
	t types.Type
	v Value
}

type Closure struct {
	fn  *ssa.Function
	env []Value
}

type Map struct {
	keys []Value
	vals []Value
	kt   types.Type
	vt   types.Type
}

type Chan struct {
	buf    []Value
	cap    int
	closed bool
}

type MapIter struct {
	m   *Map
	pos int
	// snapshot of keys at range start
	keys []Value
}

type StrIter struct {
	s   string
	pos int
}

// Native is a function implemented by the engine (bound method values of
// modelled objects etc.).
type Native struct {
	name string
	fn   func(e *Exec, args []Value) Value
}

func isNilPtr(v Value) bool {
	switch p := v.(type) {
	case *Value:
		return p == nil
	case *SymPtr:
		return false
	case nil:
		return true
	}
	return false
}

func (e *Exec) zero(t types.Type) Value {
	switch t := t.(type) {
	case *types.Basic:
		switch {
		case t.Kind() == types.UntypedNil:
			return (*Value)(nil)
		case t.Info()&types.IsBoolean != 0:
			return e.ts.False
		case t.Info()&types.IsInteger != 0:
			return e.ts.Const(intWidth(t), 0)
		case t.Info()&types.IsFloat != 0:
			return Float{}
		case t.Info()&types.IsString != 0:
			return ""
		case t.Kind() == types.UnsafePointer:
			return (*Value)(nil)
		}
		panic(fmt.Sprintf("zero: unsupported basic type %v", t))
	case *types.Pointer:
		return (*Value)(nil)
	case *types.Array:
		n := int(t.Len())
		a := make(Array, n)
		for i := range a {
			a[i] = e.zero(t.Elem())
		}
		return a
	case *types.Struct:
		s := make(Struct, t.NumFields())
		for i := range s {
			s[i] = e.zero(t.Field(i).Type())
		}
		return s
	case *types.Slice:
		return Slice(nil)
	case *types.Map:
		return (*Map)(nil)
	case *types.Chan:
		return (*Chan)(nil)
	case *types.Interface:
		return Iface{}
	case *types.Signature:
		return (*ssa.Function)(nil)
	case *types.Named:
		return e.zero(t.Underlying())
	case *types.Alias:
		return e.zero(types.Unalias(t))
	case *types.Tuple:
		if t.Len() == 1 {
			return e.zero(t.At(0).Type())
		}
		s := make(Tuple, t.Len())
		for i := range s {
			s[i] = e.zero(t.At(i).Type())
		}
		return s
	case *types.TypeParam:
		panic("zero of type parameter")
	}
	panic(fmt.Sprintf("zero: unsupported type %T %v", t, t))
}

func intWidth(t *types.Basic) uint8 {
	switch t.Kind() {
	case types.Int8, types.Uint8:
		return 8
	case types.Int16, types.Uint16:
		return 16
	case types.Int32, types.Uint32:
		return 32
	case types.Int, types.Uint, types.Int64, types.Uint64, types.Uintptr, types.UntypedInt, types.UntypedRune:
		return 64
	}
	panic(fmt.Sprintf("intWidth: %v", t))
}

func isSigned(t types.Type) bool {
	b, ok := t.Underlying().(*types.Basic)
	return ok && b.Info()&types.IsInteger != 0 && b.Info()&types.IsUnsigned == 0
}

func isInteger(t types.Type) bool {
	b, ok := t.Underlying().(*types.Basic)
	return ok && b.Info()&types.IsInteger != 0
}

func isFloat(t types.Type) bool {
	b, ok := t.Underlying().(*types.Basic)
	return ok && b.Info()&types.IsFloat != 0
}

func isString(t types.Type) bool {
	b, ok := t.Underlying().(*types.Basic)
	return ok && b.Info()&types.IsString != 0
}

func isBool(t types.Type) bool {
	b, ok := t.Underlying().(*types.Basic)
	return ok && b.Info()&types.IsBoolean != 0
}

// copyVal copies aggregates (value semantics); everything else is shared.
func copyVal(v Value) Value {
	switch v := v.(type) {
	case Struct:
		n := make(Struct, len(v))
		for i, x := range v {
			n[i] = copyVal(x)
		}
		return n
	case Array:
		n := make(Array, len(v))
		for i, x := range v {
			n[i] = copyVal(x)
		}
		return n
	case Tuple:
		n := make(Tuple, len(v))
		for i, x := range v {
			n[i] = copyVal(x)
		}
		return n
	}
	return v
}

// storeInto writes v into *p keeping the addresses of sub-cells stable.
func storeInto(p *Value, v Value) {
	switch v := v.(type) {
	case Struct:
		if old, ok := (*p).(Struct); ok && len(old) == len(v) {
			for i := range v {
				storeInto(&old[i], v[i])
			}
			return
		}
		*p = copyVal(v)
	case Array:
		if old, ok := (*p).(Array); ok && len(old) == len(v) {
			for i := range v {
				storeInto(&old[i], v[i])
			}
			return
		}
		*p = copyVal(v)
	default:
		*p = v
	}
}

// strLen returns the (concrete) length of a string value.
func strLen(v Value) int {
	switch s := v.(type) {
	case string:
		return len(s)
	case *SymStr:
		return len(s.b)
	}
	panic(fmt.Sprintf("strLen of %T", v))
}

func (e *Exec) strBytes(v Value) []*Term {
	switch s := v.(type) {
	case string:
		r := make([]*Term, len(s))
		for i := 0; i < len(s); i++ {
			r[i] = e.ts.Const(8, uint64(s[i]))
		}
		return r
	case *SymStr:
		return s.b
	}
	panic(fmt.Sprintf("strBytes of %T", v))
}

// mkStr builds a string value from byte terms, concrete when possible.
func mkStr(b []*Term) Value {
	conc := true
	for _, t := range b {
		if !t.IsConst() {
			conc = false
			break
		}
	}
	if conc {
		bs := make([]byte, len(b))
		for i, t := range b {
			bs[i] = byte(t.c)
		}
		return string(bs)
	}
	return &SymStr{b: append([]*Term(nil), b...)}
}

// equal returns the term "x == y" for values of static type t.
func (e *Exec) equal(t types.Type, x, y Value) *Term {
	ts := e.ts
	switch x := x.(type) {
	case *Term:
		return ts.Eq(x, y.(*Term))
	case Float:
		yf := y.(Float)
		if x.sym || yf.sym {
			return e.freshBool("floateq")
		}
		return ts.Bool(x.v == yf.v)
	case string, *SymStr:
		if xs, ok := x.(string); ok {
			if ys, ok := y.(string); ok {
				return ts.Bool(xs == ys)
			}
		}
		if strLen(x) != strLen(y) {
			return ts.False
		}
		xb, yb := e.strBytes(x), e.strBytes(y)
		r := ts.True
		for i := range xb {
			r = ts.And(r, ts.Eq(xb[i], yb[i]))
			if r.IsFalse() {
				return r
			}
		}
		return r
	case *Value:
		switch y := y.(type) {
		case *Value:
			return ts.Bool(x == y)
		case *SymPtr:
			return e.symPtrEq(y, x)
		}
	case *SymPtr:
		switch y := y.(type) {
		case *Value:
			return e.symPtrEq(x, y)
		}
		panic(unsupported("comparison of two symbolic pointers"))
	case Struct:
		ys := y.(Struct)
		st := t.Underlying().(*types.Struct)
		r := ts.True
		for i := range x {
			if st.Field(i).Name() == "_" {
				continue
			}
			r = ts.And(r, e.equal(st.Field(i).Type(), x[i], ys[i]))
			if r.IsFalse() {
				return r
			}
		}
		return r
	case Array:
		ya := y.(Array)
		et := t.Underlying().(*types.Array).Elem()
		r := ts.True
		for i := range x {
			r = ts.And(r, e.equal(et, x[i], ya[i]))
			if r.IsFalse() {
				return r
			}
		}
		return r
	case Iface:
		yi := y.(Iface)
		if x.t == nil || yi.t == nil {
			return ts.Bool(x.t == nil && yi.t == nil)
		}
		if !types.Identical(x.t, yi.t) {
			return ts.False
		}
		return e.equal(x.t, x.v, yi.v)
	case *Map:
		return ts.Bool(x == y.(*Map))
	case *Chan:
		return ts.Bool(x == y.(*Chan))
	case Slice:
		// only comparison with nil is legal
		ys := y.(Slice)
		return ts.Bool(x == nil && ys == nil)
	case *ssa.Function:
		if yf, ok := y.(*ssa.Function); ok {
			return ts.Bool(x == yf)
		}
		return ts.Bool(false) // closure vs nil func
	case *Closure:
		if yf, ok := y.(*ssa.Function); ok && yf == nil {
			return ts.False
		}
		if yc, ok := y.(*Closure); ok {
			return ts.Bool(x == yc)
		}
		return ts.False
	case *Native:
		if yf, ok := y.(*ssa.Function); ok && yf == nil {
			return ts.False
		}
		return ts.Bool(x == y)
	case nil:
		return ts.Bool(y == nil)
	}
	panic(fmt.Sprintf("equal: unsupported %T vs %T", x, y))
}

func (e *Exec) symPtrEq(sp *SymPtr, p *Value) *Term {
	r := e.ts.False
	for i, c := range sp.cands {
		if c == p {
			r = e.ts.Or(r, e.ts.Eq(sp.idx, e.ts.Const(64, uint64(i))))
		}
	}
	return r
}

// isScalarType: element types for which symbolic-index access is done by ite.
func isScalarType(t types.Type) bool {
	b, ok := t.Underlying().(*types.Basic)
	return ok && b.Info()&(types.IsInteger|types.IsBoolean) != 0
}

type unsupportedErr struct{ msg string }

func unsupported(format string, args ...interface{}) unsupportedErr {
	return unsupportedErr{fmt.Sprintf(format, args...)}
}
