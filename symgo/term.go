package main

// Terms: hash-consed SMT terms (Bool and BitVec up to 64 bits) with eager
// constant folding.  A fully concrete execution never produces a non-constant
// term and therefore never touches the solver.

import (
	"fmt"
	"strings"
)

type Op uint8

const (
	OpConst Op = iota
	OpVar
	OpNot
	OpAnd
	OpOr
	OpIte
	OpEq
	OpUlt
	OpUle
	OpSlt
	OpSle
	OpAdd
	OpSub
	OpMul
	OpUDiv
	OpURem
	OpSDiv
	OpSRem
	OpBAnd
	OpBOr
	OpBXor
	OpBNot
	OpNeg
	OpShl
	OpLShr
	OpAShr
	OpZExt  // c = new width
	OpSExt  // c = new width
	OpTrunc // keep low w bits
	OpUF    // uninterpreted function application: name, args in list
)

var opNames = map[Op]string{
	OpNot: "not", OpAnd: "and", OpOr: "or", OpIte: "ite", OpEq: "=",
	OpUlt: "bvult", OpUle: "bvule", OpSlt: "bvslt", OpSle: "bvsle",
	OpAdd: "bvadd", OpSub: "bvsub", OpMul: "bvmul", OpUDiv: "bvudiv", OpURem: "bvurem",
	OpSDiv: "bvsdiv", OpSRem: "bvsrem", OpBAnd: "bvand", OpBOr: "bvor", OpBXor: "bvxor",
	OpBNot: "bvnot", OpNeg: "bvneg", OpShl: "bvshl", OpLShr: "bvlshr", OpAShr: "bvashr",
}

// Term is an SMT term.  w == 0 means Bool, otherwise a bit-vector of width w.
type Term struct {
	op   Op
	w    uint8
	c    uint64 // constant value (masked) for OpConst
	a    *Term
	b    *Term
	d    *Term
	name string  // OpVar, OpUF
	list []*Term // OpUF args
	id   uint32
}

type termKey struct {
	op      Op
	w       uint8
	c       uint64
	a, b, d uint32
	name    string
}

// TermStore hash-conses terms for one worker.
type TermStore struct {
	tab    map[termKey]*Term
	nextID uint32
	vars   map[string]*Term
	True   *Term
	False  *Term
}

func NewTermStore() *TermStore {
	ts := &TermStore{tab: map[termKey]*Term{}, vars: map[string]*Term{}, nextID: 1}
	ts.True = ts.mk(&Term{op: OpConst, w: 0, c: 1})
	ts.False = ts.mk(&Term{op: OpConst, w: 0, c: 0})
	return ts
}

// ResetTable forgets the hash-consing table (ids stay unique for the solver's
// lifetime); called between paths so that the table does not grow without bound.
func (ts *TermStore) ResetTable() {
	ts.tab = map[termKey]*Term{}
	ts.vars = map[string]*Term{}
	ts.True = ts.mk(&Term{op: OpConst, w: 0, c: 1})
	ts.False = ts.mk(&Term{op: OpConst, w: 0, c: 0})
}

func tid(t *Term) uint32 {
	if t == nil {
		return 0
	}
	return t.id
}

func (ts *TermStore) mk(t *Term) *Term {
	k := termKey{t.op, t.w, t.c, tid(t.a), tid(t.b), tid(t.d), t.name}
	if t.op == OpUF {
		var sb strings.Builder
		sb.WriteString(t.name)
		for _, x := range t.list {
			fmt.Fprintf(&sb, ",%d", x.id)
		}
		k.name = sb.String()
	}
	if r, ok := ts.tab[k]; ok {
		return r
	}
	t.id = ts.nextID
	ts.nextID++
	ts.tab[k] = t
	return t
}

func mask(w uint8) uint64 {
	if w >= 64 {
		return ^uint64(0)
	}
	return (uint64(1) << w) - 1
}

func (ts *TermStore) Const(w uint8, v uint64) *Term {
	if w == 0 {
		if v != 0 {
			return ts.True
		}
		return ts.False
	}
	return ts.mk(&Term{op: OpConst, w: w, c: v & mask(w)})
}

func (ts *TermStore) Bool(b bool) *Term {
	if b {
		return ts.True
	}
	return ts.False
}

func (ts *TermStore) Var(name string, w uint8) *Term {
	if v, ok := ts.vars[name]; ok {
		if v.w != w {
			panic(fmt.Sprintf("var %s redeclared with width %d (was %d)", name, w, v.w))
		}
		return v
	}
	v := ts.mk(&Term{op: OpVar, w: w, name: name})
	ts.vars[name] = v
	return v
}

func (t *Term) IsConst() bool { return t.op == OpConst }
func (t *Term) IsTrue() bool  { return t.op == OpConst && t.w == 0 && t.c == 1 }
func (t *Term) IsFalse() bool { return t.op == OpConst && t.w == 0 && t.c == 0 }

// signed value of a constant
func sval(w uint8, c uint64) int64 {
	if w >= 64 {
		return int64(c)
	}
	if c&(uint64(1)<<(w-1)) != 0 {
		return int64(c | ^mask(w))
	}
	return int64(c)
}

func (ts *TermStore) Not(a *Term) *Term {
	if a.IsConst() {
		return ts.Bool(a.c == 0)
	}
	if a.op == OpNot {
		return a.a
	}
	return ts.mk(&Term{op: OpNot, w: 0, a: a})
}

func (ts *TermStore) And(a, b *Term) *Term {
	if a.IsConst() {
		if a.c == 0 {
			return ts.False
		}
		return b
	}
	if b.IsConst() {
		if b.c == 0 {
			return ts.False
		}
		return a
	}
	if a == b {
		return a
	}
	if a.id > b.id {
		a, b = b, a
	}
	return ts.mk(&Term{op: OpAnd, w: 0, a: a, b: b})
}

func (ts *TermStore) Or(a, b *Term) *Term {
	if a.IsConst() {
		if a.c == 1 {
			return ts.True
		}
		return b
	}
	if b.IsConst() {
		if b.c == 1 {
			return ts.True
		}
		return a
	}
	if a == b {
		return a
	}
	if a.id > b.id {
		a, b = b, a
	}
	return ts.mk(&Term{op: OpOr, w: 0, a: a, b: b})
}

func (ts *TermStore) Ite(c, a, b *Term) *Term {
	if c.IsConst() {
		if c.c == 1 {
			return a
		}
		return b
	}
	if a == b {
		return a
	}
	if a.w != b.w {
		panic("ite width mismatch")
	}
	if a.w == 0 {
		if a.IsTrue() && b.IsFalse() {
			return c
		}
		if a.IsFalse() && b.IsTrue() {
			return ts.Not(c)
		}
	}
	return ts.mk(&Term{op: OpIte, w: a.w, a: c, b: a, d: b})
}

func (ts *TermStore) Eq(a, b *Term) *Term {
	if a == b {
		return ts.True
	}
	if a.w != b.w {
		panic(fmt.Sprintf("eq width mismatch %d %d", a.w, b.w))
	}
	if a.IsConst() && b.IsConst() {
		return ts.Bool(a.c == b.c)
	}
	if a.w == 0 {
		if a.IsConst() {
			if a.c == 1 {
				return b
			}
			return ts.Not(b)
		}
		if b.IsConst() {
			if b.c == 1 {
				return a
			}
			return ts.Not(a)
		}
	}
	// zext(x) == const  -> x == const' (or false)
	if b.IsConst() && a.op == OpZExt {
		if b.c&^mask(a.a.w) != 0 {
			return ts.False
		}
		return ts.Eq(a.a, ts.Const(a.a.w, b.c))
	}
	if a.IsConst() && b.op == OpZExt {
		return ts.Eq(b, a)
	}
	if a.id > b.id {
		a, b = b, a
	}
	return ts.mk(&Term{op: OpEq, w: 0, a: a, b: b})
}

func (ts *TermStore) cmp(op Op, a, b *Term) *Term {
	if a.w != b.w {
		panic(fmt.Sprintf("cmp width mismatch %d %d", a.w, b.w))
	}
	if a.IsConst() && b.IsConst() {
		switch op {
		case OpUlt:
			return ts.Bool(a.c < b.c)
		case OpUle:
			return ts.Bool(a.c <= b.c)
		case OpSlt:
			return ts.Bool(sval(a.w, a.c) < sval(b.w, b.c))
		case OpSle:
			return ts.Bool(sval(a.w, a.c) <= sval(b.w, b.c))
		}
	}
	if a == b {
		return ts.Bool(op == OpUle || op == OpSle)
	}
	if op == OpUlt && b.IsConst() && b.c == 0 {
		return ts.False
	}
	if op == OpUle && a.IsConst() && a.c == 0 {
		return ts.True
	}
	// zext(x) <u const with const beyond range
	if (op == OpUlt || op == OpUle) && a.op == OpZExt && b.IsConst() && b.c > mask(a.a.w) {
		return ts.True
	}
	return ts.mk(&Term{op: op, w: 0, a: a, b: b})
}

func (ts *TermStore) Ult(a, b *Term) *Term { return ts.cmp(OpUlt, a, b) }
func (ts *TermStore) Ule(a, b *Term) *Term { return ts.cmp(OpUle, a, b) }
func (ts *TermStore) Slt(a, b *Term) *Term { return ts.cmp(OpSlt, a, b) }
func (ts *TermStore) Sle(a, b *Term) *Term { return ts.cmp(OpSle, a, b) }

func foldBin(op Op, w uint8, x, y uint64) (uint64, bool) {
	m := mask(w)
	switch op {
	case OpAdd:
		return (x + y) & m, true
	case OpSub:
		return (x - y) & m, true
	case OpMul:
		return (x * y) & m, true
	case OpUDiv:
		if y == 0 {
			return m, true
		}
		return (x / y) & m, true
	case OpURem:
		if y == 0 {
			return x, true
		}
		return (x % y) & m, true
	case OpSDiv:
		if y == 0 {
			if sval(w, x) < 0 {
				return 1, true
			}
			return m, true
		}
		sx, sy := sval(w, x), sval(w, y)
		if sy == -1 {
			return uint64(-sx) & m, true
		}
		return uint64(sx/sy) & m, true
	case OpSRem:
		if y == 0 {
			return x, true
		}
		sx, sy := sval(w, x), sval(w, y)
		if sy == -1 {
			return 0, true
		}
		return uint64(sx%sy) & m, true
	case OpBAnd:
		return x & y, true
	case OpBOr:
		return x | y, true
	case OpBXor:
		return x ^ y, true
	case OpShl:
		if y >= uint64(w) {
			return 0, true
		}
		return (x << y) & m, true
	case OpLShr:
		if y >= uint64(w) {
			return 0, true
		}
		return (x >> y) & m, true
	case OpAShr:
		sx := sval(w, x)
		if y >= uint64(w) {
			if sx < 0 {
				return m, true
			}
			return 0, true
		}
		return uint64(sx>>y) & m, true
	}
	return 0, false
}

func (ts *TermStore) Bin(op Op, a, b *Term) *Term {
	if a.w != b.w || a.w == 0 {
		panic(fmt.Sprintf("bin %v width mismatch %d %d", opNames[op], a.w, b.w))
	}
	w := a.w
	if a.IsConst() && b.IsConst() {
		v, _ := foldBin(op, w, a.c, b.c)
		return ts.Const(w, v)
	}
	switch op {
	case OpAdd:
		if a.IsConst() && a.c == 0 {
			return b
		}
		if b.IsConst() && b.c == 0 {
			return a
		}
		// (x + c1) + c2
		if b.IsConst() && a.op == OpAdd && a.b.IsConst() {
			return ts.Bin(OpAdd, a.a, ts.Const(w, a.b.c+b.c))
		}
		if a.IsConst() {
			a, b = b, a
		}
	case OpSub:
		if b.IsConst() && b.c == 0 {
			return a
		}
		if a == b {
			return ts.Const(w, 0)
		}
		if b.IsConst() {
			return ts.Bin(OpAdd, a, ts.Const(w, -b.c))
		}
	case OpMul:
		if a.IsConst() {
			a, b = b, a
		}
		if b.IsConst() {
			if b.c == 0 {
				return b
			}
			if b.c == 1 {
				return a
			}
		}
	case OpBAnd:
		if a.IsConst() {
			a, b = b, a
		}
		if b.IsConst() {
			if b.c == 0 {
				return b
			}
			if b.c == mask(w) {
				return a
			}
			// zext(x) & m where m covers all of x's bits
			if a.op == OpZExt && b.c&mask(a.a.w) == mask(a.a.w) {
				return a
			}
		}
		if a == b {
			return a
		}
	case OpBOr:
		if a.IsConst() {
			a, b = b, a
		}
		if b.IsConst() {
			if b.c == 0 {
				return a
			}
			if b.c == mask(w) {
				return b
			}
		}
		if a == b {
			return a
		}
	case OpBXor:
		if a.IsConst() {
			a, b = b, a
		}
		if b.IsConst() && b.c == 0 {
			return a
		}
		if a == b {
			return ts.Const(w, 0)
		}
	case OpShl, OpLShr, OpAShr:
		if b.IsConst() && b.c == 0 {
			return a
		}
		if a.IsConst() && a.c == 0 {
			return a
		}
		if b.IsConst() && b.c >= uint64(w) && op != OpAShr {
			return ts.Const(w, 0)
		}
		// (zext x) >> k with k >= width(x)
		if op == OpLShr && b.IsConst() && a.op == OpZExt && b.c >= uint64(a.a.w) {
			return ts.Const(w, 0)
		}
	case OpUDiv, OpSDiv:
		if b.IsConst() && b.c == 1 {
			return a
		}
	}
	return ts.mk(&Term{op: op, w: w, a: a, b: b})
}

func (ts *TermStore) BNot(a *Term) *Term {
	if a.IsConst() {
		return ts.Const(a.w, ^a.c)
	}
	if a.op == OpBNot {
		return a.a
	}
	return ts.mk(&Term{op: OpBNot, w: a.w, a: a})
}

func (ts *TermStore) Neg(a *Term) *Term {
	if a.IsConst() {
		return ts.Const(a.w, -a.c)
	}
	return ts.mk(&Term{op: OpNeg, w: a.w, a: a})
}

func (ts *TermStore) ZExt(a *Term, w uint8) *Term {
	if a.w == w {
		return a
	}
	if a.w > w || a.w == 0 {
		panic("zext narrowing")
	}
	if a.IsConst() {
		return ts.Const(w, a.c)
	}
	if a.op == OpZExt {
		return ts.ZExt(a.a, w)
	}
	return ts.mk(&Term{op: OpZExt, w: w, a: a})
}

func (ts *TermStore) SExt(a *Term, w uint8) *Term {
	if a.w == w {
		return a
	}
	if a.w > w || a.w == 0 {
		panic("sext narrowing")
	}
	if a.IsConst() {
		return ts.Const(w, uint64(sval(a.w, a.c)))
	}
	if a.op == OpZExt { // sign bit is known zero
		return ts.ZExt(a.a, w)
	}
	return ts.mk(&Term{op: OpSExt, w: w, a: a})
}

func (ts *TermStore) Trunc(a *Term, w uint8) *Term {
	if a.w == w {
		return a
	}
	if a.w < w {
		panic("trunc widening")
	}
	if a.IsConst() {
		return ts.Const(w, a.c)
	}
	if a.op == OpZExt || a.op == OpSExt {
		if a.a.w == w {
			return a.a
		}
		if a.a.w > w {
			return ts.Trunc(a.a, w)
		}
		if a.op == OpZExt {
			return ts.ZExt(a.a, w)
		}
		return ts.SExt(a.a, w)
	}
	if a.op == OpTrunc {
		return ts.Trunc(a.a, w)
	}
	// trunc distributes over bitwise ops and add/sub/mul: helps byte extraction
	switch a.op {
	case OpBAnd, OpBOr, OpBXor, OpAdd, OpSub, OpMul:
		return ts.Bin(a.op, ts.Trunc(a.a, w), ts.Trunc(a.b, w))
	case OpShl:
		if a.b.IsConst() {
			if a.b.c >= uint64(w) {
				return ts.Const(w, 0)
			}
			return ts.Bin(OpShl, ts.Trunc(a.a, w), ts.Const(w, a.b.c))
		}
	case OpLShr:
		// trunc_w(zext(x) >> k) where x fits: = trunc_w(x >> k) when k+w <= width(x)
		if a.b.IsConst() && a.a.op == OpZExt {
			x := a.a.a
			k := a.b.c
			if k < uint64(x.w) && k+uint64(w) <= uint64(x.w) {
				return ts.Trunc(ts.Bin(OpLShr, x, ts.Const(x.w, k)), w)
			}
			if k >= uint64(x.w) {
				return ts.Const(w, 0)
			}
		}
	case OpIte:
		if a.b.IsConst() || a.d.IsConst() {
			return ts.Ite(a.a, ts.Trunc(a.b, w), ts.Trunc(a.d, w))
		}
	}
	return ts.mk(&Term{op: OpTrunc, w: w, a: a})
}

func (ts *TermStore) UF(name string, w uint8, args []*Term) *Term {
	return ts.mk(&Term{op: OpUF, w: w, name: name, list: args})
}

// ---------------------------------------------------------------------------
// SMT-LIB printing

func sortOf(w uint8) string {
	if w == 0 {
		return "Bool"
	}
	return fmt.Sprintf("(_ BitVec %d)", w)
}

func constLit(t *Term) string {
	if t.w == 0 {
		if t.c == 1 {
			return "true"
		}
		return "false"
	}
	if t.w%4 == 0 {
		return fmt.Sprintf("#x%0*x", int(t.w/4), t.c)
	}
	return fmt.Sprintf("(_ bv%d %d)", t.c, t.w)
}

func smtName(s string) string {
	return "|" + s + "|"
}

func ref(t *Term) string {
	switch t.op {
	case OpConst:
		return constLit(t)
	case OpVar:
		return smtName(t.name)
	}
	return fmt.Sprintf("t%d", t.id)
}

// body returns the SMT-LIB expression of a non-leaf term, referring to its
// children by name.
func body(t *Term) string {
	switch t.op {
	case OpNot, OpBNot, OpNeg:
		return fmt.Sprintf("(%s %s)", opNames[t.op], ref(t.a))
	case OpIte:
		return fmt.Sprintf("(ite %s %s %s)", ref(t.a), ref(t.b), ref(t.d))
	case OpZExt:
		return fmt.Sprintf("((_ zero_extend %d) %s)", t.w-t.a.w, ref(t.a))
	case OpSExt:
		return fmt.Sprintf("((_ sign_extend %d) %s)", t.w-t.a.w, ref(t.a))
	case OpTrunc:
		return fmt.Sprintf("((_ extract %d 0) %s)", t.w-1, ref(t.a))
	case OpUF:
		var sb strings.Builder
		sb.WriteString("(" + smtName(t.name))
		for _, x := range t.list {
			sb.WriteString(" " + ref(x))
		}
		sb.WriteString(")")
		return sb.String()
	}
	return fmt.Sprintf("(%s %s %s)", opNames[t.op], ref(t.a), ref(t.b))
}

func (t *Term) kids() []*Term {
	if t.op == OpUF {
		return t.list
	}
	var k []*Term
	if t.a != nil {
		k = append(k, t.a)
	}
	if t.b != nil {
		k = append(k, t.b)
	}
	if t.d != nil {
		k = append(k, t.d)
	}
	return k
}

// String gives a compact fully-expanded rendering (for diagnostics only).
func (t *Term) String() string {
	return t.str(0)
}

func (t *Term) str(depth int) string {
	if t.op == OpConst || t.op == OpVar {
		if t.op == OpConst && t.w != 0 {
			return fmt.Sprintf("%d:%d", t.c, t.w)
		}
		return strings.Trim(ref(t), "|")
	}
	if depth > 6 {
		return "…"
	}
	var parts []string
	for _, k := range t.kids() {
		parts = append(parts, k.str(depth+1))
	}
	n := opNames[t.op]
	switch t.op {
	case OpZExt:
		n = fmt.Sprintf("zext%d", t.w)
	case OpSExt:
		n = fmt.Sprintf("sext%d", t.w)
	case OpTrunc:
		n = fmt.Sprintf("trunc%d", t.w)
	case OpUF:
		n = t.name
	}
	return "(" + n + " " + strings.Join(parts, " ") + ")"
}

// ---------------------------------------------------------------------------
// Evaluation under a model (for witness validation)

type Model map[string]uint64

func (t *Term) Eval(m Model, ufs func(name string, args []uint64) uint64) uint64 {
	memo := map[uint32]uint64{}
	var ev func(t *Term) uint64
	ev = func(t *Term) uint64 {
		if t.op == OpConst {
			return t.c
		}
		if v, ok := memo[t.id]; ok {
			return v
		}
		var r uint64
		switch t.op {
		case OpVar:
			r = m[t.name] & mask(t.w)
			if t.w == 0 {
				r = m[t.name] & 1
			}
		case OpNot:
			r = 1 - ev(t.a)
		case OpAnd:
			r = ev(t.a) & ev(t.b)
		case OpOr:
			r = ev(t.a) | ev(t.b)
		case OpIte:
			if ev(t.a) == 1 {
				r = ev(t.b)
			} else {
				r = ev(t.d)
			}
		case OpEq:
			if ev(t.a) == ev(t.b) {
				r = 1
			}
		case OpUlt:
			if ev(t.a) < ev(t.b) {
				r = 1
			}
		case OpUle:
			if ev(t.a) <= ev(t.b) {
				r = 1
			}
		case OpSlt:
			if sval(t.a.w, ev(t.a)) < sval(t.b.w, ev(t.b)) {
				r = 1
			}
		case OpSle:
			if sval(t.a.w, ev(t.a)) <= sval(t.b.w, ev(t.b)) {
				r = 1
			}
		case OpBNot:
			r = ^ev(t.a) & mask(t.w)
		case OpNeg:
			r = (-ev(t.a)) & mask(t.w)
		case OpZExt:
			r = ev(t.a)
		case OpSExt:
			r = uint64(sval(t.a.w, ev(t.a))) & mask(t.w)
		case OpTrunc:
			r = ev(t.a) & mask(t.w)
		case OpUF:
			var args []uint64
			for _, x := range t.list {
				args = append(args, ev(x))
			}
			if ufs != nil {
				r = ufs(t.name, args) & mask(t.w)
			}
		default:
			r, _ = foldBin(t.op, t.w, ev(t.a), ev(t.b))
		}
		memo[t.id] = r
		return r
	}
	return ev(t)
}
