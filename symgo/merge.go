package main

// If-conversion of pure diamonds.  At a branch on a symbolic condition whose two
// arms are small, call-free, loop-free regions that meet again at the branch's
// immediate post-dominator, both arms are executed speculatively (stores go to
// an overlay), and the results are merged with ite terms instead of forking
// the path.  Anything that could panic, fork or have an effect beyond scalar
// stores aborts the speculation and the branch is forked as usual, so the
// transformation never changes which behaviours are explored.

import (
	"go/token"
	"sync"

	"golang.org/x/tools/go/ssa"
)

type specAbort struct{ why string }

type overlay struct {
	m     map[*Value]Value
	order []*Value
}

func newOverlay() *overlay { return &overlay{m: map[*Value]Value{}} }

func (o *overlay) set(p *Value, v Value) {
	if _, ok := o.m[p]; !ok {
		o.order = append(o.order, p)
	}
	o.m[p] = v
}

// read returns the current value of cell p as seen by speculative code.
func (e *Exec) read(p *Value) Value {
	for i := len(e.spec) - 1; i >= 0; i-- {
		if v, ok := e.spec[i].m[p]; ok {
			return v
		}
	}
	return *p
}

type funcInfo struct {
	ipdom  map[*ssa.BasicBlock]*ssa.BasicBlock
	region map[*ssa.BasicBlock]bool
}

var finfoMu sync.Mutex
var finfos = map[*ssa.Function]*funcInfo{}

func getFuncInfo(fn *ssa.Function) *funcInfo {
	finfoMu.Lock()
	defer finfoMu.Unlock()
	if fi, ok := finfos[fn]; ok {
		return fi
	}
	fi := &funcInfo{ipdom: computeIPDom(fn)}
	finfos[fn] = fi
	return fi
}

// computeIPDom: immediate post-dominators (nil = the virtual exit).
func computeIPDom(fn *ssa.Function) map[*ssa.BasicBlock]*ssa.BasicBlock {
	n := len(fn.Blocks)
	// post-dominator sets as bitsets over block indices; index n = virtual exit
	type bits []uint64
	words := (n + 1 + 63) / 64
	full := make(bits, words)
	for i := 0; i <= n; i++ {
		full[i/64] |= 1 << (uint(i) % 64)
	}
	pd := make([]bits, n+1)
	for i := 0; i <= n; i++ {
		pd[i] = append(bits(nil), full...)
	}
	exit := make(bits, words)
	exit[n/64] |= 1 << (uint(n) % 64)
	pd[n] = exit
	changed := true
	for changed {
		changed = false
		for i := n - 1; i >= 0; i-- {
			b := fn.Blocks[i]
			nb := append(bits(nil), full...)
			succs := b.Succs
			if len(succs) == 0 {
				copy(nb, pd[n])
			} else {
				for _, s := range succs {
					for w := range nb {
						nb[w] &= pd[s.Index][w]
					}
				}
			}
			nb[i/64] |= 1 << (uint(i) % 64)
			same := true
			for w := range nb {
				if nb[w] != pd[i][w] {
					same = false
				}
			}
			if !same {
				pd[i] = nb
				changed = true
			}
		}
	}
	has := func(s bits, i int) bool { return s[i/64]&(1<<(uint(i)%64)) != 0 }
	count := func(s bits) int {
		c := 0
		for i := 0; i <= n; i++ {
			if has(s, i) {
				c++
			}
		}
		return c
	}
	res := map[*ssa.BasicBlock]*ssa.BasicBlock{}
	for i := 0; i < n; i++ {
		// ipdom = the strict post-dominator with the largest post-dominator set
		best, bestCount := -1, -1
		for j := 0; j <= n; j++ {
			if j == i || !has(pd[i], j) {
				continue
			}
			c := count(pd[j])
			if c > bestCount {
				best, bestCount = j, c
			}
		}
		if best >= 0 && best < n {
			res[fn.Blocks[i]] = fn.Blocks[best]
		} else {
			res[fn.Blocks[i]] = nil
		}
	}
	return res
}

const maxSpecBlocks = 24

// specAllowed: instruction kinds that may be executed speculatively.
func specAllowed(instr ssa.Instruction) bool {
	switch in := instr.(type) {
	case *ssa.Return:
		return true
	case *ssa.DebugRef, *ssa.BinOp, *ssa.Convert, *ssa.ChangeType, *ssa.ChangeInterface, *ssa.MakeInterface,
		*ssa.FieldAddr, *ssa.Field, *ssa.IndexAddr, *ssa.Index, *ssa.Store, *ssa.Alloc, *ssa.Extract,
		*ssa.Slice, *ssa.Phi, *ssa.Jump, *ssa.If:
		return true
	case *ssa.UnOp:
		return in.Op != token.ARROW
	case *ssa.Call:
		if b, ok := in.Call.Value.(*ssa.Builtin); ok {
			return b.Name() == "len" || b.Name() == "cap"
		}
		if f, ok := in.Call.Value.(*ssa.Function); ok {
			// static callee with a body: speculated too (aborts dynamically if it is not pure)
			return f.Blocks != nil && f.Recover == nil && in.Call.Method == nil
		}
		return false
	}
	return false
}

// tryMerge attempts to if-convert the branch ending fr.block.  On success the
// frame is positioned at the join block (phis already assigned) and true is
// returned.
func (fr *frame) tryMerge(instr *ssa.If, c *Term) (merged bool) {
	e := fr.e
	if e.x.cfg.NoMerge {
		return false
	}
	b := fr.block
	join := getFuncInfo(fr.fn).ipdom[b] // nil: every arm returns
	if fr.fn.Recover != nil && join == nil {
		return false
	}
	if !getFuncInfo(fr.fn).regionOK(b, join) {
		return false
	}
	savedBlock, savedPrev := fr.block, fr.prev
	depth := len(e.spec)
	steps := e.steps
	csLen, dfLen := len(e.callStack), len(e.deferFrame)
	obl, dis, con := e.obligations, e.discharged, e.concreteObl
	defer func() {
		if r := recover(); r != nil {
			e.spec = e.spec[:depth]
			e.callStack = e.callStack[:csLen]
			e.deferFrame = e.deferFrame[:dfLen]
			fr.block, fr.prev = savedBlock, savedPrev
			fr.phiDone = false
			switch r.(type) {
			case specAbort, targetPanic:
				e.steps = steps
				e.obligations, e.discharged, e.concreteObl = obl, dis, con
				merged = false
				return
			}
			panic(r)
		}
	}()
	var arms [2]*overlay
	var lastPred [2]*ssa.BasicBlock
	var results [2]Value
	var armPhis [2][]Value
	var armPhiSet [2]bool
	for k := 0; k < 2; k++ {
		ov := newOverlay()
		e.spec = append(e.spec, ov)
		fr.prev = b
		fr.block = b.Succs[k]
		fr.result = nil
		nblocks := 0
		for fr.block != join {
			nblocks++
			if nblocks > maxSpecBlocks {
				panic(specAbort{"region too large"})
			}
			if fr.block == nil {
				panic(specAbort{"return inside region"})
			}
			fr.runBlock()
		}
		lastPred[k] = fr.prev
		results[k] = fr.result
		if fr.phiDone {
			// a nested merge ended at this same join and has already merged its phis
			fr.phiDone = false
			var vals []Value
			for _, in := range join.Instrs {
				phi, ok := in.(*ssa.Phi)
				if !ok {
					break
				}
				vals = append(vals, fr.env[phi])
			}
			armPhis[k] = vals
			armPhiSet[k] = true
		}
		e.spec = e.spec[:depth]
		arms[k] = ov
	}
	var mergedResult Value
	if join == nil {
		mv, ok := e.mergeValues(c, results[0], results[1])
		if !ok {
			panic(specAbort{"unmergeable return values"})
		}
		mergedResult = mv
	}
	// merge phis of the join block
	nphi := 0
	var joinInstrs []ssa.Instruction
	if join != nil {
		joinInstrs = join.Instrs
	}
	for _, in := range joinInstrs {
		if _, ok := in.(*ssa.Phi); ok {
			nphi++
		} else {
			break
		}
	}
	phiVals := make([]Value, nphi)
	for i := 0; i < nphi; i++ {
		phi := join.Instrs[i].(*ssa.Phi)
		var vs [2]Value
		for k := 0; k < 2; k++ {
			if armPhiSet[k] {
				vs[k] = armPhis[k][i]
				continue
			}
			found := false
			for pi, pred := range join.Preds {
				if pred == lastPred[k] {
					vs[k] = fr.get(phi.Edges[pi])
					found = true
					break
				}
			}
			if !found {
				panic(specAbort{"phi edge not found"})
			}
		}
		mv, ok := e.mergeValues(c, vs[0], vs[1])
		if !ok {
			panic(specAbort{"unmergeable phi"})
		}
		phiVals[i] = mv
	}
	// merge stores
	type wr struct {
		p *Value
		v Value
	}
	var writes []wr
	seen := map[*Value]bool{}
	for k := 0; k < 2; k++ {
		for _, p := range arms[k].order {
			if seen[p] {
				continue
			}
			seen[p] = true
			base := e.read(p)
			vt, vf := base, base
			if v, ok := arms[0].m[p]; ok {
				vt = v
			}
			if v, ok := arms[1].m[p]; ok {
				vf = v
			}
			mv, ok := e.mergeValues(c, vt, vf)
			if !ok {
				panic(specAbort{"unmergeable store"})
			}
			writes = append(writes, wr{p, mv})
		}
	}
	// commit
	for _, w := range writes {
		if depth > 0 {
			e.spec[depth-1].set(w.p, w.v)
		} else {
			*w.p = w.v
		}
	}
	for i := 0; i < nphi; i++ {
		fr.env[join.Instrs[i].(*ssa.Phi)] = phiVals[i]
	}
	fr.block = join
	fr.prev = lastPred[0]
	if join != nil {
		fr.phiDone = true
	} else {
		fr.result = mergedResult
	}
	e.merges++
	return true
}

// mergeValues returns ite(c, a, b) when representable.
func (e *Exec) mergeValues(c *Term, a, b Value) (Value, bool) {
	switch x := a.(type) {
	case *Term:
		y, ok := b.(*Term)
		if !ok || x.w != y.w {
			return nil, false
		}
		return e.ts.Ite(c, x, y), true
	case *Value:
		y, ok := b.(*Value)
		if ok && x == y {
			return x, true
		}
		return nil, false
	case string:
		y, ok := b.(string)
		if ok && x == y {
			return x, true
		}
		return nil, false
	case Array:
		y, ok := b.(Array)
		if !ok || len(x) != len(y) {
			return nil, false
		}
		r := make(Array, len(x))
		for i := range x {
			v, ok := e.mergeValues(c, x[i], y[i])
			if !ok {
				return nil, false
			}
			r[i] = v
		}
		return r, true
	case Tuple:
		y, ok := b.(Tuple)
		if !ok || len(x) != len(y) {
			return nil, false
		}
		r := make(Tuple, len(x))
		for i := range x {
			v, ok := e.mergeValues(c, x[i], y[i])
			if !ok {
				return nil, false
			}
			r[i] = v
		}
		return r, true
	case Struct:
		y, ok := b.(Struct)
		if !ok || len(x) != len(y) {
			return nil, false
		}
		r := make(Struct, len(x))
		for i := range x {
			v, ok := e.mergeValues(c, x[i], y[i])
			if !ok {
				return nil, false
			}
			r[i] = v
		}
		return r, true
	case nil:
		if b == nil {
			return nil, true
		}
		return nil, false
	case Slice:
		y, ok := b.(Slice)
		if ok && len(x) == len(y) && cap(x) == cap(y) && (len(x) == 0 && cap(x) == 0 || cap(x) > 0 && &x[:1][0] == &y[:1][0]) {
			return x, true
		}
		return nil, false
	case Iface:
		y, ok := b.(Iface)
		if ok && x.t == y.t {
			if x.t == nil {
				return x, true
			}
			if v, ok := e.mergeValues(c, x.v, y.v); ok {
				return Iface{x.t, v}, true
			}
		}
		return nil, false
	case *Map:
		y, ok := b.(*Map)
		return x, ok && x == y
	case *Chan:
		y, ok := b.(*Chan)
		return x, ok && x == y
	case *ssa.Function:
		y, ok := b.(*ssa.Function)
		return x, ok && x == y
	case *Closure:
		y, ok := b.(*Closure)
		return x, ok && x == y
	}
	return nil, false
}

// regionOK: static (context-independent) test that the region between branch
// block b and its join consists only of instructions that may be speculated,
// is acyclic, small, and has no exits.
func (fi *funcInfo) regionOK(b, join *ssa.BasicBlock) bool {
	finfoMu.Lock()
	defer finfoMu.Unlock()
	if fi.region == nil {
		fi.region = map[*ssa.BasicBlock]bool{}
	}
	if ok, seen := fi.region[b]; seen {
		return ok
	}
	ok := true
	state := map[*ssa.BasicBlock]int{} // 1 = on stack, 2 = done
	count := 0
	var dfs func(x *ssa.BasicBlock)
	dfs = func(x *ssa.BasicBlock) {
		if !ok || x == join {
			return
		}
		if x == b || state[x] == 1 {
			ok = false // cycle
			return
		}
		if state[x] == 2 {
			return
		}
		state[x] = 1
		count++
		if count > maxSpecBlocks {
			ok = false
			return
		}
		for _, in := range x.Instrs {
			if !specAllowed(in) {
				ok = false
				return
			}
			if _, isRet := in.(*ssa.Return); isRet && join != nil {
				ok = false
				return
			}
		}
		if len(x.Succs) == 0 {
			if _, isRet := x.Instrs[len(x.Instrs)-1].(*ssa.Return); !isRet || join != nil {
				ok = false
				return
			}
		}
		for _, s := range x.Succs {
			dfs(s)
		}
		state[x] = 2
	}
	for _, s := range b.Succs {
		dfs(s)
	}
	fi.region[b] = ok
	return ok
}
