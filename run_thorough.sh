#!/bin/sh
# runs every thorough command once (development: no evidence written, separate work dir); prints one line per property
cd /verif
for p in C14 C19 C18 C16 C11 C10 C15 C05 C06 C08 C09 C07 C12 C02 C03 C17 C04 C01 C20 C13; do
  t0=$(date +%s)
  VF_WORK=/verif/.work_thorough VF_NOEVIDENCE=1 ./vf check $p --tier thorough > /tmp/thorough_$p.log 2>&1; rc=$?
  t1=$(date +%s)
  echo "$p exit=$rc secs=$((t1-t0)) $(grep '^property=' /tmp/thorough_$p.log | cut -c1-160)"
  grep -E "MACHINERY|VACUITY|VIOLATION|INCONCLUSIVE" /tmp/thorough_$p.log | cut -c1-300 | head -5
done
echo THOROUGH-DONE
