#!/bin/sh
# usage: seedtest.sh <patch.diff> <property> [<property>...]
# applies a seeded change to /repo, runs the named checks, and undoes the change straight afterwards
patch=$1; shift
cd /repo || exit 2
if ! git diff --quiet; then echo "/repo has uncommitted changes"; exit 2; fi
git apply "$patch" || { echo "patch does not apply"; exit 2; }
trap 'git -C /repo checkout -- . ' EXIT
export GOFLAGS=-mod=mod GOPROXY=off GOSUMDB=off GOTOOLCHAIN=local
go build ./... || { echo "does not build"; exit 2; }
go test -vet=off -count=1 ./protocol/ ./server/ 2>&1 | tail -2
cd /verif
for p in "$@"; do
  ./vf check $p > /tmp/seedtest_$p.log 2>&1; rc=$?
  echo "== $p exit=$rc"; grep -v "^KNOWN-FINDING" /tmp/seedtest_$p.log | cut -c1-260 | tail -6
done
