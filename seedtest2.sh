#!/bin/sh
# usage: seedtest2.sh <id> <property> [...]  -- development variant of seedtest.sh: runs the checks against the
# scratch worktree /tmp/seed/<id> (VF_REPO) with its SEED/patch.diff applied, so /repo stays usable meanwhile
id=$1; shift; wt=/tmp/seed/$id
cd $wt || exit 2
git checkout -q -- . ; git apply SEED/patch.diff || { echo "patch does not apply"; exit 2; }
cd /verif
for p in "$@"; do
  VF_REPO=$wt VF_WORK=/verif/.work_$id VF_NOEVIDENCE=1 ./vf check $p > /tmp/seedtest_${id}_$p.log 2>&1; rc=$?
  echo "== $id $p exit=$rc"; grep -v "^KNOWN-FINDING" /tmp/seedtest_${id}_$p.log | cut -c1-260 | tail -5
done
cd $wt && git checkout -q -- . && rm -f server/append.aof.*
