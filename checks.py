"""Registry of checks: property -> harnesses (with per-tier symgo flags and stated bounds)."""

CHECKS = {
    "C14": dict(
        explanation="bounded symbolic execution of the real codec functions from go/ssa; inputs are symbolic bytes",
        assumptions=["crypto/md5.Sum is an uninterpreted function of its input bytes"],
        harnesses=[
            dict(pkg="protocol", name="C14_rt_lock", bound="all 2^512 64-byte buffers", flags=["-witness", "1"], reach=["end"]),
        ],
    ),
}

CHECKS["C01"] = dict(
    explanation="bounded symbolic execution of LockDB.Lock/UnLock and everything they reach, on a real small database",
    assumptions=[],
    harnesses=[
        dict(pkg="server", name="C01_hist2", bound="2 operations from the empty database, core profile", flags=["-witness", "200"], reach=["end", "grant", "grant-shared"]),
        dict(pkg="server", name="C01_step", bound="one operation from any state with <=3 holders (symbolic Count/Rcount/priority/depth) and <=2 queued requests", flags=["-witness", "500"], reach=["end", "grant", "grant-shared"]),
        dict(pkg="server", name="C01_big", bound="one LOCK by a new LockId on a key with any number n < 2^31 of outstanding holds", flags=["-witness", "1"], reach=["end", "grant"]),
    ],
)

CHECKS["C20"] = dict(
    explanation="bounded symbolic execution of the real segmented-deque code against a Go-slice model; the executor forks over every opcode at every step",
    assumptions=[],
    harnesses=[
        dict(pkg="server", name="C20_lockqueue", bound="all programs of 6 operations over 8 opcodes; constructor parameters base 1..2, nodes 1..3, size 1..2", flags=["-witness", "100000"], reach=["end"]),
    ],
)
