"""Registry of checks: property -> harnesses (with per-tier symgo flags and stated bounds)."""

CHECKS = {
    "C14": dict(
        explanation="bounded symbolic execution of the real codec functions from go/ssa; inputs are symbolic bytes",
        assumptions=["crypto/md5.Sum is an uninterpreted function of its input bytes", "fmt.Sprintf is modelled by the executor (%d, %x, %s); strconv, encoding/hex and strings are executed from their own SSA"],
        harnesses=[
            dict(pkg="protocol", name="C14_rt_lock", bound="all 2^512 64-byte buffers", flags=["-witness", "1"], reach=["end"]),
            dict(pkg="protocol", name="C14_rt_all", bound="all 2^512 64-byte buffers for each of 18 command/result types", flags=["-witness", "1"], reach=["end", "decode-rejected"]),
            dict(pkg="protocol", name="C14_rt_call", bound="CALL method names of 0..38 and error types of 0..37 symbolic non-NUL bytes, all header field values", flags=["-witness", "5"], reach=["end"]),
            dict(pkg="protocol", name="C14_chunks_req", bound="BuildRequest of 1..2 arguments of 0..3 symbolic bytes, delivered in up to 3 reads cut at every pair of offsets", flags=["-witness", "100"], reach=["end"]),
            dict(pkg="protocol", name="C14_chunks_resp", bound="BuildResponse in status / error / bulk (0..3 bytes) / array (2 x 0..2 bytes) form, up to 3 reads cut at every pair of offsets", flags=["-witness", "100"], reach=["end"]),
            dict(pkg="protocol", name="C14_chunks_long", bound="SET + one argument of 9 / 10 / 11 / 99 / 100 / 101 / 999 / 1000 / 1001 bytes (first, middle, last byte symbolic) through a 64-byte read buffer: first read of any 1..64 bytes, one later read of 1 / 2 / 3 / 64 bytes at any of three positions, all others full", flags=["-witness", "100"], reach=["end"]),
            dict(pkg="server", name="C14_inline_decode", bound="all LOCK/UNLOCK frames (every field value; no value frame) through the hand-inlined decoder in BinaryServerProtocol.ProcessParse against protocol.LockCommand.Decode, and the UNKNOWN_DB reply against LockResultCommand.Encode", flags=["-witness", "1"], reach=["end"]),
            dict(pkg="server", name="C14_inline_encode", bound="all command field values, result codes, counts, with and without an 8-byte value frame, through the hand-inlined encoder in BinaryServerProtocol.ProcessLockResultCommand against NewLockResultCommand(...).Encode and back through LockResultCommand.Decode", flags=["-witness", "1"], reach=["end"]),
            dict(pkg="protocol", name="C14_idnorm", bound="key/id strings of every length 0..64, all byte values, through ConvertArgId2LockId and ConvertString2LockKey against the documented rule", flags=["-witness", "1"], reach=["end"]),
            dict(pkg="protocol", name="C14_textlock", bound="text LOCK/UNLOCK with key of 1..16 bytes and the options LOCK_ID (16 bytes), FLAG (3 digits), TIMEOUT, EXPRIED (10 digits each), COUNT (5 digits), RCOUNT (3 digits): all present, none, or each alone; all digit values", flags=["-witness", "4", "-solver", "cvc5-int"], reach=["end"]),
            dict(pkg="protocol", name="C14_resulttext", bound="the 13 defined result codes, all lock ids, LCOUNT/LRCOUNT or COUNT/RCOUNT symbolic (the other pair fixed), rendered by WriteTextLockAndUnLockCommandResult and parsed back by TextParser.ParseResponse", flags=["-witness", "10"], reach=["end", "rendered"]),
        ],
    ),
}

CHECKS["C01"] = dict(
    explanation="bounded symbolic execution of LockDB.Lock/UnLock and everything they reach, on a real small database",
    assumptions=[],
    harnesses=[
        dict(pkg="server", name="C01_hist2", bound="2 operations from the empty database, core profile", flags=["-witness", "200"], reach=["end", "grant", "grant-shared"]),
        dict(pkg="server", name="C01_step", bound="one operation from any state with <=3 holders (symbolic Count/Rcount/priority/depth) and <=2 queued requests", flags=["-witness", "500"], reach=["end", "grant", "grant-shared"]),
        dict(pkg="server", name="C01_big", bound="one LOCK by a new LockId on a key with any number n < 2^31 of outstanding holds", flags=["-witness", "1"], reach=["end", "grant"]),
    ],
)

CHECKS["C20"] = dict(
    explanation="bounded symbolic execution of the real segmented-deque and ring-queue code against a Go-slice model; the executor forks over every opcode at every step",
    assumptions=["Shrink() has no caller in the repository (dead code) and is not driven", "Rellac() is invoked on drained queues only, as every caller does"],
    harnesses=[
        dict(pkg="server", name="C20_lockqueue", bound="all programs of 6 operations over 8 opcodes; constructor parameters base 1..2, nodes 1..3, size 1..2", flags=["-witness", "100000"], reach=["end"]),
        dict(pkg="server", name="C20_deques", bound="LockQueue, LockCommandQueue and LockManagerQueue behind one adaptor: all programs of 5 operations over 10 opcodes (Push, Pop, PopRight, PushLeft, Head+Tail, Resize, Restructuring, Reset, Rellac on a drained queue, iteration); constructor parameters (1,3,2) and (2,2,1)", flags=["-witness", "50000"], reach=["end"]),
        dict(pkg="server", name="C20_ring", bound="LockManagerRingQueue and LockManagerPriorityRingQueue (capacity 1..2): all programs of 5 operations (Push with priority 0..2, Pop, Head+MaxPriority+iteration) against a FIFO / stable priority queue", flags=["-witness", "20000"], reach=["end"]),
        dict(pkg="server", name="C20_waitqueue", bound="LockManagerWaitQueue pre-filled with 0 / 7 / 8 / 9 / 150 / 300 waiters (inline slice, its compaction and growth, overflow ring), 0 / 1 / 5 / all popped (0 / 5 for the two long fills), none / the first / the middle queued entry already answered (timeouted: the implementation may drop it at any time; the comparison is over live entries), then every program of 4 operations from {push priority 0, push priority 1, pop, observe head+length+iteration, switch to priority mode (RePushPriorityRingQueue), Reset} against a FIFO / stable priority queue", flags=["-witness", "500"], reach=["end"]),
        dict(pkg="server", name="C20_holdqueue", bound="LockManagerLockQueue pre-filled with 0 / 5 / 6 / 7 / 140 / 300 holders (inline slice, compaction, scale queue + id map), 0 / all but one / all of a short fill or 0 / 1 / 130 / 280 of a long fill popped first, then every program of 4 operations from {push, pop first live, release an entry in place (first / middle / last), iterate live entries, GetLock of a live entry}", flags=["-witness", "1000"], reach=["end"]),
        dict(pkg="server", name="C20_lockqueue7", bound="as C20_lockqueue with 7 operations", flags=["-witness", "1000000"], reach=["end"], thorough_only=True),
        dict(pkg="server", name="C20_deques6", bound="as C20_deques with 6 operations and constructor parameters (1,1,1), (1,3,2), (2,2,1), (2,3,2)", flags=["-witness", "1000000"], reach=["end"], thorough_only=True),
        dict(pkg="server", name="C20_ring7", bound="as C20_ring with 7 operations", flags=["-witness", "1000000"], reach=["end"], thorough_only=True),
    ],
)

_STEP_BOUND = "one operation (LOCK / UNLOCK with symbolic terms, or a clock tick of 4..6 s through the real sweeps) from any state with <=3 holders (symbolic Count/Rcount/priority/depth 1..255) and <=2 queued requests (symbolic Count/priority)"

CHECKS["C02"] = dict(
    explanation="bounded symbolic execution of LockDB.Lock/UnLock on a real small database; ownership and depth oracle on snapshots",
    assumptions=[],
    harnesses=[dict(pkg="server", name="C02_step", bound=_STEP_BOUND + "; lock flags show/update excluded", flags=["-witness", "500"],
                    reach=["end", "unlock-owner", "unlock-one-level", "unlock-first", "cancel-wait", "unlock-refused", "relock", "relock-deeper", "relock-refused", "tombstone"])],
)
CHECKS["C03"] = dict(
    explanation="bounded symbolic execution; reply accounting on the real MemWaiter protocols' result callbacks",
    assumptions=[],
    harnesses=[dict(pkg="server", name="C03_step", bound=_STEP_BOUND, flags=["-witness", "500"], reach=["end", "queued", "waiter-ended", "expired"]),
               dict(pkg="server", name="C03_relock", bound="hold by connection A (symbolic Count/Rcount), re-entrant re-lock / update / no-op update / keep-the-timing update / keep-the-timing re-lock (unlimited flag + Expried 0xffff) of the same LockId by connection B (symbolic Rcount), then 12 s through the real sweeps; the hold never references a command object the server handed back to a pool", flags=["-witness", "5"], reach=["end", "terms-replaced", "relocked"]),
               dict(pkg="server", name="C05_ms", bound="a queued request with the millisecond flag and T in {1, 500, 2999, 3000, 3300, 7000, 59999} ms; the holder leaves before the slot sweep or never; the recorded sweeper goroutine (checkMillisecondTimeOut) run at its slot time, then T/1000+2 seconds through the real per-second sweeps", flags=[], reach=["end", "granted"], native=False)],
)
CHECKS["C04"] = dict(
    explanation="bounded symbolic execution; quiescence and service-order oracle",
    assumptions=[],
    harnesses=[dict(pkg="server", name="C04_step", bound=_STEP_BOUND, flags=["-witness", "500"], reach=["end", "woken", "head-blocked", "bypass-considered"]),
               dict(pkg="server", name="C04_bigqueue", bound="exclusive holder + N in {3,140,150,260} queued requests of one priority (crosses the inline->ring migration at 144) + optionally one request of another priority (switch to the priority ring); holds released one by one", flags=["-witness", "1"], reach=["end"])],
)
CHECKS["C17"] = dict(
    explanation="bounded symbolic execution; census of holders/waiters/keys against STATE counters and reply counts",
    assumptions=[],
    harnesses=[dict(pkg="server", name="C17_step", bound=_STEP_BOUND, flags=["-witness", "500"], reach=["end", "key-gone", "lcount-checked"])],
)

CHECKS["C13"] = dict(
    explanation="bounded symbolic execution with every implicit Go run-time check (index, slice bounds, nil dereference, makeslice, division) turned into a fork; any feasible panic is replayed natively",
    assumptions=["frames are delivered whole (Stream.ReadBytesFrame contract: 4 length bytes equal to the number of following bytes)"],
    harnesses=[
        dict(pkg="server", name="C13_frame", bound="value frames of 0..8 bytes, arbitrary content", flags=["-witness", "10"], reach=["end"]),
        dict(pkg="server", name="C13_lockdata", bound="key value = none or any stored frame of 2..4 bytes; operation frame of 2..6 bytes with each of the 8 non-POP operation types or an arbitrary type byte; carried on LOCK or on UNLOCK of the holder", flags=["-witness", "2000"], reach=["end", "first-frame-done"], allow=["unsupported"]),
        dict(pkg="server", name="C13_lockdata_pop", bound="as C13_lockdata with the POP operation", flags=["-witness", "200"], reach=["end", "first-frame-done"], allow=["unsupported"]),
        dict(pkg="protocol", name="C13_textchunks", bound="text request of 1..2 arguments of 0..3 symbolic bytes in every 3-read chunking (TextParser.ParseRequest as TextServerProtocol.Process drives it)", flags=["-witness", "200"], reach=["end"]),
        dict(pkg="protocol", name="C13_textbytes", bound="arbitrary byte streams of 1..7 bytes (malformed input) in every 3-read chunking", flags=["-witness", "2000"], reach=["end"]),
        dict(pkg="server", name="C13_textcmd", bound="one text command out of the 27 registered key-value/keyspace/session commands (and an unknown one) with 0..3 arguments, each argument one of: the key, a value, 2 symbolic ASCII bytes (so every two-character option word, number or garbage), EX, NX, MATCH; real TextServerProtocol handler + converter + LockDB on a fresh server", flags=["-witness", "2000"], reach=["end"], allow=["blocked"]),
        dict(pkg="server", name="C13_textcmd2", bound="a first command creating a string / number / plain hold (5 shapes), then any command as in C13_textcmd with 0..2 arguments on the same or a second connection", flags=["-witness", "2000"], reach=["end", "first-done"], allow=["blocked"]),
        dict(pkg="server", name="C13_textlock", bound="LOCK / UNLOCK / PUSH with key and 0..4 further arguments: option word from all 15 recognised (and an unknown one) alternating with a value out of 0, 1..2 symbolic ASCII bytes, UNLOCK, v", flags=["-witness", "2000"], reach=["end"], allow=["blocked"]),
        dict(pkg="server", name="C13_textseq", bound="every program of 3 well-formed commands out of 17 forms (SET/GET hit/GET miss/LOCK/LOCK with value/UNLOCK/LOCK Timeout 0/DEL/INCR/APPEND/EXISTS/PUSH/TTL/SELECT 1/SELECT 255/KEYS *) on one text connection, then a command on a second connection", flags=["-witness", "200"], reach=["end"], allow=["blocked"]),
        dict(pkg="server", name="C13_textseq4", bound="as C13_textseq with 4 commands", flags=["-witness", "2000"], reach=["end"], allow=["blocked"], thorough_only=True),
        dict(pkg="server", name="C13_textcmd4", bound="as C13_textcmd with 0..4 arguments and the full alphabet (also 1 symbolic byte, PX, COUNT)", flags=["-witness", "20000"], reach=["end"], allow=["blocked"], thorough_only=True),
        dict(pkg="server", name="C13_textcmd2x", bound="as C13_textcmd2 with 0..3 arguments and the full alphabet", flags=["-witness", "20000"], reach=["end", "first-done"], allow=["blocked"], thorough_only=True),
        dict(pkg="server", name="C13_binframe_other", bound="any 64-byte frame whose type is not LOCK/UNLOCK (INIT, STATE, ADMIN + 8 bytes of text input, PING, QUIT, CALL with content-length classes, WILL_LOCK/WILL_UNLOCK, LEADER, SUBSCRIBE, unknown types, wrong magic/version), followed by 8 arbitrary bytes and end of input; time values and database ids in classes", flags=["-witness", "500"], reach=["end"]),
        dict(pkg="server", name="C13_binframe", bound="as C13_binframe_other with LOCK and UNLOCK frames too: every flag bit symbolic, on a fresh server", flags=["-witness", "20000"], reach=["end"], thorough_only=True),
        dict(pkg="protocol", name="C13_textbytes9", bound="as C13_textbytes with 1..9 bytes", flags=["-witness", "20000"], reach=["end"], thorough_only=True),
        dict(pkg="server", name="C13_lockdata8", bound="as C13_lockdata with frames of 2..8 bytes", flags=["-witness", "20000"], reach=["end"], allow=["unsupported"], thorough_only=True),
    ],
)

CHECKS["C10"] = dict(
    explanation="bounded symbolic execution of LockDB.Lock/UnLock/doExpried on a database whose role is any non-leader state",
    assumptions=[],
    harnesses=[
        dict(pkg="server", name="C10_refuse", bound="state with <=2 holders and <=1 queued request built as leader, then role in {init, follower, sync, config, vote}; one LOCK/UNLOCK with symbolic terms (core profile) without the from-aof flag", flags=["-witness", "50"], reach=["end"]),
        dict(pkg="server", name="C10_defer", bound="1..3 replicated holds (E=3 s; one on an exclusive key or 2..3 sharing a key) on a node in each non-leader state {init, follower, sync, config, vote}, clock advanced 10 / 200 / 303 s through the real sweeps", flags=["-witness", "1"], reach=["end", "kept"]),
        dict(pkg="server", name="C10_apply", bound="1..3 from-aof LOCKs (symbolic Count/Rcount/minute/unlimited flags) and an optional from-aof UNLOCK applied on a leader and on a follower", flags=["-witness", "2"], reach=["end"]),
    ],
)

CHECKS["C05"] = dict(
    explanation="bounded symbolic execution; the server clock (LockDB.currentTime) is driven by the harness and every elapsed second runs the real sweep bodies checkTimeTimeOut / checkTimeExpried",
    assumptions=["server time = LockDB.currentTime; a request arriving during second s sees currentTime == s; sweeper goroutine latency is outside"],
    harnesses=[
        dict(pkg="server", name="C05_deadline", bound="every 16-bit T, seconds and minute flag (symbolic); T = 0 immediate TIMEOUT", flags=["-witness", "1"], reach=["end", "zero"]),
        dict(pkg="server", name="C05_sim", bound="T in 1..12 s (crosses the 8 re-checks that move an entry to the long-wait table), a second waiter with T2 in 1..3, ticks 1..T+3; variants: undisturbed / holder unlocks at any tick before the deadline / holder unlocks after the timeout", flags=["-witness", "20"], reach=["end", "granted-before-timeout", "not-granted-after-timeout"]),
        dict(pkg="server", name="C05_long", bound="three successive waits of T=100 s that reach the long-wait table (~44 s); the first two cancelled at a forked tick after migrating, bucket queues recycled; tick by tick through the real sweeps (~300 ticks)", flags=["-witness", "1"], reach=["end"]),
        dict(pkg="server", name="C05_ms", bound="a queued request with the millisecond flag and T in {1, 500, 2999, 3000, 3300, 7000, 59999} ms; the holder leaves before the slot sweep or never; the recorded sweeper goroutine (checkMillisecondTimeOut) run at its slot time, then T/1000+2 seconds through the real per-second sweeps", flags=[], reach=["end", "granted", "ms-timeout", "s-timeout"], native=False),
    ],
)
CHECKS["C06"] = dict(
    explanation="as C05, for holds: AddLock / UpdateLockedLock deadline formulas symbolically, expiry simulation through the real sweeps",
    assumptions=["server time = LockDB.currentTime"],
    harnesses=[
        dict(pkg="server", name="C06_deadline", bound="every 16-bit E != 0, seconds / minute / unlimited flags (symbolic)", flags=["-witness", "1"], reach=["end", "unlimited"]),
        dict(pkg="server", name="C06_sim", bound="E in 1..12 s, ticks 1..E+15; variants: undisturbed / re-entrant re-lock at any tick before the deadline restarts the period / unlimited flag; a queued request must be served at the expiry tick", flags=["-witness", "10"], reach=["end", "relocked"]),
        dict(pkg="server", name="C06_update", bound="every E1, E2 != 0 with seconds/minute flags, update issued 0 or 1 s after the grant: deadline restarted from now or ignored, ignored only within one unit", flags=["-witness", "1", "-timeout", "5000"], reach=["end", "restarted", "ignored"]),
        dict(pkg="server", name="C06_long", bound="hold placed in the long-expiry table at once (zero-aof-time flag, E in 6..8), updated at tick 1..3 to E2 in {20, 30, 4}; 45 ticks", flags=["-witness", "3"], reach=["end", "updated"]),
        dict(pkg="server", name="C06_ms", bound="a hold with the millisecond flag and E in {1, 500, 2999, 3000, 3300, 7000, 59999} ms and one waiter; released before the slot sweep or not; checkMillisecondExpried run at its slot time, then E/1000+2 seconds of real sweeps", flags=[], reach=["end", "ms-expired", "s-expired"], native=False),
    ],
)

CHECKS["C08"] = dict(
    explanation="bounded symbolic execution of the real loader (AofFile.Open/ReadHeader/ReadLock, AofLock.Decode, LoadAofFiles, stdlib bufio.Reader) over an in-memory file model; record bytes symbolic, cut offset forked over every byte",
    assumptions=["os.File.Read returns min(len(buf), remaining) bytes (full reads); os.File.Write appends whole buffers"],
    harnesses=[
        dict(pkg="server", name="C08_cut", bound="header + 1..3 records of 64 symbolic bytes (no attached values), cut at every byte offset 0..len", flags=["-witness", "20"], reach=["end"]),
        dict(pkg="server", name="C08_append", bound="header + 2 records cut at every offset, then reopen for append, write one symbolic record, flush, reload", flags=["-witness", "100"], reach=["end"]),
        dict(pkg="server", name="C08_valcut", bound="complete record file of 1..3 symbolic records, each with or without a value frame of 0..3 symbolic bytes; the value file cut at every byte offset", flags=["-witness", "20"], reach=["end"]),
    ],
)

CHECKS["C07"] = dict(
    explanation="bounded symbolic execution of the whole persist-and-reload chain (LockDB.Lock -> AddExpried -> AofChannel.Push/Handle -> Aof.PushLock -> AofFile.WriteLock/Flush; LoadAofFiles -> LoadLock -> HandleLoad -> LockDB.Lock(FROM_AOF)) over the file model, with symbolic expiry",
    assumptions=["file model: full reads / whole-buffer writes", "server time set explicitly on both instances"],
    harnesses=[
        dict(pkg="server", name="C07_restart", bound="one key, one hold: every 16-bit E != 0, seconds/minute/unlimited, aof timing default / persist-immediately / never, symbolic Count and Rcount, depth 1..2, age 0..2 s before the stop, outage 0/1/2/61/4000 s", flags=["-witness", "20", "-timeout", "3000"],
             reach=["end", "restored", "not-restored", "not-persisted"]),
        dict(pkg="server", name="C07_history", bound="every prefix (1..6 operations) of lock / re-lock / lock other key or re-lock / unlock one level / unlock one level or all / unlock all on persisted re-entrant holds, then restart", flags=["-witness", "1"], reach=["end"]),
        dict(pkg="server", name="C07_values", bound="a persisted hold whose LOCK carries a value operation (any operation on an empty key), optionally a second operation by the same holder (update flag) or by a second holder; restart on the same directory: holders and value compared with a sequential interpreter", flags=["-witness", "5"], reach=["end", "second-op"]),
    ],
)

CHECKS["C16"] = dict(
    explanation="bounded symbolic execution of the real compaction (rewriteAofFiles: findRewriteAofFiles, loadRewriteAofFiles with the LockDB.HasLock filter, clearRewriteAofFiles) over the file model, which keeps a directory image after every mutation; every image is recovered by a fresh instance with the real FindAofFiles/LoadAofFiles",
    assumptions=["file model: every create / write / remove / rename / truncate is atomic and durable in program order"],
    harnesses=[
        dict(pkg="server", name="C16_whole", bound="history: 2 holds on 2 keys, one released, a re-entrant hold entered 3 times and left once (live at depth 2), rotation, optionally a further hold in the new append file; uninterrupted compaction", flags=["-witness", "1"], reach=["end"]),
        dict(pkg="server", name="C16_update", bound="(hold with or without the rcount-is-priority timeout flag) a persisted hold (E=100 s or min) whose holder changes its terms one second later (update flag: E=200/300, optionally Count 3), then 0 / 1 / 3 / 70 s pass before rotation and uninterrupted compaction; holds recovered with deadlines, Count, Rcount compared", flags=["-witness", "1"], reach=["end"]),
        dict(pkg="server", name="C16_crash", bound="(the surviving hold with or without a value) same history; crash after each individual file-system mutation of the compaction (fork over all of them)", flags=[], reach=["end", "window"], native=False),
        dict(pkg="server", name="C16_renamefail", bound="same history; the directory image of the remove-before-rename window produced without a crash (native twin of the recorded finding)", flags=["-witness", "1"], reach=[]),
    ],
)

CHECKS["C11"] = dict(
    explanation="bounded symbolic execution of the ack branch of LockDB.Lock, AofChannel.Handle*, Aof.PushLock/lockAcked/loadLockAck, AofFile.WriteLock/Flush (file model), ReplicationManager.PushLock, ReplicationAckDB.ProcessLeader*, LockDB.DoAckLock/doTimeOut; event sequences chosen by forks",
    assumptions=["followers are simulated by the acknowledgement frames they would send (Aof.loadLockAck); the follower connection itself is outside"],
    harnesses=[
        dict(pkg="server", name="C11_ack", bound="one ack-required LOCK (plus one queued ordinary request), 0..2 followers, ack mode all / majority, every sequence of <=4 events from {leader flush, follower ack ok, follower ack negative, UNLOCK same LockId, LOCK same LockId, ack wait times out}", flags=["-witness", "50"],
             reach=["end", "succed", "nack", "ack-timeout", "unlock-waiting", "lock-waiting", "rolled-back"]),
        dict(pkg="server", name="C11_value", bound="an ack-required LOCK carrying a value operation (any operation compatible with the current value: none or the result of a first symbolic operation), granted at once or from the wait queue, one follower in mode all; outcome success / negative acknowledgement / ack wait timeout; one queued request behind it", flags=["-witness", "10"], reach=["end", "succed", "nack", "ack-timeout", "granted-from-queue"]),
    ],
)

CHECKS["C09"] = dict(
    explanation="bounded symbolic execution of the real ReplicationBufferQueue (Push / ResetQueueItems / InitFreeQueueItems / Search / Pop / AddPoll) under every program of pushes and pops of the stated length",
    assumptions=["single consumer, single-threaded; the consumer marks a record as sent (pollIndex++) right after a successful Pop, as ReplicationServer.SendProcess does"],
    harnesses=[
        dict(pkg="server", name="C09_ring", bound="ring of 2 records that may grow to 4 or not; 1..2 initial records, resume position any of them (Search), consumer registered (AddPoll) or not; every program of 6 operations from {Push with/without value, Pop}", flags=["-witness", "500"], reach=["end", "popped", "drained", "out-of-buf"]),
    ],
)

CHECKS["C12"] = dict(
    explanation="bounded symbolic execution of the real acceptor rules (ArbiterMember.DoSelfProposal / DoSelfCommit, ArbiterManager.CompareAofId / GetCurrentAofID) on a 3-member manager with symbolic 64-bit proposal numbers and symbolic 16-byte log positions",
    assumptions=["messages are deliveries of (number, host, log position) to one acceptor; loss and duplication are choices of the delivery sequence"],
    harnesses=[
        dict(pkg="server", name="C12_acceptor", bound="arbitrary voter state (proposalId, commitId, pending commit or not), symbolic log positions of all 3 members, leader online or not, proposed member offline or not; one proposal or commit with symbolic number, host in {A,B,C,unknown}, symbolic log position", flags=["-witness", "10", "-timeout", "5000"], reach=["end", "proposal-accepted", "commit-accepted"]),
        dict(pkg="server", name="C12_single", bound="two candidacies with different symbolic numbers, every sequence of 5 deliveries from {proposal 1, commit 1, proposal 2, commit 2}, from any initial accepted/committed numbers", flags=["-witness", "500", "-timeout", "5000"], reach=["end", "one-commit"]),
        dict(pkg="server", name="C12_restart", bound="candidacy 1 proposal+commit accepted, restart from saved metadata, candidacy 2 proposal+commit", flags=["-witness", "1"], reach=[]),
        dict(pkg="server", name="C12_compare", bound="all pairs of 16-byte log positions", flags=["-witness", "1", "-timeout", "5000"], reach=["end"]),
        dict(pkg="server", name="C12_remote", bound="as C12_acceptor through the remote handlers commandHandleProposalCommand / commandHandleCommitCommand (protobuf through the executor's Marshal/Unmarshal stub, real protobuf natively)", flags=["-witness", "5", "-timeout", "5000"], reach=["end", "proposal-accepted", "commit-accepted"]),
        dict(pkg="server", name="C12_remote_single", bound="as C12_single through the remote handlers, every sequence of 4 deliveries", flags=["-witness", "200", "-timeout", "5000"], reach=["end"]),
        dict(pkg="server", name="C12_vote", bound="ArbiterVoter.DoVote over 3 members (the candidate a data node): per member weight 0..2, arbiter flag, a log position with symbolic low position byte and low time byte, remote answers lost or not; ArbiterClient.Request answered in process (executor redirect), DoRequests' goroutines run inline", flags=[], reach=["end", "vote-failed"], native=False),
    ],
)

CHECKS["C18"] = dict(
    explanation="bounded symbolic execution of the real BinaryServerProtocol (ProcessCommad will registration, Close) on a harness-defined net.Conn, LockDB.Lock/UnLock, the timeout sweep, and ProxyServerProtocol.ProcessLockResultCommandLocked with symbolic client ids",
    assumptions=["the connection is a harness-defined net.Conn; what makes Process() return is outside"],
    harnesses=[
        dict(pkg="server", name="C18_wills", bound="0..3 registered wills, each a LOCK of one shared exclusive key (so order is observable) or an UNLOCK of the connection's hold; one hold and one queued request left behind; Close twice; clock advanced past the queued request's timeout", flags=["-witness", "1"], reach=["end", "closed", "inited"]),
        dict(pkg="server", name="C18_route", bound="a closed client's proxy with a symbolic 16-byte client id, two connected clients with symbolic client ids", flags=["-witness", "1"], reach=["end", "dropped", "rerouted"]),
        dict(pkg="server", name="C18_reconnect", bound="client announces its id (INIT) and leaves a queued request; reconnect under the same id before or after the old connection closes; the later grant must reach the reconnected connection", flags=["-witness", "1"], reach=["end"]),
        dict(pkg="server", name="C18_textwills", bound="a text connection (real TextServerProtocol over an in-memory net.Conn) that takes a hold and registers 0..6 wills in text form (LOCK / UNLOCK ... WILL 1), then Close twice; Close must return (a path on which it blocks is a violation)", flags=["-witness", "1"], reach=["end", "closed"], blocked="violation"),
    ],
)

CHECKS["C19"] = dict(
    explanation="bounded symbolic execution of the real client primitives' command construction (client.Lock/RLock/RWLock/Semaphore/MaxConcurrentFlow) composed with the real server admission (LockDB.Lock/UnLock) through a harness IClient",
    assumptions=["transport replaced by an in-process IClient (no TCP, no RequestId matching under goroutines); sequential use with timeout 0"],
    harnesses=[
        dict(pkg="server", name="C19_primitives", bound="Lock (2 objects), RLock (depth 1..3, 2 objects), Semaphore(n) and MaxConcurrentFlow(n) with symbolic n in 1..4 and 6 acquires + 1 release, RWLock (writer/readers in both orders)", flags=["-witness", "1"], reach=["end"]),
        dict(pkg="server", name="C19_event", bound="two client.Event objects on one key in default-set and default-clear mode: every program of 4 operations from {Set, Clear, IsSet, Wait(0), Wait(5), Wait(2), 3 s pass} by either object, against a boolean; waits that have to wait are tracked on the server and must be released by the next Set and not before — in particular not when another wait on the event gives up (its 2 s timeout passes: TIMEOUT for it, nothing for the others)", flags=["-witness", "2000"], reach=["end", "short-wait-timed-out"]),
        dict(pkg="server", name="C19_priority", bound="a PriorityLock holder and 2..3 PriorityLock waiters with symbolic priorities 0..3: each release hands the key to the highest waiting priority, first come among equals", flags=["-witness", "1"], reach=["end"]),
    ],
)

CHECKS["C15"] = dict(
    explanation="differential bounded symbolic execution: the real value-operation code (LockManager.ProcessLockData inside LockDB.Lock/UnLock, protocol constructors and result accessors) against a sequential reference interpreter over abstract values; payload bytes and increments symbolic",
    assumptions=["well-formed frames built by the client-side constructors (hostile frames are C13's subject)", "operations follow the value's kind; behaviour on kind mismatch is unspecified and not asserted"],
    harnesses=[
        dict(pkg="server", name="C15_ops", bound="every sequence of 3 operations from SET / UNSET / INCR (symbolic 64-bit) / APPEND / SHIFT (within the value) / PUSH / POP (1..2) with payloads of 1..3 symbolic bytes, carried by LOCK requests of 3 LockIds", flags=["-witness", "20"], reach=["end"]),
        dict(pkg="server", name="C15_props", bound="as C15_ops, each SET / INCR / APPEND / PUSH frame with or without a property block (key property of 1..2 symbolic bytes), decided per operation", flags=["-witness", "200"], reach=["end"]),
        dict(pkg="server", name="C15_refused", bound="a held key with a 1..3-byte value; a refused LOCK (immediate TIMEOUT) or UNLOCK (UNOWN_ERROR) carrying a SET", flags=["-witness", "1"], reach=["end"]),
        dict(pkg="server", name="C15_unlock", bound="SET/APPEND (1..2 symbolic bytes) carried by a plain unlock, a re-entrant re-lock, an unlock of one level and an unlock of all levels of a depth-2 hold", flags=["-witness", "5"], reach=["end"]),
    ],
)


# ---------------------------------------------------------------------------
# deeper variants, thorough tier only (each run clean on the unchanged tree before being listed)
def _thorough(prop, name, bound, flags=None, reach=("end",), **kw):
    CHECKS[prop]["harnesses"].append(dict(pkg="server", name=name, bound=bound, flags=list(flags or []), reach=list(reach), thorough_only=True, **kw))


_thorough("C01", "C01_hist3", "3 operations from the empty database, core profile", ["-witness", "2000"], reach=["end", "grant"])
for _p, _extra in (("C02", "; lock flags show/update excluded"), ("C03", ""), ("C04", ""), ("C17", "")):
    _thorough(_p, _p + "_step_big", "as %s_step with up to 4 holders and up to 3 queued requests%s" % (_p, _extra), ["-witness", "5000"])
    _thorough(_p, _p + "_step_flags", "as %s_step, the step's LOCK also with symbolic minute flags and the 0xffff time class%s" % (_p, _extra), ["-witness", "1000"])
_thorough("C05", "C05_sim64", "as C05_sim with T in 1..64 s (every re-check round of the second wheel and the long-wait table)", ["-witness", "50"])
_thorough("C06", "C06_sim64", "as C06_sim with E in 1..64 s", ["-witness", "50"])
_thorough("C08", "C08_cut5", "as C08_cut with 1..5 records", ["-witness", "20"])
_thorough("C09", "C09_ring8", "as C09_ring with every program of 8 operations", ["-witness", "50000"], reach=["end", "popped", "drained", "out-of-buf"])
_thorough("C11", "C11_ack5", "as C11_ack with every sequence of <=5 events", ["-witness", "200"])
_thorough("C12", "C12_single7", "as C12_single with any order of at most 7 deliveries", ["-witness", "5000"])
_thorough("C15", "C15_ops4", "as C15_ops with every sequence of 4 operations", ["-witness", "100"])


def _quick(prop, name, bound, flags=None, reach=("end",), **kw):
    CHECKS[prop]["harnesses"].append(dict(pkg="server", name=name, bound=bound, flags=list(flags or []), reach=list(reach), **kw))


_quick("C05", "C05_longpair", "2..3 queued requests with T=60 s in ONE bucket of the long-wait table; at tick 45 / 50 / 59 one of them (first / middle / last) is granted or cancelled; tick by tick to T+3", ["-witness", "3"])
_quick("C06", "C06_longpair", "2..3 holds with E=60 s (one key shared, or one key each) in ONE bucket of the long-expiry table; at tick 45 / 50 / 59 one of them is released; tick by tick to E+3", ["-witness", "3"])
_quick("C18", "C18_reinit", "connection A (client id X) leaves a queued request and closes; connection C announces one or two ids out of {X, Y} in any order; the later grant is delivered to C exactly if its current id is X; client table empty after C closes", ["-witness", "1"], reach=["end", "rerouted", "dropped"])
_quick("C13", "C13_bufresult", "buffered reply path of the binary protocol, one inductive step: writer buffer (4096 bytes) filled to within 0..320 bytes of its limit (or 0 / 64 / 164), one more result with a value frame of 0 / 8 / 63 / 64 / 100 / 3967 / 3968 / 4096 bytes", ["-witness", "200"])

for _p, _extra in (("C02", "; lock flags show/update excluded"), ("C03", ""), ("C04", ""), ("C17", "")):
    _quick(_p, _p + "_step_aof", "as %s_step with <=2 holders and <=1 queued request, the holders persisted holds or not, the step's LOCK with symbolic persistence-timing flags (records are queued on the persistence channel)%s" % (_p, _extra), ["-witness", "200"])

_quick("C13", "C13_binseq", "every program of 3 well-formed binary frames out of 12 forms (INIT, LOCK / UNLOCK on two keys, LOCK with a value frame, LOCK that waits, WILL_LOCK, WILL_UNLOCK, PING, STATE, CALL LIST_LOCK, INIT under another id) on one connection, then Close and a PING on a second connection", ["-witness", "100"], reach=["end", "closed"])
_thorough("C13", "C13_binseq4", "as C13_binseq with 4 frames", ["-witness", "1000"], reach=["end", "closed"])

_quick("C15", "C15_textkv", "every program of 3 Redis-style text commands out of 16 forms over a string key and a counter key (SET of two symbolic bytes, SET empty, GET, DEL, SETNX, GETSET, APPEND, EXISTS, STRLEN, INCR, DECRBY, GET/DEL/EXISTS of the counter, EXPIRE, PERSIST) on a real TextServerProtocol with waiting disabled, each reply compared with a map-based store", ["-witness", "50"])
_thorough("C15", "C15_textkv4", "as C15_textkv with 4 commands", ["-witness", "500"])

_quick("C03", "C03_cancel", "a holder and three queued requests, each with T=1 or T=100 (forks); 3 s later (the short ones answered TIMEOUT, possibly still in the queue behind a live one) a third client cancels one of the three by LockId", ["-witness", "1"], reach=["end", "cancel-dead", "cancel-live"])
_quick("C16", "C16_second", "a second compaction: rewrite.aof from the first one records a re-entrant hold (depth 2) and a plain hold; the re-entrant hold then gives back a level / takes one more / has its terms updated / is released; rotation; second compaction; recovered holds with depth, deadline, Count, Rcount compared", ["-witness", "1"])
_quick("C17", "C17_recycle", "5..8 keys with values on a fast key table of 4 slots (some parked in the long-expiry table), all released in ascending or descending order, wheel swept, then 24 fresh keys one after the other: no value shown, no free manager carrying a value, counters back", ["-witness", "1"])

_quick("C09", "C09_publish", "every program of 4 persisted operations (LOCK / LOCK with a value / one-level UNLOCK on two keys) through LockDB, AofChannel, Aof.PushLock with rotation after two records: the records read back from the log files and the records a cursor pops from the replication ring are the same sequence with the same values", ["-witness", "20"], reach=["end", "rotated"])

_quick("C09", "C09_converge", "every leader program of 4 persisted operations (LOCK / LOCK with a value / one-level UNLOCK / full UNLOCK on two keys); a follower-state instance applies the records popped from the ring (Aof.LoadLock); keys, LockIds, depths and values compared with the leader", ["-witness", "50"], reach=["end", "held", "valued"])

_quick("C15", "C15_pipeline", "optionally one prior value operation, then one LOCK carrying a PIPELINE of 2 value operations (SET / UNSET / INCR / APPEND / SHIFT / PUSH / POP matching the running kind, payloads 1..3 symbolic bytes) assembled with the real constructor: reply shows the value before the pipeline, stored value is the sequential result", ["-witness", "50"])
_thorough("C15", "C15_pipeline3", "as C15_pipeline with 3 operations in the pipeline", ["-witness", "200"])

_quick("C05", "C05_msfrac", "a queued request with the millisecond flag, T in {2999, 3000, 3300, 3999, 6001, 7900} ms, arriving 0 / 150 / 850 / 999 ms after the server's second; slot sweeper run at its wake time, then the real per-second sweeps: exactly one TIMEOUT, not before T ms after the arrival and within T + 2 s (symbolic executor only: the sweeper is a sleeping goroutine natively)", ["-witness", "0"], native=False)
_quick("C06", "C06_msfrac", "a hold with the millisecond flag, E in {2999, 3000, 3300, 3999, 6001, 7900} ms, granted 0 / 150 / 850 / 999 ms after the server's second: exactly one EXPRIED, not before E ms after the grant and within E + 2 s (symbolic executor only)", ["-witness", "0"], native=False)
_quick("C06", "C06_msrelock", "a hold with a millisecond expiry E in {500, 1500, 2999} ms and Rcount 3, re-locked re-entrantly with the same terms at E/2 or E-1 ms; the sweeper of the original slot runs at E ms, later sweepers and per-second sweeps follow: exactly one EXPRIED in [re-lock + E, re-lock + E + 2 s] (symbolic executor only)", ["-witness", "0"], reach=["relocked"], native=False)

_quick("C12", "C12_logorder", "a leader persists 2..4 records through the real LockDB -> AofChannel -> Aof.PushLock path with a rotation threshold of 1..3 records per file; the log positions (AofLock.GetAofId) of the records as published on the replication ring, in log order: every later position compares newer than every earlier one under ArbiterManager.CompareAofId, in both argument orders", ["-witness", "2"], reach=["end", "rotated"])

_quick("C16", "C16_values", "key held by A (Count 1) with value v1; then nothing / a zero-expiry LOCK by another LockId sets v2 / B locks setting v2 and stays / B locks setting v2 and unlocks / B's unlock sets v3; rotation; real compaction; holders and value recovered by a fresh instance before and after the compaction compared", ["-witness", "1"])

_quick("C16", "C16_stale", "the first compaction dies right after any one of its file-system mutations; a new instance starts on that directory (real find + load), persists one more hold and its release (with values in play: a hold with a value that stays), rotates and compacts again; holds, depths and values recovered after that second compaction compared with those recovered from the crash image (with values: with the live state) (symbolic executor only: crash images exist only in the file model)", ["-witness", "0"], reach=["end", "stale-tmp"], native=False)
_quick("C16", "C16_staletmp", "as C16_stale for the one crash image that can be produced without a crash: rewrite.aof.tmp written completely by the real findRewriteAofFiles + loadRewriteAofFiles, inputs not yet removed", ["-witness", "2"], reach=["end", "stale-tmp"])

_quick("C07", "C07_shared", "two holders of a key of capacity 5, each with its own persistence timing (default / persist-immediately / never-persist), 0 or 2 s later the queue drains and the instance restarts at once: per holder, restored exactly if its own flags say it counts as persisted", ["-witness", "2"])

_quick("C18", "C18_anon", "a binary connection that never sent INIT leaves a queued request and closes; another connection announces ANY client id (16 symbolic bytes); the later grant must be dropped, not delivered to it; client table empty after close", ["-witness", "1"])

_quick("C18", "C18_reconnect2", "connection 1 (client id X) leaves two queued requests and closes; connection 2 announces X and receives the first grant; connection 2 closes or stays; connection 3 announces X or not; the second grant reaches the connection that now speaks for X (exactly one of two live ones), else is dropped", ["-witness", "4"], reach=["end", "third", "dropped"])

_quick("C10", "C10_demote", "a leader with a holder and a queued request (a client's, or one that came from the stream) is demoted to any non-leader state; the stream then releases the holder: the client's queued request is not granted by the demoted node, the stream's is applied", ["-witness", "2"], reach=["end", "client-waiter", "stream-waiter"])

_quick("C08", "C08_bufcut", "as C08_cut with 3 records and the log reader's buffer (Config.AofFileBufferSize) set to 100 bytes (rounded down to 64 by NewAofFile), so that every record straddles the end of the read buffer (with the default 4096 every 64th record does); cut at every byte", ["-witness", "5"])

_quick("C13", "C13_calllist", "CALL LIST_LOCK / LIST_LOCKED / LIST_WAIT through the real handlers with a protobuf request whose db_id is 0..3 or any 32-bit value from 200 up and whose lock_key has 0..16 bytes: a result, never a crash; SUCCED only for the database that exists", ["-witness", "20"])

_quick("C18", "C18_adminwills", "a binary connection switches to the text protocol with ADMIN, registers 0..1 wills in binary form before and 0..3 wills in text form after the switch (real TextServerProtocol.Process over a scripted stream) and the stream ends; after BinaryServerProtocol.Close each will has been executed exactly once, in order", ["-witness", "3"])

_quick("C07", "C07_percent", "a hold with the share-of-expiry persistence flag (0x1000, 30 %) and E in {20, 140, 200, 600, 852, 1000} s (delay 6 / 42 / 60 / 180 / 255 / 300 s: the last two do not fit the byte the server keeps it in), clock advanced second by second through the real sweeps to delay + 15 s: the hold has been persisted", ["-witness", "4"])

_quick("C12", "C12_remote_newer", "the remote REPL_PROPOSAL handler on an acceptor of weight 0..2, data-bearing or arbiter, whose current log position and the proposal's are each one of 4 positions (file index 1..2, offset 1 or 5; the acceptor's own member entry is stale; the position it last heard of another member is one of the 4 too, that member reachable or offline): accepted only if the acceptor is an arbiter or its current log is not newer, and no known member's log is newer", ["-witness", "8"], reach=["end", "accepted"])

_quick("C03", "C03_textexpire", "a text connection (real TextServerProtocol handlers) takes a hold with E = 3 s as its first lock-type command or after a LOCK / UNLOCK pair; the hold expires while the connection is silent; then LOCK on another key and UNLOCK: no notice queued for the connection, each command answered with its own result and LockId", ["-witness", "2"])

_quick("C17", "C17_relock_long", "a hold with Rcount 3 parked in the long-expiry table at once (persist-immediately flag with E = 100 s, or unlimited expiry), re-locked 1..2 times in the same second (deadline unchanged) or a second later, every level given back, wheel swept: exact LCount / LRCount in every reply, counters back, no live manager", ["-witness", "6"])

_quick("C01", "C01_slowmap", "a held key whose manager lives in the ordinary key map (hold parked in the long-expiry table; or two keys sharing one of 4 fast slots, the first released and optionally swept; or a neighbour key moved again while this key sits in their common slot); a second request with Count 0 or 1 and Timeout 0: refused, holds unchanged, the holder's unlock accepted", ["-witness", "3"], reach=["end", "downgraded", "collision", "neighbour"])

_quick("C09", "C09_resync", "follower side of the resynchronisation handshake: the real ReplicationClient.InitSync against a scripted leader that answers ERR_NOT_FOUND to the follower's resume position, then the leader's position to the empty one, then the end marker of an empty transfer: the follower drops its stale hold, adopts the leader's position and consumes the transfer", ["-witness", "1"])

_quick("C12", "C12_candidate", "the real ArbiterVoter.DoProposal over three members (own acceptor through DoSelfProposal, remote answers stubbed: accepted or lost); while it waits for B's or C's answer a foreign REPL_PROPOSAL numbered 0..2 above the candidate's is delivered to its own acceptor through the real remote handler: the accepted number never decreases (symbolic executor only: Request needs a connection natively)", ["-witness", "0"], reach=["end", "proposed", "foreign-accepted"], native=False)

_quick("C12", "C12_candidate_commit", "the candidate's own commit round fails (remote answers lost) after its own acceptor accepted a foreign candidate's proposal and commit — naming the foreign candidate or this member as leader — through the real remote handlers (or nothing foreign happened): the pending foreign commit survives and a third candidacy's proposal + commit are refused (symbolic executor only)", ["-witness", "0"], reach=["end", "foreign-committed"], native=False)

_quick("C11", "C11_shared", "holder A (Count 5) with default / persist-immediately / never-persist timing, then B asks for the key with the require-ack flag, one follower configured: B is not reported SUCCED before its record is written and acknowledged, and is registered for acknowledgement", ["-witness", "3"])

_quick("C07", "C07_relock", "a hold locked with E = 2 s (Rcount 2, persisted at once) and re-locked by its LockId one second later with E = 120 s; restart 0 / 2 / 6 s later: depth 2 and the re-lock's deadline restored", ["-witness", "3"])

_quick("C07", "C07_ms", "a hold with the millisecond flag and E = 30000 ms, persisted at once; restart 0 / 6 / 20 s later: restored with its original deadline to within a second (executor only: natively the millisecond wheel's sweeper goroutine works on the wall clock and races the harness for the hold's deadline)", ["-witness", "0"], native=False)

_quick("C03", "C03_textpush", "0..6 text PUSH commands (each granted at once) on one connection, then LOCK and UNLOCK on another key: every PUSH answered once (a PUSH that blocks the connection is a violation), LOCK and UNLOCK answered with their own result and LockId, nothing left over", ["-witness", "3"], reach=["end", "pushed"], blocked="violation")

_quick("C09", "C09_cut", "the real ReplicationClient.InitSync against a scripted leader whose answer to the first SYNC (position H) is followed by the end of the stream, before any record; the follower's SYNC on its next connection (decoded from what it writes) must ask for everything, not for the records after H", ["-witness", "2"])

_quick("C15", "C15_textnum", "SET k to the decimal string of 0 / 7 / 10 / 99, then INCR k or DECRBY k 3, then GET k, on a real TextServerProtocol: answers of a plain key-value store", ["-witness", "2"], reach=[])

_quick("C18", "C18_willwindow", "connections A and B announce the same client id; A leaves two queued requests (key K held by B, key K2 held by a third connection) and closes; B releases K by a registered WILL_UNLOCK when it closes (or by an UNLOCK just before): A's first request is granted while B is closed but still registered; C announces the id, K2 is released: A's second reply reaches C", ["-witness", "2"], reach=["end", "will"])

_quick("C05", "C05_unlockwait", "holder A and a queued request W; A unlocks with the unlock-then-wait flag (0x08), Timeout 3 s and an expiry in seconds / milliseconds / minutes; W is granted, A's re-queued request is answered TIMEOUT exactly once, in [T, T+2s], through the real per-second sweeps (a millisecond sweeper, if started, is run at its time)", ["-witness", "3"])

_quick("C06", "C06_waitgrant", "a request with E = 3 s queued behind a holder whose hold ends 1..6 s later (by unlock or by its own expiry); the hold granted from the queue ends with exactly one EXPRIED in [grant + E, grant + E + 2 s], tick by tick through the real sweeps", ["-witness", "4"])

_quick("C07", "C07_valexpired", "three keys take holds carrying a value, persisted at once; the first / middle / last of them (or none) with E = 1 s, the others 120 s; restart 5 s later: the short hold is gone, every other hold is restored with its own value", ["-witness", "4"])
_quick("C08", "C07_valexpired", "(also under C07) an uncut log whose value file holds the frame of a record the loader skips as run out: the later records are recovered with their own values — the recovered state is the state of the complete records", ["-witness", "4"])

_quick("C13", "C13_streambuf", "a 64-byte StreamReaderBuffer filled with 1..64 numbered bytes from a connection, then every program of 4 reads (Read into 8 / 24 / 40 bytes or ReadBytesSize of those sizes): the bytes handed out are those that arrived, in order, sizes as a byte queue's, no read past the buffer", ["-witness", "20"])
_quick("C03", "C18_reconnect2", "(also under C18) replies to requests a closed connection left queued, across two reconnects under the same client id: each is delivered exactly once to the connection that then speaks for the id", ["-witness", "4"], reach=["end", "third", "dropped"])

_quick("C09", "C09_sendfiles", "leader side of a full transfer: 4 persisted records over two log files (rotation after 2), the announced position any of (1,1)..(2,3) including positions behind the last record of a file; the real ReplicationServer.sendFiles writes to a capturing connection: exactly the records before the announced position, in log order, then the end marker", ["-witness", "6"])

# small harnesses: every explored path is replayed natively ("-witness n" attaches a model to every n-th ok path)
_ALL_PATHS = {"C12_logorder", "C16_values", "C16_staletmp", "C07_shared", "C18_anon", "C10_demote", "C18_adminwills",
              "C07_percent", "C11_shared", "C12_remote_newer", "C09_resync", "C03_textexpire", "C17_relock_long",
              "C01_slowmap", "C09_cut", "C07_relock", "C03_textpush", "C18_willwindow", "C05_unlockwait",
              "C06_waitgrant", "C07_valexpired", "C09_sendfiles", "C15_textnum", "C18_reconnect2", "C08_bufcut",
              "C16_second", "C18_reinit", "C03_cancel", "C17_recycle"}
for _c in CHECKS.values():
    for _h in _c["harnesses"]:
        if _h["name"] in _ALL_PATHS and _h.get("native", True):
            _fl = [x for x in _h.get("flags", [])]
            if "-witness" in _fl:
                _fl[_fl.index("-witness") + 1] = "1"
            else:
                _fl += ["-witness", "1"]
            _h["flags"] = _fl

_quick("C02", "C02_many", "300 LockIds hold a key of unlimited capacity (beyond ~225 holders the per-key holder queue becomes a node queue with a LockId map); the oldest is released 1 / 100 / 223 / 225 / 227 / 254 / 256 / 258 / 290 times; a second unlock by the LockId released last is UNOWN_ERROR and changes nothing, the next oldest and the newest holders' own unlocks are accepted", ["-witness", "1"])
_quick("C17", "C17_outoforder", "7..9 holders of a shared key (the inline part of the holder queue is full), one that is not the oldest released, 1..2 more holders taken (the queue compacts), everything released, wheel swept: counters back, no live manager", ["-witness", "4"])

_quick("C10", "C10_wire", "a plain BinaryServerProtocol connection on a node in any non-leader state (key held or not): a LOCK / UNLOCK with any flag byte (8 symbolic bits, no value frame) through the real ProcessCommad is refused with STATE_ERROR (TIMEOUT allowed for the concurrent-check shortcut) and changes nothing", ["-witness", "5"])

_quick("C08", "C08_tail", "a log of a header and 1..3 records (symbolic bytes) cut at every byte from 12 on; Aof.LoadFileMaxAofLock (the log position a restarting node continues from) does not fail on a torn last record and returns the last complete record", ["-witness", "10"], reach=["end", "empty"])

_quick("C20", "C20_longwait", "a long-wait bucket queue with a scaled-down geometry (base 1, 4 node slots, first node 2 entries; the server uses 4 / 64 / 256) through 1..6 cycles of: push 3 / 7 / 13 entries, remove all but the last 0..1, the real restructuringLongTimeOutQueue or ...ExpriedQueue, pop the rest; then Reset: contents as the model's, no index outside the node table", ["-witness", "6"])

_quick("C02", "C03_cancel", "(also under C03) cancel-wait naming a queued request that was already answered (timed out) and still sits in the queue behind a live one: the cancel is refused, nobody is answered twice", ["-witness", "1"], reach=["end", "cancel-dead", "cancel-live"])

_quick("C05", "C05_sweeploop", "one real round of the timeout sweeper loop LockDB.checkTimeOut (hook vfSingleRound) after the clock moved on by T+1 .. T+3 seconds at once (T in 1..4), the sweeps it starts run afterwards: the wait is answered TIMEOUT by that round and the sweeper's position is the next second (symbolic executor only)", ["-witness", "0"], native=False)
_quick("C06", "C06_sweeploop", "one real round of the expiry sweeper loop LockDB.checkExpried after the clock moved on by E+1 .. E+3 seconds at once (E in 1..4): the hold is ended with one EXPRIED by that round (symbolic executor only)", ["-witness", "0"], native=False)

_quick("C14", "C14_textreply", "three LOCK / UNLOCK pairs on one text connection with COUNT in {1,2,7} and RCOUNT in {1,3,5} chosen per pair: every reply, parsed back with the real text parser, carries its own request's LockId, COUNT and RCOUNT (the first reply is built fresh, later ones reuse a cached result object)", ["-witness", "50"])

_quick("C17", "C17_zerowaiter", "a holder and 1..2 queued requests of which the first, the second or both have Expried 0 (granted, such a request is answered SUCCED and holds nothing); the holder unlocks, the queue is served, whatever holds is released, wheel swept: LockedCount and WaitCount equal the census after each phase and are zero at the end", ["-witness", "1"])

_quick("C10", "C10_probable", "the same 0..3 holds (symbolic Count of the oldest) on a leader instance and, from the stream, on a follower instance; the same request (concurrent-check flag, Timeout 0, symbolic Count, with or without wait-when-unlocked) to the leader's LockDB.Lock and to the follower's LockDB.CheckProbableLock: whenever the follower answers on its own, its answer is the leader's", ["-witness", "1"], reach=["end", "answered-locally"])

_quick("C13", "C13_execute", "a LOCK carrying an EXECUTE value frame (nested LOCK with a 4-byte value, stage current / unlock / timeout) whose nested length prefix is any value 0..16 and whose tail is cut by 0..6 bytes, through the real LockDB.Lock -> ProcessLockData -> DecodeLockCommand, then UNLOCK: answered, no crash", ["-witness", "10"], blocked="violation")

_quick("C09", "C09_sendstream", "four persisted records in the replication ring, of which the first / second / third / fourth / none carries a 5000-byte value (larger than the sender's 4096-byte batch buffer), drained by the real ReplicationServer.SendProcess into a capturing connection: the captured live stream, cut into records and values as the follower reads it, is the ring's sequence (same positions, same order, no bytes more or less)", ["-witness", "1"])

_quick("C03", "C03_longgrant", "a request queued on an exclusive or two-slot key (Expried > 0 or 0) that has waited 10 s (seconds wheel) or 50 s (long-wait table) is granted when a holder leaves; its own unlock, three more sweeps and a third party's LOCK follow: its LOCK has exactly one reply (SUCCED) throughout, and the slot it gave back is free", ["-witness", "1"])

_quick("C07", "C07_sharedvalue", "a key of capacity 5 whose first holder sets a value with E = 2 s (or 120 s); a second holder joins without a value operation, or the setter renews with the update flag, with E = 120 s; all persisted at once; restart 5 s later (the setter's first record has run out and is skipped): the surviving hold is restored with the key's value", ["-witness", "1"])

_quick("C15", "C15_shiftover", "a value of 1..3 symbolic bytes (with or without a property block) shifted by len+1 .. len+12 bytes (past the value, the frame header, the whole stored frame), then an APPEND: the register holds the empty value, the reply carries the value from before, the APPEND builds on the empty value", ["-witness", "6"])

_quick("C06", "C06_msunlimited", "a hold with the unlimited-expiry flag combined with the millisecond flag, the minute flag or neither and Expried 500 / 3000 / 7000 / 0xffff; the clock runs Expried ms + 12 s through the millisecond slot sweepers and the second wheel: no EXPRIED, the hold is still there and its unlock is accepted (symbolic executor only)", ["-witness", "0"], native=False)

_quick("C06", "C06_msupdate", "a hold with a millisecond expiry E in {1500, 2999} ms, updated at E/2 ms (update flag, Count changed) with the same millisecond terms or with a seconds expiry of 10 s; the sweeper of the original slot runs at E ms, later sweepers and per-second sweeps follow: exactly one EXPRIED in [update + E', update + E' + 2 s] (symbolic executor only)", ["-witness", "0"], reach=["updated"], native=False)

_quick("C08", "C08_valappend", "a log of two valued records (symbolic record bytes) whose value file is cut at every byte of the second value frame (0..8 of its 9 bytes on disk); first restart, the append file reopened for writing, one more valued record persisted and flushed, second restart: the first and the new record with their own values, the torn record not brought back from partial bytes", ["-witness", "1"], reach=["reopened"])

_quick("C20", "C20_restructure", "LockQueue, LockCommandQueue and LockManagerQueue with geometry (1,8,2) and (4,8,2): filled with 7 / 15 / 30 elements and the tail taken back by 0 / 1 / 3 PopRight, or filled with 40, drained, Reset and refilled with 3 / 8 / 14; all but 0..2 elements popped; Restructuring; 5 / 20 / 45 more pushes across node boundaries; drain: every element and length as a plain deque's", ["-witness", "40"])

_quick("C11", "C11_reentry", "a hold (Rcount 3) taken with the require-ack flag and fully acknowledged (leader flush + one follower, mode all); the same LockId locks a second level with the require-ack flag, with or without the leader's flush following: no SUCCED for the second level while no follower has acknowledged its record", ["-witness", "1"], reach=["first-level-held"])

_quick("C11", "C11_update", "a hold taken with SET v1 (2 symbolic bytes) under the require-ack flag and acknowledged; an update (update-when-locked flag) carrying SET v2 and the require-ack flag goes pending; leader flush, then a negative follower acknowledgement: exactly one non-SUCCED reply and the key's value is v1 again", ["-witness", "1"], reach=["update-pending"])

CHECKS["C14"]["harnesses"].append(dict(pkg="protocol", name="C14_valueframes", bound="value frames (the Data field of LOCK / UNLOCK): a key/value map of one entry (key and value 1..3 symbolic bytes, lengths independent) through NewLockCommandDataSetKV and an array of two elements (1..3 symbolic bytes each) through NewLockCommandDataSetArray read back through the result accessors GetKVValue / GetArrayValue to the same values; the frame's length prefix is its size", flags=["-witness", "1"], reach=["end"]))

_quick("C13", "C13_admincmd", "one administrative text command (ECHO, PING, QUIT, SHOW, CONFIG, CLIENT, FLUSHDB, FLUSHALL, REPLSET, SLAVEOF) with 0..3 arguments, the first two from 19 words / the empty string / 1..2 symbolic ASCII bytes, the third from 5 words / 2 symbolic bytes; server with a held key (value + queued request), a binary and a text connection in the stream table, REPLSET with and without a three-member replica set; INFO, SHUTDOWN, CONFIG GET <name> (package reflect) and the forms that dial another node are left out", ["-witness", "2000"])
_thorough("C13", "C13_admincmd3", "as C13_admincmd with the third argument from the full alphabet too", ["-witness", "10000"])

_POOLED = "every history of 4 operations on two connections whose command objects come from the connection's own pool (GetLockCommand, as the real protocols do): LOCK on the key as a new hold / re-entry / update with symbolic Count, Rcount, update flag and ordinary or keep-the-timing terms (unlimited flag, Expried 3 / 0xffff), a LOCK on another key with its own symbolic Count, UNLOCK; a shadow list of holds kept from the replies alone; admission rule, holder census, and every hold's LockId and Count against the shadow after each operation"
_quick("C01", "C01_pooled", _POOLED, ["-witness", "500"], reach=["end", "grant", "grant-shared", "updated", "re-entered"])
_quick("C03", "C01_pooled", _POOLED, ["-witness", "500"], reach=["end", "grant", "updated", "re-entered"])
_quick("C19", "C01_pooled", _POOLED + " (server side of RLock / Semaphore re-entry: a connection's next request must not rewrite a hold it took earlier)", ["-witness", "500"], reach=["end", "re-entered"])
_quick("C02", "C02_bigcancel", "exclusive holder + N in {3,150,300} queued requests (inline slice, its growth, overflow ring), none or one already served; a cancel-wait UNLOCK names the first / second / middle / 256th / 257th / 258th / last queued request: LOCKED_ERROR + UNLOCK_ERROR, WaitCount - 1, request gone; a second cancel is refused and changes nothing; three hand-overs served in arrival order without the cancelled request", ["-witness", "5"], reach=["end", "cancelled"])

_quick("C04", "C04_handover", "a key that is never idle: an exclusive hold handed over 20 times, 1 / 2 / alternately 1 and 2 new requests queued before every hand-over, in every third round none / the newest / the oldest queued request cancelled first; every hand-over grants exactly the oldest live queued request, nothing is left queued", ["-witness", "1"])

_quick("C06", "C06_longrecycle", "every program of 6 events out of {new hold on a fresh key with E = 8 s, with E = 14 s (zero persistence delay: filed in the long-expiry table at once), release the oldest live hold, release the newest, 2 s pass}, then second by second until every deadline is 3 s past: buckets of the long-expiry table emptied by releases, recycled through the shard's free list and taken again for other deadlines; no hold ends before E, each unreleased one draws exactly one EXPRIED by E + 2 s, a released one none", ["-witness", "50"], reach=["end", "released"])
_quick("C07", "C07_program", "every program of 5 operations persisted at once, from {LOCK key1 by L1 (re-entrant), LOCK key2 by L2, value-only LOCK on key1 (Expried 0 with SET), LOCK key1 by L3 (Count 1), UNLOCK L1 (all levels), UNLOCK L2, UNLOCK L3, UNLOCK of one level of L1, the same with the priority bit in its timeout flags}, then a restart: per key the same LockIds, depths and value (Lock objects pass through the shard's pool in every order)", ["-witness", "100"], reach=["end", "held"])

_quick("C09", "C09_backpressure", "the follower's live-stream reader (real ReplicationClient.Process) over 700 records with its three pipeline stages scheduled by the harness: two stages keep up, the third (replay / append / re-publish) takes one record in hand after 0 / 100 / 250 records and stalls until its queue is full, then catches up; every stage sees every record once, in order, with the content it was sent with (a receive buffer is never refilled while a stage still holds it)", [], reach=["end", "stalled-full"], native=False)

_quick("C10", "C10_stepdown", "a leader with a holder (E = 3 s) and a queued client request steps down through the real SLock.updateState to each of the five non-leader states; inside the step-down's wait (ReplicationManager.WaitServerSynced replaced by a harness function) one event happens: the holder's deadline passes (6 s through the real sweeps), a client LOCK on another key, the holder's client UNLOCK — nothing granted or released, STATE_ERROR to the client; optionally the node has a second database with id 3 (sparse ids): every database has the new role afterwards and refuses a client LOCK", [], reach=["end", "sparse"], native=False)
_quick("C11", "C11_lateack", "key of capacity 5 with a plain holder; ack-required lock A goes pending (1..2 followers, mode all), the persistence channel drained before or only after A's wait times out; exactly one error reply; ack-required lock B (same or another LockId) goes pending; 1..F positive acknowledgements naming A's record arrive late; then B's own flush report and F acknowledgements in both orders: B is answered SUCCED exactly once and only after its own acknowledgements", ["-witness", "1"], reach=["end", "a-timed-out", "late-acks"])

_quick("C15", "C17_recycle", "(also under C17) 5..8 keys with values on a fast key table of 4 slots (some parked in the long-expiry table), all released, wheel swept, then 24 fresh keys one after the other: a key that was never given a value is never shown one (no value left on a key manager recycled through the pool)", ["-witness", "1"])

_quick("C16", "C16_rotate", "history of C16_whole; after the compaction has chosen its inputs and opened rewrite.aof.tmp (schedule point at its time.Now()) the server goes on: nothing / a new persisted hold and a log rotation / the same plus a persisted release in the new current file; the compaction finishes; a restart recovers exactly the live holds", [], reach=["end", "rotated"], native=False)

_quick("C18", "C18_handle", "a connection's whole life through the real Server.handle (protocol sniffing in checkProtocol, Process loop, close): text or binary client, first packet a will (LOCK ... WILL) or a PING, then nothing / a second will / a PING, then EOF; the server's writes fail from the first, from the second, or never: every registered will has run exactly once, the connection is closed, its protocol session is gone", ["-witness", "1"], reach=["end", "handled"])

_quick("C18", "C18_willopts", "text LOCK / UNLOCK followed by every sequence of 1..3 options out of {WILL 1, EXPRIED 100, TIMEOUT 0} with WILL at least once (first, last, in the middle, repeated): never executed before the connection ends; registered (+OK) and run exactly once at Close, or refused and never run", ["-witness", "1"], reach=["end", "registered"])

_quick("C15", "C15_release", "a holder sets a value of 2 symbolic bytes (persistence timing never / default / at once) and its hold ends by release or by expiry (E = 3 s); 0 / 1 / 2 s later another LockId takes the key with APPEND of 1 symbolic byte: no value from before in the reply, the stored value is the appended byte alone", ["-witness", "1"], reach=["end"])

_quick("C13", "C13_manyholds", "one binary connection takes N = 1 / 63 / 64 / 65 / 130 holds on N keys (around and beyond the 64 slots of its free-command array) through the real ProcessParse, optionally lets N requests wait behind them, releases all in the same or reverse order, takes N/2 again, closes: every request answered with one 64-byte frame, no crash, a second connection still served", ["-witness", "1"], reach=["end", "released"])

_quick("C02", "C02_dupwait", "a key of capacity 2 held by Y and Z; LockId X queues two requests (second with the same terms or Rcount 1); Y and Z leave; UNLOCK of X with Rcount 0 must remove everything X holds (key free), a second UNLOCK of X is refused", ["-witness", "1"], reach=["both-granted"])

_quick("C18", "C18_promoted", "through the real Server.handle with the forwarding wrappers: the node is a follower when a binary / text client connects and answers its PING, is promoted to leader before the client's second packet, which registers a will; the client goes away: the will runs on this node exactly once", ["-witness", "1"], reach=["promoted"])

_quick("C20", "C20_longwait2", "the long-wait / long-expiry bucket queue at the server's geometry (first node 256 entries) under the server's own maintenance trigger (real RemoveLongTimeOut / RemoveLongExpried: restructure when a third of the bucket, at least 256 entries, or all of it is holes): every program of 4 steps out of {300 new entries, 900 new entries, the older 40 % leave one by one, the newer 40 % leave, all but 2 leave}, then drained, Reset and reused for 2000 entries", ["-witness", "20"])
_thorough("C20", "C20_longwait2x", "as C20_longwait2 with 5 steps", ["-witness", "100"])

_quick("C07", "C07_shorten", "a persisted hold whose deadline was moved by an update (Count changed) one second after the grant: E 100 -> 2 (shortened), 2 -> 100 (lengthened), 100 -> 50; the instance stops at once, a fresh one starts 0 / 2 / 6 s later: held again exactly if the CURRENT deadline has not passed, with that deadline", ["-witness", "1"], reach=["end", "expired-in-outage"])

_quick("C11", "C11_noaof", "a LOCK with the require-ack flag and persistence timing never / default / at once, on a free key or next to a never-persist holder, taken at once or granted from the wait queue: whenever it is answered SUCCED without waiting for acknowledgements (nothing is written) it is an ordinary hold — re-entrant LOCK and UNLOCK by its owner are accepted, never LOCK_ACK_WAITING", ["-witness", "1"], reach=["granted-at-once", "pending"])

_quick("C01", "C01_prioritymutex", "the shard mutex (PriorityMutex.Lock / LowPriorityLock / HighPriorityLock and their unlocks) from a free mutex, with the other threads as nondeterminism: each of the next 5 atomic loads of the low-priority lane counter and of the high-priority flag returns an arbitrary value (solver variables); every lock function returns holding the inner mutex, every unlock gives it back", [], reach=["end", "locked"], native=False)

_quick("C02", "C02_rolling", "a shared key of capacity 2 / 3 / 8 that is never free: filled, then 20 rounds of {the oldest holder releases, a new LockId takes the slot, the newest holder re-enters (Rcount 1) and releases that level, a stranger's unlock is refused}; after every round the key's holds are exactly the outstanding LockIds; at the end every holder's own UNLOCK is accepted", ["-witness", "1"])

_quick("C03", "C11_ack", "(also under C11) one ack-required LOCK, 0..2 followers, every sequence of <=4 events from {leader flush, follower ack ok, follower ack negative, UNLOCK / LOCK same LockId, unlock-first, ack wait times out}: exactly one terminal reply for the request — also after a failed acknowledgement, when its own wait runs out 8 s later", ["-witness", "50"], reach=["end", "rolled-back"])

_quick("C04", "C04_afterleave", "a shared hold (symbolic Count) and one queued request (symbolic Count) that leaves the queue ungranted — its wait runs out, or it is cancelled; then a newcomer with symbolic Count and Timeout 5: nothing live is queued, so it is granted at once or is not admissible; no admissible request sits at the head of the queue afterwards", ["-witness", "1"], reach=["end", "left"])

CHECKS["C14"]["harnesses"].append(dict(pkg="protocol", name="C14_textunits", bound="the time options of the Redis-style text commands (EX, PX, TX, PTX) with a number of 1..9 symbolic decimal digits through ConvertArgs2Flag: whatever unit the converter picks (ms / s / min), the duration the 16-bit field then stands for is not shorter than the written one and exceeds it by less than one unit; beyond 65535 minutes: rejected or saturated", flags=["-witness", "4", "-solver", "cvc5-int"], reach=["end", "beyond-field"]))

CHECKS["C13"]["harnesses"].append(dict(pkg="protocol", name="C14_idnorm", bound="(also under C14) key / id arguments of text commands: strings of every length 0..64, all byte values, through ConvertArgId2LockId and ConvertString2LockKey: no crash (every run-time check of the converters, encoding/hex included, is an obligation)", flags=["-witness", "1"], reach=["end"]))

_quick("C11", "C11_interleaved", "a counter key of capacity 5: holder A set it with INCR a; B goes pending with the require-ack flag and INCR b; A updates its hold with INCR c (applied, shown a+b); B's acknowledgement fails: the counter must be a+c for all 64-bit a, b, c (only the failed lock's own change is undone)", ["-witness", "1"], reach=[])

_quick("C17", "C01_slowmap", "(also under C01) a held key whose manager lives in the ordinary key map, or shares one of 4 fast slots with a neighbour that is moved again: the key stays findable — the holder's unlock is accepted (reply LCount exact), a second request is refused, nothing is lost from the key table", ["-witness", "1"])

_quick("C15", "C15_textttl", "every program of 3 Redis-style commands over a string key and a counter key out of {SET, SET .. EX 5, SETEX, APPEND, EXPIRE 5, PERSIST, INCR, DECR, INCRBY, DECRBY, EXPIRE 5, PERSIST}, then 8 s through the real sweeps: SET / SETEX / EXPIRE / PERSIST set the time to live, the other writers keep it; EXISTS afterwards answers as a plain key-value store", ["-witness", "20"], reach=["end", "kept", "expired"])

_KEEPALIVE = "a request with the keep-alive flag and T = 3 s queued behind a holder that stays; its requester is a binary connection that stays open / a binary connection closed one second later / the stream-less in-process protocol; 12 s through the real sweeps: without a live connection behind it the request ends with TIMEOUT within [T, T+2 s], WaitCount 0, nothing left queued"
_quick("C18", "C18_keepalive", _KEEPALIVE, ["-witness", "1"], reach=["end", "closed", "alive"])
_quick("C05", "C18_keepalive", "(also under C18) " + _KEEPALIVE, ["-witness", "1"], reach=["end"])

_quick("C07", "C16_update", "(also under C16) a persisted hold whose holder changes its terms one second later (update: E=200/300, optionally Count 3), 0 / 1 / 3 / 70 s pass, rotation, compaction, restart: the hold comes back with the deadline, Count and Rcount its last update gave it", ["-witness", "1"], reach=["end"])

_quick("C11", "C11_sharedfail", "a key of capacity 2: a plain holder keeps one slot, an ack-required lock goes pending on the other, a third request queues; the acknowledgement fails (negative follower ack / the wait runs out): one error reply, the hold gone, the queued request granted the freed slot although the key still has another holder", ["-witness", "1"], reach=["end", "nack", "ack-timeout"])

_quick("C09", "C09_twowriters", "two writers in Aof.PushLock, the harness as scheduler: right before the first writer acquires replGlock (vfLockHook) a second writer runs its whole PushLock if, and only if, the first no longer holds aofGlock; both records come out of the replication ring, and lie in the log file, in the order of their log positions", [], reach=["end", "serialised"], native=False)

_quick("C04", "C04_window", "A holds, B is queued (symbolic priority flag and priority), A unlocks; a third client's LOCK (symbolic priority flag and priority) arrives between the release of the key's mutex and the wake-up pass (sent from inside the unlock's reply callback, which runs exactly there): unless its priority is strictly higher it must not be granted ahead of B", ["-witness", "1"], reach=["no-bypass"])

_quick("C01", "C01_tombstone", "a key whose hold has ended and whose manager lives on through the wheel's reference; right before a new request acquires the manager's mutex (vfLockHook) the sweep retires the manager; the request is granted; the retired manager stays in the pool or is handed to a request for another key first; the request is granted on ITS key; a third request (Count 0, Timeout 0) must be refused and the holder's unlock accepted — for an ordinary key and for the key of 16 zero bytes", [], reach=["manager-lingers", "reused"], native=False)

_quick("C05", "C05_race", "a queued request (T = 3 s) behind a holder; in the deadline tick, right before the k-th acquisition of the key's mutex (k = 1..4, vfLockHook) the holder's UNLOCK hands the key over: exactly one terminal reply; SUCCED means the request holds the key afterwards (no TIMEOUT after a grant), TIMEOUT means it holds nothing", [], reach=["end", "raced", "granted"], native=False)
_quick("C16", "C16_twodb", "a log shared by two databases (ids 0 and 1, or 0 and 3): every program of 4 persisted operations out of {LOCK / UNLOCK in the first / in the second database}, rotation, the real compaction, restart: each database holds exactly what it held", ["-witness", "50"], reach=["end", "held"])
_quick("C16", "C16_startup", "compaction at start-up: the real Aof.LoadAndInit on the log of a leader with holds in two databases; whenever the starting thread blocks the harness lets ONE more persistence-channel worker run until it blocks (database 0 first or database 1 first; vfBlockHook, vfRunToBlock), the start-up compaction runs right after LoadAndInit returns, the other workers after it; a second restart recovers every hold", [], reach=["end", "restarted"], native=False)
_quick("C07", "C16_startup", "(also under C16) a restart whose start-up compaction runs while the log's replay is still queued in a persistence channel, then another restart: every persisted live hold is held again", [], reach=["end"], native=False)

_quick("C03", "C03_sharedexpire", "three holders of a shared key (Count 2, E = 3 s, one optionally re-entered to depth 2); the oldest / middle / newest releases its hold (completely, or one level of two); 8 s through the real sweeps: no EXPRIED for the released one, exactly one for each of the others under its own RequestId, no other reply, nothing freed twice, counters back", ["-witness", "1"])

_quick("C09", "C09_search", "the leader's resume-by-position lookup on a ring of three records for ANY announced 16-byte position (16 solver variables): found only if the position is byte for byte (file offset, file index and command time) that of a record in the ring, with the cursor on that record; otherwise the follower is told to start over; each record's own position is found", ["-witness", "5"], reach=["end", "found", "not-found"])

_quick("C18", "C18_manyreconnects", "N = 3 / 5 / 6 earlier connections under one client id each leave a queued request and close; a live connection announces the id and receives all N grants (it adopts more proxies than the four kept across the server's session maintenance); optionally the maintenance runs; it closes, another connection announces the id; the N holds expire: every EXPRIED notice reaches that connection exactly once, nothing is written to the closed one or to an unrelated client", ["-witness", "1"], reach=["end", "maintained"])

_quick("C11", "C11_followerack", "the follower's side of an acknowledgement (real ReplicationAckDB follower functions, acknowledgements captured on the connection to the leader): four records one after the other (pooled entries recycled from the second on), each applied and flushed in either order, the flush succeeding or failing: nothing sent after the first event alone, exactly one 64-byte acknowledgement naming the record after the second, positive only if replay and flush both succeeded", ["-witness", "20"])

_quick("C10", "C10_forward", "forwarding through the text wrapper: a follower whose text connection is wrapped in TransparencyTextServerProtocol with an in-memory link, a leader that executes every forwarded frame (real BinaryServerProtocol.ProcessParse; results back through the link's real processTextProcotol) and a reference leader with a plain text client; every program of 3 commands out of {LOCK k, UNLOCK k, LOCK k by another id, UNLOCK by that id, PUSH j, UNLOCK j}, the leader's results delivered right after each command or only when the follower's handler waits (vfBlockHook): every reply equals the reference client's byte for byte, the follower holds nothing itself", [], reach=["end", "relayed", "handler-waited"], native=False)

_quick("C10", "C10_relaybin", "forwarding through the binary wrapper, for every frame: any LOCK / UNLOCK frame (all fields symbolic; database 0, no value frame, concurrent-check flag clear) through TransparencyBinaryServerProtocol.ProcessParse (its own hand-inlined decoder) goes out on the link to the leader as exactly one frame that equals the client's byte for byte, and nothing is answered or applied locally; any lock result frame coming back (undefined trailing bytes zero) through processBinaryProcotol is written to the client as exactly those 64 bytes", [], reach=["end", "forwarded"], native=False)

_PIPE = "a shared key whose holder SET an 8-byte value; an ack-required lock carrying a PIPELINE of two sub-operations out of {SET, APPEND, SHIFT 1, INCR 1} goes pending; the acknowledgement fails (negative follower ack / the wait runs out): one error reply, no crash, the register holds the 8 bytes from before"
_quick("C11", "C11_pipeline", _PIPE, ["-witness", "1"])
_quick("C13", "C11_pipeline", "(also under C11) " + _PIPE + " (every run-time check on the undo path is an obligation: well-formed frames must not crash the server)", ["-witness", "1"])

_quick("C05", "C05_mslate", "the millisecond wheel when a slot's sweeper goroutine is d = 0 / 1 / 5 ms late: W1 waits 300 ms; in the window between its deadline and its sweeper's run W2 arrives with a wait of 2500 / 2995 / 3000 - d ms; neither is answered TIMEOUT before its wait has passed, each exactly once by T + 2 s", [], reach=["late-sweep"], native=False)

_quick("C04", "C17_zerowaiter", "(also under C17) a holder and 1..2 queued requests of which the first, the second or both have Expried 0 (served, such a request holds nothing); the holder unlocks: the wake-up pass goes on until the next queued request is not admissible — nothing admissible is left at the head of the queue", ["-witness", "1"])

_quick("C08", "C16_staletmp", "(also under C16) a compaction that died after writing rewrite.aof.tmp and its value file (the process stopped at that instant), a restart, the next compaction, another restart: the holds come back with their own values (a value file left behind by the interrupted compaction is not appended to)", ["-witness", "1"], reach=["end"])

_quick("C07", "C08_valappend", "(also under C08) a log of valued records, restart, one more valued record persisted, second restart: every persisted hold comes back with its own value (a restart must not damage the value file it reopens for appending)", ["-witness", "4"])

_quick("C06", "C06_race", "a hold with E = 3 s; in the deadline tick, right before the k-th acquisition of the key's mutex (k = 1..4, vfLockHook) its holder's re-entrant re-lock, or an update with a changed Count, comes in and is answered as a success: the period has restarted — the hold is still there after the tick, draws no EXPRIED before E has passed again, and ends by E + 2 s after the renewal", [], reach=["renewed-in-the-deadline-tick"], native=False)

CHECKS["C14"]["harnesses"].append(dict(pkg="protocol", name="C14_properties", bound="the property block of a value frame: a SET frame built by NewLockCommandDataSetDataWithProperty with 1..3 properties (symbolic codes, values of 0..2 symbolic bytes each) and a value of 0..2 symbolic bytes, read back through LockResultCommandData.GetDataProperties / GetDataProperty / GetBytesValue: the same properties in order (empty values included, wherever they stand) and the same value", flags=["-witness", "20"], reach=["end"]))

_quick("C15", "C11_value", "(also under C11) a value operation carried by an ack-required lock, taken at once or granted from the wait queue: if the acknowledgement fails the register holds the value from before (a refused request leaves it unchanged) and the next holder is shown that value; if it succeeds the reply carries the value from before the operation", ["-witness", "20"], reach=["end"])
_quick("C17", "C06_longrecycle", "(also under C06) long-expiry buckets emptied by releases and recycled: every program of 6 events, then the clock runs until every deadline is 3 s past: every hold has ended, LockedCount is back to 0 (a hold the sweep never pops is never reclaimed)", ["-witness", "50"], reach=["end"])

_quick("C08", "C08_maxid", "the start of a replica-set member (Aof.LoadMaxAofId, whose failure fails ArbiterManager.Load and the start): append.aof.1 with two records and the newest file append.aof.2 (header + two records) cut at every byte 0..140: the call succeeds and reports the position of the last complete record of the log (of the older file when the newest holds none)", ["-witness", "10"], reach=["end", "newest-empty"])

# --- round 11 ---
_quick("C03", "C03_reconnect", "client id X: connection A announces X and queues 1..2 requests; X's next connection announces X before OR after the server closes the previous one (1..2 such hand-overs); each request is then granted, timed out or cancelled from the live connection: its one terminal reply arrives exactly once on the connection that speaks for X at that moment and on no closed one", ["-witness", "20"], reach=["end", "close-after-init"])
_SWEEPJUMP = "the sweeper loops after a stall LONGER than one turn of the 16-slot second wheel: a wait (hold) of T = 60..75 s (symbolic) already in the long-wait (long-expiry) table at second 46 / 50 / 54; the clock then moves on at once to 0..40 s (symbolic) past the deadline; one real round of LockDB.checkTimeOut (checkExpried) (hook vfSingleRound) and the sweeps it starts: answered TIMEOUT (ended with one EXPRIED) by that round, nothing left queued, not granted afterwards (symbolic executor only)"
_quick("C05", "C05_sweepjump", _SWEEPJUMP, ["-witness", "0"], native=False)
_quick("C06", "C06_sweepjump", "(expiry twin of C05_sweepjump) " + _SWEEPJUMP, ["-witness", "0"], native=False)
_quick("C09", "C09_fullsync", "leader side of a full transfer from the handshake on: 1..3 persisted records (a rotation after the first or not), the leader left running (records in the ring) or restarted through the real Aof.LoadAndInit (ring EMPTY); real ReplicationServer.handleInitSync on an empty-position SYNC, then the real sendFiles: the records sent from the files plus those the ring holds from the announced position on are the whole persisted log, each once, in log order (symbolic executor only)", ["-witness", "0"], reach=["end", "restarted"], native=False)
_quick("C10", "C10_deferlong", "1..2 replicated holds of E = 150 / 300 / 400 s on a node in each non-leader state, clock advanced second by second through the real sweeps to 10 / 200 / 299 s past the DEADLINE: still held, no EXPRIED; the leader's release record is then applied", ["-witness", "1"], reach=["end"])
_quick("C11", "C11_sharedrepeat", "a shared key (capacity 6) with a plain holder P and an ack-required lock A pending, in either order in the holder list; one further request from the hold's own or another connection: for A's LockId a LOCK (plain / re-entrant / update; symbolic Count, Expried, Rcount, with or without the require-ack flag) or an UNLOCK (all levels / symbolic Rcount and priority bit) - answered LOCK_ACK_WAITING, A's own request still unanswered, A's depth unchanged; for P's LockId - not answered LOCK_ACK_WAITING; then the leader's write and the follower's acknowledgement: A's request is answered SUCCED exactly once", ["-witness", "5"], reach=["end", "pending-lockid", "other-lockid"])

# --- round 12 ---
CHECKS["C14"]["harnesses"].append(dict(pkg="protocol", name="C14_rt_fields", bound="the other direction of the round trip for SubscribeCommand, SubscribeResultCommand, StateResultCommand, LockCommand, LockResultCommand: every field a solver variable (padding zero), Encode then Decode into a fresh value: every field comes back (a decoder that misplaces one byte of an integer is invisible to decode-encode-decode)", flags=["-witness", "5"], reach=["end"]))
_quick("C15", "C15_setupdate", "a holder SETs a frame (payload 1..3 or 8 symbolic bytes, value-type flag symbolic, with or without a key property of 2 symbolic bytes); a second SET of the same length, all of it symbolic again, arrives as an update of the held lock or as a value-only request (Expried 0) - the two paths on which the server may skip a SET it takes for a repetition: the stored frame is byte for byte the second SET's (type flag, property block, payload), the reply carries the first", ["-witness", "5"], reach=["end", "update", "value-only"])
_SHIFTPROP = "a stored value of 1..3 symbolic bytes with or without a property block (key property of 1..3 symbolic bytes), then SHIFT by ANY 32-bit length (one solver variable): no crash (every run-time check is an obligation; all frames are well-formed, so no recorded hostile-frame site applies) and the stored value is the payload without its first min(n, len) bytes"
_quick("C15", "C15_shiftprop", _SHIFTPROP, ["-witness", "5"], reach=["end", "with-property", "emptied"])
_quick("C13", "C15_shiftprop", "(also under C15) " + _SHIFTPROP, ["-witness", "5"], reach=["end", "with-property", "emptied"])
_EXPWAKE = "a key of capacity 1 or 2: holder A (E = 3 s, with or without the lock-the-reversed-key-when-expired flag 0x0080, symbolic), on the shared key a second holder B (E = 30 s) before or after A, a queued request W (T = 20 s); 5 s through the real sweeps: A drew exactly one EXPRIED, W is granted exactly once in that sweep, B keeps its hold"
_quick("C06", "C06_expirewake", _EXPWAKE, ["-witness", "5"], reach=["end"])
_quick("C04", "C06_expirewake", "(also under C06) " + _EXPWAKE, ["-witness", "5"], reach=["end"])
_quick("C17", "C17_cancelafter", "a holder and 2..3 queued requests of which one that is not the head times out (T = 2 s; its dead entry stays queued behind the live head); an UNLOCK with the cancel-wait flag then names the timed-out LockId or a live one: after every event WaitCount equals the number of queued requests not yet answered; the holder unlocks, the live ones are granted and released: WaitCount and LockedCount are back to zero, no request answered twice", ["-witness", "5"], reach=["end", "cancel-dead"])
_quick("C19", "C19_flowobject", "ONE client.MaxConcurrentFlow object shared by several callers (it caches one Lock built by whichever of Acquire / Release is called first): n = 1..2 and priority 0..3 symbolic, first call Acquire or a defensive Release, then every program of 4 calls from {Acquire on the shared object, Acquire on a fresh object, Release on the shared object}: never more than n inside", ["-witness", "10"], reach=["end", "release-first"])

# well-formed frames under C13: for these harnesses no crash site is recorded, so ANY crash is a violation
# (the hostile-frame harnesses C13_* key their recorded crash family by source line, which can hide a new
# cause at a recorded line: seed C13l)
_MIXED = "value operations of MISMATCHED kinds, every frame built by the real client-side constructors: every sequence of 3 operations from {SET (1..3 or 8 symbolic bytes), INCR (symbolic), APPEND, SHIFT (any 32-bit length), PUSH, POP 1..3, UNSET} in any order (INCR on a 2-byte value, POP on a shifted array ...): the server does not crash (every run-time check is an obligation) and answers each request exactly once; the resulting value is not specified and not asserted"
_quick("C13", "C15_mixedkinds", _MIXED, ["-witness", "20"], reach=["end"])
_quick("C13", "C15_props", "(also under C15) every sequence of 3 kind-compatible value operations with or without property blocks, well-formed frames: every run-time check on these paths is an obligation", ["-witness", "20"], reach=["end"])
_quick("C13", "C15_pipeline", "(also under C15) PIPELINE frames of well-formed sub-operations: every run-time check on these paths is an obligation", ["-witness", "5"], reach=["end"])
_thorough("C13", "C15_mixedkinds4", "as C15_mixedkinds with every sequence of 4 operations (72 343 paths)", ["-witness", "50"])
_thorough("C13", "C15_mixedpaths", "as C15_mixedkinds on the other paths a value operation can take: the first operation by a fresh LOCK, then two more, each by an update of the held lock, a re-entrant re-lock, a value-only request (Expried 0) of another LockId or an UNLOCK of one re-entrant level (54 107 paths): no crash, each request answered exactly once", ["-witness", "50"])

# --- round 13 ---
_quick("C10", "C10_newdb", "a node in each non-leader state; a LOCK / UNLOCK (symbolic flag byte without the from-stream and concurrent-check bits, symbolic Count / Rcount / Timeout / Expried) names a database id never used on the node, created on the spot by SLock.GetOrNewDB: refused with STATE_ERROR, nothing granted or queued", ["-witness", "5"], reach=["end"])
_quick("C11", "C11_writefail", "an ack-required lock pending with one follower (mode all); the leader's own write of its record fails (the report AofFile.Flush makes for each pending request of a failed write, Aof.lockAcked(record, false), delivered for the record waiting in the file buffer) before or after the follower's positive acknowledgement: exactly one reply, not SUCCED, the hold is gone", ["-witness", "2"], reach=["end", "follower-first"])
_quick("C18", "C18_willfail", "a binary connection with 3 wills, one of which (position 0 / 1 / 2, or none) cannot run at disconnect (a will-unlock naming a database never created, or a will-lock naming database 0xff): every other will has run after the connection closed", ["-witness", "8"], reach=["end"])
