"""Registry of checks: property -> harnesses (with per-tier symgo flags and stated bounds)."""

CHECKS = {
    "C14": dict(
        explanation="bounded symbolic execution of the real codec functions from go/ssa; inputs are symbolic bytes",
        assumptions=["crypto/md5.Sum is an uninterpreted function of its input bytes"],
        harnesses=[
            dict(pkg="protocol", name="C14_rt_lock", bound="all 2^512 64-byte buffers", flags=["-witness", "1"], reach=["end"]),
        ],
    ),
}
